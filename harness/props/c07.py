"""C07 — covariate models shift the selected population parameters linearly"""
import math
import numpy as np

import core
import oracle

REQUIRED_THEOREMS = [
    'C07_transform', 'C07_zero', 'C07_zero_ll', 'C07_zero_indiv',
    'C07_equiv_per_individual', 'C07_equiv_per_individual_legacy_partial', 'C07_equiv_indiv',
    'C07_equiv_indiv_partial', 'C07_indiv_negscale_counterexample', 'C07_hetero_ll_counterexample',
    'C07_equiv_sample',
    'C07_grad', 'C07_grad_transpose', 'C07_grad_entries', 'C07_th_hasDerivAt', 'C07_grad_hasDerivAt',
    'C07_grad_partial', 'C07_grad_reduced', 'C07_grad_reduced_legacy_partial',
    'C07_grad_pooled_counterexample',
    'C07_grad_gauss', 'C07_grad_gauss_centred', 'C07_grad_logn_centred', 'C07_grad_trunc',
    'C07_grad_gauss_noncentred', 'C07_grad_logn_noncentred', 'C07_grad_pointmass',
    'C07_selection', 'C07_selection_unique', 'C07_selection_order_irrelevant',
    'C07_beta_index_bijection', 'C07_names', 'C07_names_invariant', 'C07_constructor_selection',
    'C07_constructor_names', 'C07_setpop_checked', 'C07_setpop_out_of_range',
    'C07_unstable_counterexample', 'C07_unstable_acts_on', 'C07_setpop_counterexample',
    'C07_callerorder_counterexample', 'C07_legacy_stable_partial', 'C07_th_bridge',
    'C07_set_n_ids_counterexample', 'C07_set_n_ids_fresh', 'C07_set_n_ids_all_selected',
    'C07_set_n_ids_history', 'C07_set_n_ids_keeps_selection', 'C07_names_reset', 'C07_namesOk_step',
    'C07_equiv_indiv_return_eta', 'C07_set_n_ids_raise_counterexample',
    'C07_rejected_selection_unchanged', 'C07_rejected_calls_erased']
RULE = ('wrapped model in {Gaussian, LogNormal} x {centred, non-centred}, TruncatedGaussian, Pooled, '
        'Heterogeneous; n_dim 1..6, n_cov 1..3, n_ids 1..5; selection = constructor default or a random '
        'non-empty list of in-range [param, dim] pairs of every size, any order, with duplicates, given as '
        'lists / tuples / ndarray, applied through CovariatePopulationModel.set_population_parameters '
        '(optionally followed by set_dim_names / a second selection) and through '
        'LinearCovariateModel.set_population_parameters; random covariate matrices; parameters inside the '
        'support plus a boundary stream (zero beta, zero covariates, non-positive shifted scales, '
        'non-positive observations, wrong lengths, out-of-range / empty selections); REJECTED selections '
        '(a pair out of range / empty) interleaved in the configuration history, the model used afterwards; '
        'per case a whole-number stream: vartheta_0, beta (and observations, eta, upstream sensitivities) '
        'as float64 / int64 / int32 arrays and Python ints with FRACTIONAL covariates, through every entry '
        'point of CovariatePopulationModel and LinearCovariateModel; non-trivial = >=2 '
        'selected pairs or n_dim >= 2; distinct = distinct (kind, n_dim, n_cov, n_selected, route)')
ASSUMPTIONS = [
    'the wrapped population model is one of chi\'s elementary models; its own density / sensitivities '
    'are inputs here (properties C05 / C06): the sensitivity map is checked on the dvartheta the '
    'wrapped model returns',
    'numpy: reshape (C order), fancy indexing with distinct index pairs, matmul, lexsort (any correct '
    'sort: the result is unique for distinct pairs — theorem C07_selection_unique); np.argsort of the '
    'pre-fix code is specified only as "a permutation that sorts"',
    'sampling: Generator.normal(loc, scale) = loc + scale * standard_normal (checked on every run by '
    'exact replay); scipy truncnorm is not modelled (replayed through chi\'s own wrapped model)',
    'parameter values with a negative shifted scale for some but not all individuals are outside the '
    'claimed domain of the individual-parameter equivalence (the non-centred models blank the whole '
    'block): theorem C07_equiv_indiv_partial / C07_indiv_negscale_counterexample']

KINDS = ['Gc', 'Gnc', 'LNc', 'LNnc', 'TG', 'P', 'H']
HIER = {'Gc', 'Gnc', 'LNc', 'LNnc', 'TG'}


def cls_name(kind):
    return {'Gc': 'GaussianModel', 'Gnc': 'GaussianModel', 'LNc': 'LogNormalModel',
            'LNnc': 'LogNormalModel', 'TG': 'TruncatedGaussianModel', 'P': 'PooledModel',
            'H': 'HeterogeneousModel'}[kind]


def make_base(chi, kind, n_dim, n_ids):
    if kind == 'Gc':
        return chi.GaussianModel(n_dim)
    if kind == 'Gnc':
        return chi.GaussianModel(n_dim, centered=False)
    if kind == 'LNc':
        return chi.LogNormalModel(n_dim)
    if kind == 'LNnc':
        return chi.LogNormalModel(n_dim, centered=False)
    if kind == 'TG':
        return chi.TruncatedGaussianModel(n_dim)
    if kind == 'P':
        return chi.PooledModel(n_dim)
    return chi.HeterogeneousModel(n_dim, n_ids=n_ids)


def per_dim(kind, n_ids):
    return {'P': 1, 'H': n_ids}.get(kind, 2)


def norm_sel(sel):
    """the documented convention: distinct pairs, ordered by (param, dim)"""
    return sorted(set((int(p), int(d)) for p, d in sel))


def th_formula(theta0, beta, cov, order):
    """vartheta_i[p,d] = vartheta_0[p,d] + sum_c beta[s,c] chi[i,c] for the s-th pair of `order`"""
    n_ids = len(cov)
    out = np.empty((n_ids,) + theta0.shape)
    for i in range(n_ids):
        out[i] = theta0
        for s, (p, d) in enumerate(order):
            acc = 0.0
            for c in range(cov.shape[1]):
                acc = acc + cov[i, c] * beta[s, c]
            out[i, p, d] = theta0[p, d] + acc
    return out


def decode_names(beta_names, pop_names, cov_names, n_dim):
    """which (param, dim, covariate) does each beta name announce? None if not identifiable"""
    table = {}
    for j, pn in enumerate(pop_names):
        for c, cn in enumerate(cov_names):
            key = pn + ' ' + cn
            if key in table:
                return None
            table[key] = (j // n_dim, j % n_dim, c)
    out = []
    for nm in beta_names:
        if nm not in table:
            return None
        out.append(table[nm])
    return out


def call(f, *a, **k):
    try:
        with np.errstate(all='ignore'):
            return f(*a, **k)
    except Exception as e:  # noqa
        return core.errkind(e)


KNOWN_CAP = 6


def S(ctx, tag, ok, inp, detail=None):
    """ctx.spec, except that a failure under a KNOWN-finding tag is stored at most KNOWN_CAP times:
    core keeps at most 200 failing records per run, and the recorded defects of the unchanged tree must
    not crowd out a new one. Later failures of such a tag are tallied in the evidence, not stored."""
    if not ok:
        known = getattr(ctx, '_c07_known', None)
        if known is None:
            known = ctx._c07_known = {f['tag'] for f in ctx.findings if f.get('status') == 'known'}
            ctx._c07_seen = {}
        if tag in known:
            n = ctx._c07_seen.get(tag, 0) + 1
            ctx._c07_seen[tag] = n
            ctx.extra.setdefault('known_finding_failures', {})[tag] = n
            if n > KNOWN_CAP:
                return False
    return ctx.spec(tag, ok, inp, detail)


def as_input(sel, form):
    if form == 'tuples':
        return [tuple(x) for x in sel]
    if form == 'ndarray':
        return np.array(sel, dtype=int)
    return [list(x) for x in sel]


# ----------------------------------------------------------------------------------------
# generator
# ----------------------------------------------------------------------------------------
def gen_case(rng, force_kind=None, wide=False):
    kind = force_kind or KINDS[int(rng.integers(len(KINDS)))]
    n_dim = int(rng.choice([1, 2, 2, 3, 4, 4, 5, 6]))
    n_cov = int(rng.integers(1, 4))
    n_ids = int(rng.integers(1, 6))
    if wide:        # thorough tier: beyond the sizes the property text names
        n_dim = int(rng.integers(1, 10))
        n_cov = int(rng.integers(1, 6))
        n_ids = int(rng.integers(1, 9))
    pd_ = per_dim(kind, n_ids)
    all_pairs = [(p, d) for p in range(pd_) for d in range(n_dim)]
    route = str(rng.choice(['ctor', 'pop', 'pop', 'pop+dims', 'pop2']))
    ops = []

    def rand_sel():
        k = int(rng.integers(1, len(all_pairs) + 1))
        if rng.random() < 0.25:
            k = len(all_pairs)
        sel = [all_pairs[j] for j in rng.choice(len(all_pairs), size=k, replace=False)]
        ndup = int(rng.integers(0, 3))
        for _ in range(ndup):
            sel.insert(int(rng.integers(len(sel) + 1)), sel[int(rng.integers(len(sel)))])
        return [list(x) for x in sel]
    if route in ('pop', 'pop+dims', 'pop2'):
        ops.append(['P', rand_sel()])
    if route == 'pop+dims':
        ops.append(['D', ['dim%d' % (j + 3) for j in range(n_dim)]])
        if rng.random() < 0.5:
            ops.insert(0, ['D', ['x%d' % j for j in range(n_dim)]])
    if route == 'pop2':
        ops.append(['P', rand_sel()])
    # configuration history around the selection: set_n_ids sequences (for a heterogeneous wrapped model
    # they change the parameter table; n0 = individuals at construction), user-chosen names and their reset
    rh = np.random.default_rng(int(rng.integers(0, 2 ** 31)))
    n0 = n_ids
    pre, post = [], []
    if kind == 'H' and rh.random() < 0.7:
        n0 = int(rh.integers(1, 7))
    if n0 != n_ids or rh.random() < 0.4:
        pre = [['N', int(rh.integers(1, 8))] for _ in range(int(rh.integers(0, 3)))] + [['N', n_ids]]
    if rh.random() < 0.4:
        explicit = [o for o in ops if o[0] == 'P']
        if kind == 'H' and explicit and rh.random() < 0.5:
            top = max(p for p, _ in explicit[-1][1])
            if top >= 1:                      # a row of the selection disappears: must raise, unchanged
                post.append(['N', int(rh.integers(1, top + 1))])
        post += [['N', n_ids + int(rh.integers(1, 4))]] * int(rh.integers(0, 2))
        if kind == 'H' and not explicit and rh.random() < 0.5:
            post.append(['N', int(rh.integers(1, 7))])
        post.append(['N', n_ids])
    if rh.random() < 0.15:
        k_ = int(rh.integers(0, len(ops) + 1))
        ops.insert(k_, ['M'])
        if rh.random() < 0.7:
            ops.insert(int(rh.integers(k_ + 1, len(ops) + 1)), ['R'])
        else:
            post.append(['R'])
    ops = pre + ops + post
    # a REJECTED selection somewhere in the history (a caller's try/except around a user-supplied selection):
    # some pair out of range whatever the number of rows is; the model has to go on as if it had not been made
    if rh.random() < 0.3:
        for _ in range(int(rh.integers(1, 3))):
            bad = rand_sel() if rh.random() < 0.7 else []
            d_ok = int(rh.integers(n_dim))
            wrong = [[50 + int(rh.integers(3)), d_ok], [int(rh.integers(pd_)), n_dim + int(rh.integers(3))],
                     [-1 - int(rh.integers(2)), d_ok], [0, -1 - int(rh.integers(2))]][int(rh.integers(4))]
            bad.insert(int(rh.integers(len(bad) + 1)), wrong)
            if rh.random() < 0.08:
                bad = []
            ops.insert(int(rh.integers(len(ops) + 1)), ['X', bad])
    form = str(rng.choice(['lists', 'tuples', 'ndarray']))
    cov_names = None if rng.random() < 0.5 else ['age', 'wt', 'sex', 'bmi', 'crcl'][:n_cov]
    dim_names = None if rng.random() < 0.6 else ['a', 'b', 'c', 'd', 'e', 'f', 'g', 'h', 'k'][:n_dim]
    sel_final = all_pairs
    for o in ops:
        if o[0] == 'P':
            sel_final = norm_sel(o[1])
    n_sel = len(sel_final)
    dyadic = kind in ('P', 'H')
    boundary = 'inside'
    r = rng.random()
    if dyadic:
        theta0 = rng.integers(-8, 9, size=(pd_, n_dim)) / 4.0
        beta = rng.integers(-4, 5, size=(n_sel, n_cov)) / 4.0
        cov = rng.integers(-4, 5, size=(n_ids, n_cov)) / 2.0
    else:
        theta0 = np.vstack([rng.uniform(0.2, 1.5, n_dim), rng.uniform(0.6, 1.6, n_dim)])
        beta = rng.normal(size=(n_sel, n_cov)) * 0.12
        cov = rng.normal(size=(n_ids, n_cov))
    if r < 0.08:
        beta[:] = 0.0
        boundary = 'beta=0'
    elif r < 0.16:
        cov[:] = 0.0
        boundary = 'cov=0'
    elif r < 0.24 and not dyadic:
        beta = beta * 12.0
        boundary = 'large-beta'
    elif r < 0.28 and not dyadic:
        theta0[1, int(rng.integers(n_dim))] = 0.0
        boundary = 'scale=0'
    eta = rng.normal(size=(n_ids, n_dim))
    if kind in ('LNc', 'TG'):
        obs = rng.uniform(0.2, 3.0, size=(n_ids, n_dim))
        if rng.random() < 0.06:
            obs[int(rng.integers(n_ids)), int(rng.integers(n_dim))] = float(rng.choice([0.0, -0.5]))
            boundary += '+obs<=0'
    else:
        obs = rng.normal(size=(n_ids, n_dim)) + 0.8
    perturb = None
    if dyadic and rng.random() < 0.3:
        perturb = [int(rng.integers(n_ids)), int(rng.integers(n_dim))]
    w = None if rng.random() < 0.35 else rng.normal(size=(n_ids, n_dim))
    eta_form = str(rng.choice(['matrix', 'garbage', 'empty']))
    return {'kind': kind, 'n_dim': n_dim, 'n_cov': n_cov, 'n_ids': n_ids, 'n0': n0, 'ops': ops, 'form': form,
            'eta_form': eta_form,
            'cov_names': cov_names, 'dim_names': dim_names, 'theta0': theta0, 'beta': beta, 'cov': cov,
            'obs': obs, 'eta': eta, 'perturb': perturb, 'w': w, 'boundary': boundary, 'route': route,
            'seed': int(rng.integers(0, 2 ** 31)), 'fd_seed': int(rng.integers(0, 2 ** 31)),
            'cov_rename': bool(rng.random() < 0.2)}


# ----------------------------------------------------------------------------------------
# per-individual evaluation of the WRAPPED chi model (flat parameters: the documented layout)
# ----------------------------------------------------------------------------------------
def score_sum(vals):
    """joint log-density of independent individuals: a zero-density individual makes it -inf
    (Python's `-inf + inf` would be nan; chi's wrapped TruncatedGaussianModel can overflow to +inf)"""
    if any(math.isnan(v) for v in vals):
        return math.nan
    if any(v == -math.inf for v in vals):
        return -math.inf
    return float(sum(vals))


def per_ind_ll(base, kind, th, obs):
    vals = []
    for i in range(len(th)):
        if kind == 'H':
            o = th[i].copy()
            o[i] = obs[i]
            v = base.compute_log_likelihood(th[i].flatten(), o)
        else:
            v = base.compute_log_likelihood(th[i].flatten(), obs[i:i + 1])
        vals.append(float(v))
    return score_sum(vals)


def per_ind_indiv(base, kind, th, eta, return_eta=False):
    rows = []
    for i in range(len(th)):
        if kind == 'H':
            rows.append(np.asarray(base.compute_individual_parameters(
                th[i].flatten(), eta, return_eta=return_eta))[i])
        else:
            rows.append(np.asarray(base.compute_individual_parameters(
                th[i].flatten(), eta[i:i + 1], return_eta=return_eta))[0])
    return np.array(rows, float)


def transpose_map(dth, cov, order, n_dim):
    """(d/d vartheta_i)_i -> (d/d vartheta_0, d/d beta): sums over individuals"""
    dpop = np.sum(dth, axis=0)
    dcov = []
    for (p, d) in order:
        for c in range(cov.shape[1]):
            dcov.append(float(np.sum(cov[:, c] * dth[:, p * n_dim + d])))
    return np.concatenate([dpop, np.array(dcov, float)])


def per_ind_sens(base, kind, th, obs, w, cov, order, n_dim, reduce):
    """the covariate model's sensitivities as the property defines them: the wrapped model
    evaluated per individual with vartheta_i, then the transpose of the linear map"""
    n_ids = len(th)
    scores = []
    dpsi = []
    dth = []
    for i in range(n_ids):
        if kind == 'H':
            o = th[i].copy()
            o[i] = obs[i]
            wi = None
            if w is not None:
                wi = np.zeros_like(o)
                wi[i] = w[i]
        else:
            o = obs[i:i + 1]
            wi = None if w is None else w[i:i + 1]
        if reduce:
            s, red = base.compute_sensitivities(th[i].flatten(), o, dlogp_dpsi=wi, reduce=True)
            red = np.asarray(red, float)
            nb = n_dim if kind in HIER else 0
            dpsi.append(red[:nb])
            dth.append(red[nb:])
        else:
            s, dp, dt = base.compute_sensitivities(th[i].flatten(), o, dlogp_dpsi=wi)
            dp = np.asarray(dp, float)
            dpsi.append(dp[i] if kind == 'H' else dp[0])
            dth.append(np.asarray(dt, float))
        scores.append(float(s))
    dth = np.array(dth, float)
    dtheta = transpose_map(dth, cov, order, n_dim)
    return score_sum(scores), np.array(dpsi, float), dtheta


# ----------------------------------------------------------------------------------------
# one case
# ----------------------------------------------------------------------------------------
def run_case(ctx, chi, case):
    """never lets an exception of the code under test escape: an unexpected raise is a failed
    property check with the input at hand"""
    try:
        _run_case(ctx, chi, case)
    except core.BadOp:
        raise
    except Exception as e:  # noqa
        import traceback
        tb = traceback.extract_tb(e.__traceback__)
        where = [f for f in tb if '/chi/' in f.filename]
        S(ctx, 'C07.unexpected_exception/' + cls_name(case['kind']), False, dict(case),
                 {'exception': repr(e)[:300], 'at': ['%s:%d %s' % (f.filename.split('/')[-1], f.lineno, f.name)
                                                     for f in (where or tb)[-3:]]})


def _run_case(ctx, chi, case):
    kind, n_dim, n_cov, n_ids = case['kind'], case['n_dim'], case['n_cov'], case['n_ids']
    cname = cls_name(kind)
    pd_ = per_dim(kind, n_ids)
    n_pop = pd_ * n_dim
    inp = dict(case)
    n0 = case.get('n0') or n_ids
    base = make_base(chi, kind, n_dim, n_ids)           # reference: the wrapped model as it has to end up
    lcm = chi.LinearCovariateModel(n_cov, cov_names=case['cov_names'])
    cpm = chi.CovariatePopulationModel(make_base(chi, kind, n_dim, n0), lcm, dim_names=case['dim_names'])
    base.set_dim_names(case['dim_names'])
    default_raw = list(make_base(chi, kind, n_dim, n0).get_parameter_names(exclude_dim_names=True))
    raw_base_names = list(base.get_parameter_names(exclude_dim_names=True))
    dim_names = list(base.get_dim_names())

    # ---- configuration history through the population model. The harness tracks what the documented
    # semantics make of it: rows of the wrapped model, the selection (None = the constructor's "all")
    pd_cur = per_dim(kind, n0)
    explicit = None
    custom = False
    model_ops = []
    outcomes = []
    for o in case['ops']:
        if o[0] == 'P':
            arg = as_input(o[1], case['form'])
            out = call(cpm.set_population_parameters, arg)
            out = 'ok' if out is None else out
            in_range = all(0 <= p < pd_cur and 0 <= d < n_dim for p, d in o[1])
            S(ctx, 'C07.set_population_parameters', (out == 'ok') == in_range, inp,
              {'raised': out, 'indices': o[1], 'rows': pd_cur})
            mo = ctx.model('C07.select', pd_cur, n_dim, [list(x) for x in o[1]])
            ctx.agree('C07.select.outcome', out, mo[0], inp)
            if out != 'ok':
                return
            explicit = norm_sel(o[1])
            model_ops.append(o)
            outcomes.append('ok')
        elif o[0] == 'X':
            before = (cpm.n_parameters(), list(cpm.get_parameter_names()),
                      list(cpm.get_parameter_names(exclude_dim_names=True)))
            out = call(cpm.set_population_parameters, as_input(o[1], case['form']))
            out = 'ok' if out is None else out
            S(ctx, 'C07.set_population_parameters', out != 'ok', inp,
              {'raised': out, 'indices': o[1], 'rows': pd_cur, 'expected': 'rejected'})
            if case['form'] != 'ndarray' or o[1]:
                mo = ctx.model('C07.select', pd_cur, n_dim, [list(x) for x in o[1]])
                ctx.agree('C07.select.outcome', out, mo[0], inp)
            after = (cpm.n_parameters(), list(cpm.get_parameter_names()),
                     list(cpm.get_parameter_names(exclude_dim_names=True)))
            S(ctx, 'C07.set_population_parameters/unchanged_after_raise', before == after, inp,
              {'rejected_indices': o[1], 'raised': out, 'n_parameters_before': before[0],
               'n_parameters_after': after[0], 'names_before': before[1], 'names_after': after[1]})
            if out == 'ok':
                return
        elif o[0] == 'D':
            cpm.set_dim_names(o[1])
            base.set_dim_names(o[1])
            dim_names = list(o[1])
            model_ops.append(o)
            outcomes.append('ok')
        elif o[0] == 'N':
            n = int(o[1])
            changes = kind == 'H' and n != pd_cur
            expect = 'ok'
            if changes and explicit is not None and max(p for p, _ in explicit) >= n:
                expect = 'err:valueError'
            before = (cpm.n_parameters(), list(cpm.get_parameter_names()))
            out = call(cpm.set_n_ids, n)
            out = 'ok' if out is None else out
            S(ctx, 'C07.set_n_ids/outcome', out == expect, inp, {'set_n_ids': n, 'raised': out, 'expected': expect,
                                                                 'rows': pd_cur, 'selection': explicit})
            if out != 'ok':
                after = (cpm.n_parameters(), list(cpm.get_parameter_names()))
                S(ctx, 'C07.set_n_ids/unchanged_after_raise' + ('/user_names' if custom else ''),
                  before == after, inp, {'set_n_ids': n, 'names_before': before[1], 'names_after': after[1]})
            elif changes:
                pd_cur = n
                custom = False
            model_ops.append(['N', n])
            outcomes.append(out)
        elif o[0] == 'M':
            n_now = cpm.n_parameters()
            npop_now = pd_cur * n_dim
            pop_c = ['q%d' % j for j in range(npop_now)]
            beta_c = ['b%d' % j for j in range(n_now - npop_now)]
            out = call(cpm.set_parameter_names, pop_c + beta_c)
            S(ctx, 'C07.set_parameter_names', out is None, inp, {'raised': out})
            custom = True
            model_ops.append(['M', pop_c, beta_c])
            outcomes.append('ok')
        else:   # 'R'
            out = call(cpm.set_parameter_names, None)
            S(ctx, 'C07.set_parameter_names', out is None, inp, {'raised': out, 'reset': True})
            custom = False
            model_ops.append(['R', default_raw])
            outcomes.append('ok')
    if pd_cur != pd_ or custom:
        return      # (generated histories end with the case's own n_ids and with default names)
    sel = explicit if explicit is not None else [(p, d) for p in range(pd_) for d in range(n_dim)]
    if case.get('cov_rename'):
        cpm.set_covariate_names(['z%d' % (j + 7) for j in range(n_cov)])
    cov_names = list(cpm.get_covariate_names())
    n_sel = len(sel)
    nontriv = n_sel >= 2 or n_dim >= 2
    ctx.case('%s/d%d/c%d/%s/%s' % (kind, n_dim, n_cov, case['route'], case['boundary']),
             nontrivial=('%s/d%d/c%d/s%d/%s' % (kind, n_dim, n_cov, n_sel, case['route'])) if nontriv else False,
             sample={k: inp[k] for k in ('kind', 'n_dim', 'n_cov', 'n_ids', 'ops', 'form')})

    # ---- names, counts
    names = list(cpm.get_parameter_names())
    names_x = list(cpm.get_parameter_names(exclude_dim_names=True))
    mo = ctx.model('C07.names', per_dim(kind, n0), n_dim, n_cov, default_raw, case['dim_names'] or
                   ['Dim. %d' % (j + 1) for j in range(n_dim)], cov_names, model_ops, False, kind == 'H')
    ctx.agree('C07.history.outcomes', outcomes, mo[4], inp)
    # the same configuration reached directly: a fresh model
    fresh = chi.CovariatePopulationModel(make_base(chi, kind, n_dim, n_ids),
                                         chi.LinearCovariateModel(n_cov, cov_names=cov_names), dim_names=dim_names)
    if explicit is not None:
        fresh.set_population_parameters([o for o in case['ops'] if o[0] == 'P'][-1][1])
    # (as sets: the internal order of the selection is not part of the statement; that every name sits on
    #  the beta it announces is checked below, for the model with the history)
    S(ctx, 'C07.history_vs_fresh/' + cname, sorted(names) == sorted(fresh.get_parameter_names())
      and sorted(names_x) == sorted(fresh.get_parameter_names(exclude_dim_names=True))
      and cpm.n_parameters() == fresh.n_parameters(), inp,
      {'names': names, 'fresh': list(fresh.get_parameter_names()), 'n_parameters': cpm.n_parameters(),
       'fresh_n_parameters': fresh.n_parameters()})
    pop_names = list(base.get_parameter_names())
    S(ctx, 'C07.n_parameters', cpm.n_parameters() == n_pop + n_sel * n_cov == len(names), inp,
             {'n_parameters': cpm.n_parameters(), 'names': len(names)})
    ctx.agree('C07.n_parameters', cpm.n_parameters(), mo[2], inp)
    S(ctx, 'C07.pop_names_first', names[:n_pop] == pop_names and
             names_x[:n_pop] == raw_base_names, inp)
    decoded = decode_names(names[n_pop:], pop_names, cov_names, n_dim)
    expect = [(p, d, c) for (p, d) in sel for c in range(n_cov)]
    S(ctx, 'C07.names_identify', decoded is not None and sorted(decoded) == sorted(expect)
             and len(set(decoded)) == len(decoded), inp, {'decoded': decoded, 'names': names[n_pop:]})
    if decoded is None or len(decoded) != n_sel * n_cov:
        return
    # canonical pairing (name -> (p, d, c)), independent of the internal order
    chi_pairing = sorted([list(t) + [nm] for t, nm in zip(decoded, names[n_pop:])])
    m_dec = decode_names(mo[0][n_pop:], mo[0][:n_pop], cov_names, n_dim)
    m_pairing = sorted([list(t) + [nm] for t, nm in zip(m_dec, mo[0][n_pop:])]) if m_dec else None
    ctx.agree('C07.names.pairing', chi_pairing, m_pairing, inp)
    ctx.agree('C07.names.exclude_dim', sorted(names_x), sorted(mo[1]), inp)
    ctx.agree('C07.select.set', sorted(set((p, d) for p, d, _ in decoded)), [tuple(x) for x in mo[3]], inp)
    # the order in which chi lays out beta, as its names announce it (layout s * n_cov + c)
    layout_ok = all(decoded[s * n_cov + c][2] == c and decoded[s * n_cov + c][:2] == decoded[s * n_cov][:2]
                    for s in range(n_sel) for c in range(n_cov))
    S(ctx, 'C07.names_layout', layout_ok, inp, {'decoded': decoded})
    if not layout_ok:
        return
    order = [decoded[s * n_cov][:2] for s in range(n_sel)]

    # ---- numbers
    theta0 = np.array(case['theta0'], float).reshape(pd_, n_dim)
    beta = np.array(case['beta'], float).reshape(n_sel, n_cov)
    cov = np.array(case['cov'], float).reshape(n_ids, n_cov)
    eta = np.array(case['eta'], float).reshape(n_ids, n_dim)
    obs = np.array(case['obs'], float).reshape(n_ids, n_dim)
    w = None if case['w'] is None else np.array(case['w'], float).reshape(n_ids, n_dim)
    params = np.concatenate([theta0.flatten(), beta.flatten()])
    th = th_formula(theta0, beta, cov, order)        # by the names chi publishes
    if kind in ('Gnc', 'LNnc'):
        obs = eta           # the non-centred models are scored on eta
    if kind == 'P':
        obs = th[:, 0, :].copy()
    if kind == 'H':
        obs = np.array([th[i, i, :] for i in range(n_ids)])
    if case['perturb'] is not None and kind in ('P', 'H'):
        obs[case['perturb'][0], case['perturb'][1]] += 0.25
    scales_ok = kind in ('P', 'H') or bool(np.all(th[:, 1, :] >= 0))
    scales_pos = kind in ('P', 'H') or bool(np.all(th[:, 1, :] > 0))
    # far lower tail of the truncated Gaussian: 1 - Phi(-mu/sigma) cancels catastrophically in chi (and in
    # the model's series): values are compared loosely there and finite differences are not formed
    tg_tail = kind == 'TG' and scales_pos and bool(np.min(th[:, 0, :] / th[:, 1, :]) < -3.0)
    sel_l = [list(x) for x in order]
    covl = [list(r) for r in cov]
    me = ctx.model('C07.eval', kind, n_ids, n_dim, pd_, n_cov, sel_l, list(params), covl,
                   [list(r) for r in obs], [list(r) for r in eta])

    # transform: the stand-alone covariate model (its own getter tells the stored order)
    lcm2 = chi.LinearCovariateModel(n_cov)
    raw = case['ops'] and [o for o in case['ops'] if o[0] == 'P']
    raw_sel = raw[-1][1] if raw else [list(x) for x in sel]
    out = call(lcm2.set_population_parameters, as_input(raw_sel, case['form']))
    S(ctx, 'C07.set_population_parameters/LinearCovariateModel', out is None, inp, {'raised': out})
    if out is not None:
        return
    pidx, didx = lcm2.get_set_population_parameters()
    stored = list(zip([int(x) for x in pidx], [int(x) for x in didx]))
    ml = ctx.model('C07.linselect', [list(x) for x in raw_sel])
    ctx.agree('C07.linselect.set', sorted(stored), sorted(tuple(x) for x in ml[0]), inp)
    S(ctx, 'C07.selection_distinct', len(set(stored)) == len(stored) and set(stored) == set(sel), inp,
             {'stored': stored})
    ctx.agree('C07.lin.n_parameters', lcm2.n_parameters(), n_sel * n_cov, inp)
    # beta positions follow lcm2's own stored order
    perm = [order.index(pd) for pd in stored] if set(stored) == set(order) else None
    if perm is not None:
        beta_l = beta[perm]
        th_l = call(lcm2.compute_population_parameters, beta_l.flatten(), theta0, cov)
        th_l2 = call(lcm2.compute_population_parameters, beta_l, theta0, cov)
        S(ctx, 'C07.transform', not isinstance(th_l, str) and core.close(th_l, th) and core.close(th_l2, th),
                 inp, {'chi': th_l, 'formula': th})
        ctx.agree('C07.transform', np.asarray(th_l, float).flatten() if not isinstance(th_l, str) else th_l,
                  me[0], inp)
        # which entry does beta_k move, in proportion to which covariate?
        k = int(np.random.default_rng(case['fd_seed']).integers(n_sel * n_cov))
        s_, c_ = divmod(k, n_cov)
        b2 = beta_l.copy()
        b2[s_, c_] += 0.5
        d_th = np.asarray(lcm2.compute_population_parameters(b2.flatten(), theta0, cov)) - np.asarray(th_l)
        exp = np.zeros_like(d_th)
        exp[:, stored[s_][0], stored[s_][1]] = 0.5 * cov[:, c_]
        S(ctx, 'C07.beta_acts_on', core.close(d_th, exp, atol=1e-12), inp,
                 {'k': k, 'moved': d_th, 'expected': exp})
        # sensitivities of the stand-alone covariate model on a random upstream gradient
        g = np.random.default_rng(case['fd_seed']).normal(size=th.shape)
        out = call(lcm2.compute_sensitivities, beta_l.flatten(), theta0, cov, g)
        exp_dpop = np.sum(g, axis=0).flatten()
        exp_dcov = np.array([np.sum(g[:, p, d] * cov[:, c]) for (p, d) in stored for c in range(n_cov)])
        ok = not isinstance(out, str) and core.close(out[0], exp_dpop) and core.close(out[1], exp_dcov)
        S(ctx, 'C07.grad/LinearCovariateModel', ok, inp, {'chi': out})
        ms = ctx.model('C07.sens', kind, n_ids, n_dim, pd_, n_cov, [list(x) for x in stored], covl,
                       list(g.flatten()), [[0.0] * n_dim] * n_ids)
        if not isinstance(out, str):
            ctx.agree('C07.lin.sens', np.concatenate([out[0], out[1]]), ms[0], inp)
            ctx.agree('C07.lin.sens.by_position', np.concatenate([out[0], out[1]]), ms[5], inp)

    # ---- likelihood
    ll = call(cpm.compute_log_likelihood, params, obs, cov)
    ll = ll if isinstance(ll, str) else float(ll)
    tg_atol = core.tg_cancellation_atol(th[:, 0, :], th[:, 1, :]) if (kind == 'TG' and scales_pos) else 0.0
    if tg_atol < 1e-2:
        ctx.agree('C07.ll', ll, me[1], inp, rtol=1e-3 if tg_tail else 1e-9, atol=tg_atol)
    else:
        ctx.branches.add('ll:TG:normalisation-below-float-resolution')
    ctx.branches.add('ll:%s:%s' % (kind, ll if isinstance(ll, str) else core.fclass(ll)))
    spec_ll = call(per_ind_ll, base, kind, th, obs)
    S(ctx, 'C07.equiv_ll/' + cname, core.close(ll, spec_ll), inp, {'chi': ll, 'per_individual': spec_ll})
    # ---- individual parameters
    psi = call(cpm.compute_individual_parameters, params, eta, cov)
    psi_l = psi if isinstance(psi, str) else np.asarray(psi, float)
    ctx.agree('C07.indiv', psi_l, me[3], inp)
    if scales_ok:
        spec_psi = call(per_ind_indiv, base, kind, th, eta)
        S(ctx, 'C07.equiv_indiv/' + cname, core.close(psi_l, spec_psi), inp,
                 {'chi': psi_l, 'per_individual': spec_psi})
    elif not isinstance(psi_l, str) and kind in ('Gnc', 'LNnc'):
        bad_rows = np.any(th[:, 1, :] < 0, axis=1)
        S(ctx, 'C07.equiv_indiv/negscale_rows_nan', bool(np.all(np.isnan(psi_l[bad_rows]))), inp)
    if kind in HIER:
        cpm.set_n_ids(n_ids)
        flat = call(cpm.compute_individual_parameters, params, eta.flatten(), cov)
        S(ctx, 'C07.set_n_ids', core.close(flat if isinstance(flat, str) else np.asarray(flat, float), psi_l),
                 inp, {'flat_eta': flat})
    # return_eta=True — the call HierarchicalLogLikelihood / ComposedPopulationModel make first. Models
    # with individual-level entries hand eta back; pooled / heterogeneous models ignore the flag AND the
    # eta they are given (a dummy block or nothing): their answer is vartheta_i
    eta_in = eta
    if kind in ('P', 'H'):
        eta_in = {'matrix': eta, 'garbage': np.full((n_ids, n_dim), 99.0),
                  'empty': np.zeros((0,))}[case.get('eta_form', 'matrix')]
    psi_e = call(cpm.compute_individual_parameters, params, eta_in, cov, return_eta=True)
    psi_e = psi_e if isinstance(psi_e, str) else np.asarray(psi_e, float)
    ctx.agree('C07.indiv.return_eta', psi_e, me[4], inp)
    spec_e = call(per_ind_indiv, base, kind, th, eta, True)
    S(ctx, 'C07.equiv_indiv_return_eta/' + cname, core.close(psi_e, spec_e), inp,
      {'chi': psi_e, 'per_individual': spec_e, 'eta_given': case.get('eta_form', 'matrix')})
    if kind in ('P', 'H'):
        psi_d = call(cpm.compute_individual_parameters, params, eta_in, cov)
        S(ctx, 'C07.equiv_indiv/' + cname, core.close(psi_d if isinstance(psi_d, str) else
                                                      np.asarray(psi_d, float), psi_l), inp,
          {'eta_given': case.get('eta_form', 'matrix'), 'chi': psi_d})
    elif kind in HIER:
        flat_e = call(cpm.compute_individual_parameters, params, eta.flatten(), cov, return_eta=True)
        S(ctx, 'C07.equiv_indiv_return_eta/' + cname,
          core.close(flat_e if isinstance(flat_e, str) else np.asarray(flat_e, float), eta), inp,
          {'flat_eta': flat_e})
    # ---- zero beta / zero covariates: the wrapped model itself
    if case['boundary'].startswith(('beta=0', 'cov=0')):
        b_ll = call(base.compute_log_likelihood, theta0.flatten(), obs)
        tag = ('C07.equiv_ll/' if kind == 'H' else 'C07.zero/') + cname
        S(ctx, tag, core.close(ll, b_ll if isinstance(b_ll, str) else float(b_ll)), inp,
                 {'chi': ll, 'wrapped': b_ll})
        if kind == 'H':
            b_psi = call(base.compute_individual_parameters, theta0.flatten(), eta)
        else:
            base.set_n_ids(n_ids)
            b_psi = call(base.compute_individual_parameters, theta0.flatten(), eta)
        S(ctx, 'C07.zero/' + cname, core.close(psi_l, b_psi if isinstance(b_psi, str) else
                                                 np.asarray(b_psi, float)), inp,
                 {'chi': psi_l, 'wrapped': b_psi})

    # ---- sensitivities, every return form
    finite = (not isinstance(ll, str)) and math.isfinite(ll)
    for reduce in (False, True):
        out = call(cpm.compute_sensitivities, params, obs, cov, dlogp_dpsi=None if w is None else w.copy(),
                   reduce=reduce)
        if isinstance(out, str):
            S(ctx, 'C07.grad/' + cname, False, inp, {'raised': out, 'reduce': reduce})
            continue
        spec = call(per_ind_sens, base, kind, th, obs, w, cov, order, n_dim, reduce)
        # (the score returned with the sensitivities vs the plain likelihood is C03's business: the
        #  non-centred models answer -inf here but a finite value there for a negative scale)
        S(ctx, ('C07.equiv_ll/' if kind == 'H' else 'C07.grad_score/') + cname, not isinstance(spec, str) and core.close(float(out[0]), spec[0]),
                 inp, {'score': out[0], 'per_individual': spec if isinstance(spec, str) else spec[0]})
        if not finite or not scales_pos or not math.isfinite(float(out[0])):
            continue
        if isinstance(spec, str) or not math.isfinite(spec[0]):
            continue        # the score mismatch is already recorded; the gradients are undefined there
        # correspondence: the wrapped model's dvartheta on the tensor, through the model's map
        s_b, dpsi_b, g = base.compute_sensitivities(th, obs, dlogp_dpsi=None if w is None else w.copy(),
                                                     flattened=False)
        g = np.broadcast_to(np.asarray(g, float), th.shape)
        ms = ctx.model('C07.sens', kind, n_ids, n_dim, pd_, n_cov, sel_l, covl, list(g.flatten()),
                       [list(r) for r in np.asarray(dpsi_b, float)])
        nh = cpm.n_hierarchical_parameters(n_ids)
        ctx.agree('C07.n_hierarchical_parameters', [int(nh[0]), int(nh[1])], [ms[3], ms[4]], inp)
        if not reduce:
            ctx.agree('C07.sens.dtheta', np.asarray(out[2], float), ms[0], inp)
            ctx.agree('C07.sens.dpsi', np.asarray(out[1], float), np.asarray(dpsi_b, float), inp)
            ok = (not isinstance(spec, str) and len(out[2]) == cpm.n_parameters()
                  and core.close(np.asarray(out[2], float), spec[2], rtol=1e-8, atol=1e-10)
                  and core.close(np.asarray(out[1], float), spec[1], rtol=1e-8, atol=1e-10))
            S(ctx, 'C07.grad/' + cname, ok, inp, {'reduce': False, 'chi': out[2], 'per_individual': spec})
        else:
            red = np.asarray(out[1], float)
            ctx.agree('C07.sens.reduced', red, ms[1], inp, rtol=1e-8, atol=1e-10)
            exp = None if isinstance(spec, str) else np.concatenate([spec[1].flatten(), spec[2]])
            ok = exp is not None and len(red) == nh[0] + nh[1] and core.close(red, exp, rtol=1e-8, atol=1e-10)
            S(ctx, 'C07.grad/' + cname, ok, inp,
                     {'reduce': True, 'len': len(red), 'announced': [int(nh[0]), int(nh[1])], 'chi': red,
                      'per_individual': exp})
            if exp is not None:
                ctx.agree('C07.sens.reduced.spec', exp, ms[1], inp, rtol=1e-8, atol=1e-10)
            # finite differences of chi's own functions: F = log-likelihood + <w, psi>
            # (finite differences are meaningless next to a vanishing scale)
            if not tg_tail and (kind in ('P', 'H') or float(np.min(th[:, 1, :])) > 0.05):
                fd_check(ctx, cpm, kind, cname, params, obs, eta, cov, w, red, n_ids, n_dim, inp,
                         case['fd_seed'])

    # ---- the covariate model as a sub-model of a ComposedPopulationModel (where chi uses it)
    if finite and scales_pos and not tg_tail and case['fd_seed'] % 3 == 0:
        composed_check(ctx, chi, cpm, kind, cname, params, obs, cov, w, n_ids, n_dim, inp, th, eta)

    # ---- sampling: exact replay of the primitive stream
    sample_check(ctx, chi, cpm, base, kind, cname, params, th, cov, n_ids, n_dim, pd_, n_cov, sel_l, covl,
                 case['seed'], inp, scales_pos)

    # ---- whole-number parameters handed over as ints, with fractional covariates
    number_types_check(ctx, chi, cpm, base, lcm2 if perm is not None else None, kind, cname, order, stored,
                       n_ids, n_dim, n_cov, pd_, sel_l, inp, case)


def _forms(x, shape=None):
    """the same whole numbers as a float64 array, an int64 array, an int32 array, Python ints"""
    xf = np.asarray(x, float)
    out = [('float64_array', xf.copy()), ('int64_array', xf.astype(np.int64)),
           ('int32_array', xf.astype(np.int32))]
    if xf.ndim == 1:
        out.append(('python_int_list', [int(v) for v in xf]))
    return out


def number_types_check(ctx, chi, cpm, base, lcm2, kind, cname, order, stored, n_ids, n_dim, n_cov, pd_, sel_l,
                       inp, case):
    """vartheta_0 and beta hold WHOLE numbers and arrive as Python ints / integer arrays (chi's own examples:
    `parameters = [3, 2, 4, 2, ...]`), the covariates are fractional: vartheta_i = vartheta_0 + sum_c beta_c chi_ic
    is fractional and is what every entry point has to use. Reference: the formula and the wrapped model
    evaluated per individual (never the float call of the same method). Whole-number observations, eta and
    upstream sensitivities go through the same forms. All values are derived from the case's fd_seed."""
    rng = np.random.default_rng([int(case['fd_seed']), 716])
    n_sel = len(order)
    dyadic = kind in ('P', 'H')
    fr = np.array([0.125, 0.25, 0.375, 0.5, 0.625, 0.75, 0.875])
    if dyadic:
        theta0 = rng.integers(-4, 5, size=(pd_, n_dim)).astype(float)
        beta = rng.integers(-2, 3, size=(n_sel, n_cov)).astype(float)
        cov = (2 * rng.integers(-4, 4, size=(n_ids, n_cov)) + 1) / 4.0
    else:
        theta0 = np.vstack([rng.integers(1, 4, n_dim), rng.integers(1, 4, n_dim)]).astype(float)
        beta = np.array([[float(rng.integers(0, 2)) if p == 1 else float(rng.integers(-1, 3))
                          for _ in range(n_cov)] for (p, d) in order]).reshape(n_sel, n_cov)
        cov = rng.choice(fr, size=(n_ids, n_cov))
    if not np.any(beta != 0):
        beta[int(rng.integers(n_sel)), int(rng.integers(n_cov))] = 1.0
    eta = rng.integers(-2, 3, size=(n_ids, n_dim)).astype(float)
    w = None if rng.random() < 0.3 else rng.integers(-2, 3, size=(n_ids, n_dim)).astype(float)
    seed = int(rng.integers(0, 2 ** 31))
    params = np.concatenate([theta0.flatten(), beta.flatten()])
    th = th_formula(theta0, beta, cov, order)
    obs_whole = True
    if kind in ('Gnc', 'LNnc'):
        obs = eta
    elif kind == 'P':
        obs, obs_whole = th[:, 0, :].copy(), False
    elif kind == 'H':
        obs, obs_whole = np.array([th[i, i, :] for i in range(n_ids)]), False
    elif kind == 'Gc':
        obs = rng.integers(-1, 5, size=(n_ids, n_dim)).astype(float)
    else:
        obs = rng.integers(1, 5, size=(n_ids, n_dim)).astype(float)
    winp = dict(inp, whole_numbers={'parameters': params, 'covariates': cov, 'observations': obs, 'eta': eta,
                                    'dlogp_dpsi': w, 'beta_order': [list(x) for x in order]})
    T = 'C07.number_types/'

    # -- the stand-alone covariate model: beta and vartheta_0 are separate arguments
    if lcm2 is not None and set(stored) == set(order):
        beta_l = beta[[order.index(pd) for pd in stored]]
        g = rng.integers(-3, 4, size=th.shape).astype(float)
        exp_dpop = np.sum(g, axis=0).flatten()
        exp_dcov = np.array([np.sum(g[:, p, d] * cov[:, c]) for (p, d) in stored for c in range(n_cov)])
        for bn, bv in _forms(beta_l.flatten()) + [(n_ + '/matrix', v_) for n_, v_ in _forms(beta_l)[:2]]:
            for tn, tv in _forms(theta0):
                out = call(lcm2.compute_population_parameters, bv, tv, cov)
                S(ctx, T + 'transform', not isinstance(out, str) and core.close(np.asarray(out, float), th),
                  winp, {'parameters_as': bn, 'pop_parameters_as': tn, 'chi': out, 'formula': th})
        for gn, gv in _forms(g)[:2]:
            for bn, bv in _forms(beta_l.flatten())[:2]:
                out = call(lcm2.compute_sensitivities, bv, theta0.astype(np.int64) if bn != 'float64_array'
                           else theta0, cov, gv)
                ok = (not isinstance(out, str) and core.close(np.asarray(out[0], float), exp_dpop)
                      and core.close(np.asarray(out[1], float), exp_dcov))
                S(ctx, T + 'grad/LinearCovariateModel', ok, winp,
                  {'parameters_as': bn, 'dlogp_dvartheta_as': gn, 'chi': out, 'expected': [exp_dpop, exp_dcov]})

    # -- the population model: references from the wrapped model, one individual at a time
    ref_ll = call(per_ind_ll, base, kind, th, obs)
    ref_psi = call(per_ind_indiv, base, kind, th, eta)
    ref_sens = {r: call(per_ind_sens, base, kind, th, obs, w, cov, order, n_dim, r) for r in (False, True)}

    def replay_sample():
        g_ = np.random.default_rng(seed)
        return np.array([np.asarray(base.sample(th[i], n_samples=1, seed=g_))[0] for i in range(n_ids)], float)
    ref_smp = call(replay_sample)
    if kind != 'TG' and not isinstance(ref_ll, str):
        me = ctx.model('C07.eval', kind, n_ids, n_dim, pd_, n_cov, sel_l, list(params), [list(r) for r in cov],
                       [list(r) for r in obs], [list(r) for r in eta])
    else:
        me = None
    o_forms = _forms(obs)[:2] if obs_whole else [('float64_array', obs)]
    e_forms = _forms(eta)[:2]
    w_forms = [('none', None)] if w is None else _forms(w)[:2]
    combos = [(pf, 0) for pf in range(4)] + [(1, 1), (0, 1), (3, 1)]
    p_forms = _forms(params)
    for pf, of in combos:
        pn, pv = p_forms[pf]
        on, ov = o_forms[min(of, len(o_forms) - 1)]
        en, ev = e_forms[of]
        wn, wv = w_forms[min(of, len(w_forms) - 1)]
        how = {'parameters_as': pn, 'observations_as': on, 'eta_as': en, 'dlogp_dpsi_as': wn}
        ll = call(cpm.compute_log_likelihood, pv, ov, cov)
        ll = ll if isinstance(ll, str) else float(ll)
        S(ctx, T + 'equiv_ll/' + cname, core.close(ll, ref_ll), winp, dict(how, chi=ll, per_individual=ref_ll))
        if me is not None and of == 0:
            ctx.agree('C07.number_types.ll', ll, me[1], winp)
        psi = call(cpm.compute_individual_parameters, pv, ev, cov)
        psi = psi if isinstance(psi, str) else np.asarray(psi, float)
        S(ctx, T + 'equiv_indiv/' + cname, core.close(psi, ref_psi), winp,
          dict(how, chi=psi, per_individual=ref_psi))
        if me is not None and of == 0:
            ctx.agree('C07.number_types.indiv', psi, me[3], winp)
        for reduce in (False, True):
            out = call(cpm.compute_sensitivities, pv, ov, cov, dlogp_dpsi=None if wv is None else wv.copy(),
                       reduce=reduce)
            spec = ref_sens[reduce]
            if isinstance(out, str) or isinstance(spec, str):
                ok = False
            elif not math.isfinite(spec[0]):
                ok = core.close(float(out[0]), spec[0])
            elif reduce:
                ok = core.close(float(out[0]), spec[0]) and core.close(
                    np.asarray(out[1], float), np.concatenate([spec[1].flatten(), spec[2]]), rtol=1e-8, atol=1e-10)
            else:
                ok = (core.close(float(out[0]), spec[0])
                      and core.close(np.asarray(out[1], float), spec[1], rtol=1e-8, atol=1e-10)
                      and core.close(np.asarray(out[2], float), spec[2], rtol=1e-8, atol=1e-10))
            S(ctx, T + 'grad/' + cname, ok, winp, dict(how, reduce=reduce, chi=out, per_individual=spec))
        smp = call(cpm.sample, pv, cov, n_samples=n_ids, seed=seed)
        smp = smp if isinstance(smp, str) else np.asarray(smp, float)
        S(ctx, T + 'equiv_sample/' + cname, core.close(smp, ref_smp), winp,
          dict(how, chi=smp, per_row=ref_smp))
    ctx.case('number-types/%s' % kind)


def composed_check(ctx, chi, cpm, kind, cname, params, obs, cov, w, n_ids, n_dim, inp, th, eta):
    """[covariate model, GaussianModel(1)] composed: value and reduced gradient are those of the parts,
    laid out as n_hierarchical_parameters announces (the call site of DESIGN Appendix A #3)"""
    g1 = chi.GaussianModel(1)
    cm = chi.ComposedPopulationModel([cpm, g1])
    cm.set_n_ids(n_ids)
    gpar = np.array([0.3, 1.1])
    gobs = np.linspace(-0.5, 0.9, n_ids).reshape(n_ids, 1)
    wg = np.linspace(0.2, -0.4, n_ids).reshape(n_ids, 1)
    full_p = np.concatenate([params, gpar])
    full_o = np.hstack([obs, gobs])
    full_w = None if w is None else np.hstack([w, wg])
    # individual parameters through the composed model, both settings of return_eta (dummy entries in the
    # columns of a pooled / heterogeneous sub-model, as HierarchicalLogLikelihood hands them over)
    eta_full = np.hstack([np.full((n_ids, n_dim), -7.0) if kind in ('P', 'H') else eta,
                          np.linspace(0.1, 0.6, n_ids).reshape(n_ids, 1)])
    if kind == 'P':
        own = th[:, 0, :]
    elif kind == 'H':
        own = np.array([th[i, i, :] for i in range(n_ids)])
    elif kind == 'Gnc':
        own = th[:, 0, :] + th[:, 1, :] * eta
    elif kind == 'LNnc':
        own = np.exp(th[:, 0, :] + th[:, 1, :] * eta)
    else:
        own = eta
    for flag in (False, True):
        got = call(cm.compute_individual_parameters, full_p, eta_full, covariates=cov, return_eta=flag)
        first = own if (not flag or kind in ('P', 'H')) else eta
        exp_psi = np.hstack([first, eta_full[:, n_dim:]])
        S(ctx, 'C07.composed/' + cname, core.close(got if isinstance(got, str) else np.asarray(got, float),
                                                    exp_psi), inp,
          {'compute_individual_parameters': got, 'return_eta': flag, 'expected': exp_psi})
    ll = call(cm.compute_log_likelihood, full_p, full_o, covariates=cov)
    part = call(lambda: float(cpm.compute_log_likelihood(params, obs, cov))
                + float(g1.compute_log_likelihood(gpar, gobs)))
    S(ctx, 'C07.composed/' + cname, core.close(ll if isinstance(ll, str) else float(ll), part), inp,
      {'composed': ll, 'parts': part})
    out = call(cm.compute_sensitivities, full_p, full_o, dlogp_dpsi=None if full_w is None else full_w.copy(),
               reduce=True, covariates=cov)
    if isinstance(out, str):
        S(ctx, 'C07.composed/' + cname, False, inp, {'reduce': True, 'raised': out})
        return
    r1 = cpm.compute_sensitivities(params, obs, cov, dlogp_dpsi=None if w is None else w.copy(), reduce=True)[1]
    r2 = g1.compute_sensitivities(gpar, gobs, dlogp_dpsi=None if w is None else wg.copy(), reduce=True)[1]
    r1 = np.asarray(r1, float)
    r2 = np.asarray(r2, float)
    nb1 = n_ids * n_dim if kind in HIER else 0
    b1 = r1[:nb1].reshape(n_ids, -1) if nb1 else np.zeros((n_ids, 0))
    bottom = np.hstack([b1, r2[:n_ids].reshape(n_ids, 1)]).flatten()
    exp = np.concatenate([bottom, r1[nb1:], r2[n_ids:]])
    nh = cm.n_hierarchical_parameters(n_ids)
    red = np.asarray(out[1], float)
    S(ctx, 'C07.composed/' + cname, len(red) == nh[0] + nh[1] and core.close(red, exp, rtol=1e-8, atol=1e-10),
      inp, {'reduce': True, 'len': len(red), 'announced': [int(nh[0]), int(nh[1])], 'composed': red,
            'parts': exp})


def fd_check(ctx, cpm, kind, cname, params, obs, eta, cov, w, red, n_ids, n_dim, inp, fd_seed):
    """the reduced gradient against Richardson differences of chi's own value functions"""
    hier = kind in HIER
    centred = kind in ('Gc', 'LNc', 'TG')
    nb = n_ids * n_dim if hier else 0
    if len(red) != nb + len(params):
        return          # wrong length is already reported by the per-individual check
    bottom = (obs if centred else eta).flatten() if hier else np.zeros(0)
    ww = np.zeros((n_ids, n_dim)) if w is None else w

    def F(x):
        b, p = x[:nb], x[nb:]
        with np.errstate(all='ignore'):
            if hier:
                bm = b.reshape(n_ids, n_dim)
                psi = np.asarray(cpm.compute_individual_parameters(p, bm, cov), float)
                return float(cpm.compute_log_likelihood(p, bm, cov)) + float(np.sum(ww * psi))
            psi = np.asarray(cpm.compute_individual_parameters(p, eta, cov), float)
            return float(cpm.compute_log_likelihood(p, psi, cov)) + float(np.sum(ww * psi))
    x0 = np.concatenate([bottom, params])
    ks = np.random.default_rng(fd_seed).permutation(len(x0))[:10 if ctx.tier == 'quick' else 24]
    for k in ks:
        ok, est = oracle.grad_matches(F, x0, int(k), float(red[k]), rtol=1e-4, atol=1e-5)
        S(ctx, 'C07.grad_fd/' + cname, ok, inp, {'k': int(k), 'analytic': float(red[k]), 'fd': est})


def sample_check(ctx, chi, cpm, base, kind, cname, params, th, cov, n_ids, n_dim, pd_, n_cov, sel_l, covl,
                 seed, inp, scales_pos):
    n_s = n_ids
    out = call(cpm.sample, params, cov, n_samples=n_s, seed=seed)
    # spec: the wrapped model sampled row by row with vartheta_i from ONE generator

    def replay():
        g = np.random.default_rng(seed)
        return np.array([np.asarray(base.sample(th[i], n_samples=1, seed=g))[0] for i in range(n_s)], float)
    spec = call(replay)
    a = out if isinstance(out, str) else np.asarray(out, float)
    S(ctx, 'C07.equiv_sample/' + cname, core.close(a, spec), inp, {'chi': a, 'per_row': spec})
    if not isinstance(a, str):
        S(ctx, 'C07.sample_shape', a.shape == (n_s, n_dim), inp, {'shape': a.shape})
    # generator passed as seed; a single covariate row is broadcast
    out2 = call(cpm.sample, params, cov, n_samples=n_s, seed=np.random.default_rng(seed))
    S(ctx, 'C07.equiv_sample/generator', core.close(out2 if isinstance(out2, str) else np.asarray(out2, float), a),
             inp)
    if kind != 'H' or pd_ == 1:
        one = call(cpm.sample, params, cov[0], n_samples=None, seed=seed)
        g = np.random.default_rng(seed)
        sp1 = call(lambda: np.asarray(base.sample(th[0], n_samples=1, seed=g), float))
        S(ctx, 'C07.equiv_sample/single', core.close(one if isinstance(one, str) else np.asarray(one, float), sp1),
                 inp, {'chi': one, 'per_row': sp1})
    # one covariate row, several samples: the row is broadcast, the stream is still shared
    if n_s >= 2:
        outb = call(cpm.sample, params, cov[0], n_samples=n_s, seed=seed)

        def replay_b():
            g = np.random.default_rng(seed)
            return np.array([np.asarray(base.sample(th[0], n_samples=1, seed=g))[0] for _ in range(n_s)], float)
        spb = call(replay_b)
        S(ctx, 'C07.equiv_sample/broadcast', core.close(outb if isinstance(outb, str) else
                                                         np.asarray(outb, float), spb), inp,
          {'chi': outb, 'per_row': spb})
    # correspondence: the model's transformation of the primitive draws
    if kind == 'TG':
        return
    g = np.random.default_rng(seed)
    z = np.zeros((n_s, n_dim))
    pick = [0] * n_s
    if kind in ('Gc', 'Gnc', 'LNc', 'LNnc'):
        z = g.standard_normal((n_s, n_dim))
    elif kind == 'H':
        pick = [int(g.integers(0, pd_)) for _ in range(n_s)]
    ms = ctx.model('C07.sample', kind, n_s, n_dim, pd_, n_cov, sel_l, list(params), covl,
                   [list(r) for r in z], pick)
    ctx.agree('C07.sample', a, ms[0], inp)


# ----------------------------------------------------------------------------------------
# fixed streams
# ----------------------------------------------------------------------------------------
def malformed(ctx, chi):
    cases = [(2, 3, []), (2, 3, [[2, 0]]), (2, 3, [[0, 3]]), (2, 3, [[-1, 0]]), (2, 3, [[0, -1]]),
             (2, 3, [[0, 0], [1, 5]]), (2, 1, [[1, 0], [1, 0]]), (2, 3, [[1, 2], [0, 0], [1, 2], [0, 1]])]
    for pd_, n_dim, ix in cases:
        cpm = chi.CovariatePopulationModel(chi.GaussianModel(n_dim), chi.LinearCovariateModel(2))
        out = call(cpm.set_population_parameters, ix)
        out = 'ok' if out is None else out
        mo = ctx.model('C07.select', pd_, n_dim, ix)
        ctx.agree('C07.select.outcome', out, mo[0], {'indices': ix, 'n_dim': n_dim})
        ctx.errkinds.add(out)
        in_range = len(ix) > 0 and all(0 <= p < pd_ and 0 <= d < n_dim for p, d in ix)
        S(ctx, 'C07.set_population_parameters', (out == 'ok') == in_range, {'indices': ix, 'n_dim': n_dim},
                 {'raised': out})
        ctx.case('malformed-selection')
    # wrong parameter-vector lengths
    cpm = chi.CovariatePopulationModel(chi.GaussianModel(2), chi.LinearCovariateModel(2))
    out = call(cpm.set_population_parameters, [[0, 0], [1, 1]])
    if out is not None:
        S(ctx, 'C07.set_population_parameters', False, {'indices': [[0, 0], [1, 1]]}, {'raised': out})
        return
    n = cpm.n_parameters()
    cov = [[0.5, 1.0], [1.5, -1.0]]
    obs = [[1.0, 2.0], [0.5, 1.5]]
    for m in (n - 1, n + 1, n):
        x = [1.0] * m
        out = call(cpm.compute_log_likelihood, np.array(x), np.array(obs), np.array(cov))
        me = ctx.model('C07.eval', 'Gc', 2, 2, 2, 2, [[0, 0], [1, 1]], x, cov, obs, obs)
        ctx.agree('C07.length', out if isinstance(out, str) else 'ok', me[0] if isinstance(me[0], str) else 'ok',
                  {'len': m})
        ctx.case('parameter-length')


def argsort_record(ctx):
    """what this machine's default np.argsort does on ties (evidence only), replayed through the
    pre-fix ordering of the model"""
    rec = {}
    for n_dim in (2, 3, 4, 5, 6, 8):
        ix = np.array([[p, d] for d in range(n_dim) for p in range(2)])
        p1 = np.argsort(ix[:, 1])
        mid = ix[p1]
        p2 = np.argsort(mid[:, 0])
        legacy = mid[p2].tolist()
        mo = ctx.model('C07.legacy', ix.tolist(), [int(x) for x in p1], [int(x) for x in p2])
        ctx.agree('C07.legacy.argsort_qualifies', [True, True], [mo[0], mo[1]], {'n_dim': n_dim})
        ctx.agree('C07.legacy.order', legacy, mo[2], {'n_dim': n_dim})
        rec['n_dim=%d' % n_dim] = {'legacy_double_argsort': legacy, 'misordered': legacy != mo[3],
                                   'array_in_list': mo[4]}
        ctx.case('argsort-record')
    ctx.extra['argsort_tie_order_observed'] = rec


CORPUS = [
    # witnesses of C07_setpop_counterexample / C07_unstable_counterexample / C07_callerorder_counterexample
    {'kind': 'Gc', 'n_dim': 2, 'n_cov': 1, 'ops': [['P', [[0, 0], [1, 1]]]], 'form': 'lists'},
    {'kind': 'Gc', 'n_dim': 2, 'n_cov': 2, 'ops': [['P', [[1, 0], [0, 0]]]], 'form': 'ndarray'},
    {'kind': 'Gc', 'n_dim': 4, 'n_cov': 1, 'ops': [], 'form': 'lists'},
    {'kind': 'LNc', 'n_dim': 6, 'n_cov': 3, 'ops': [], 'form': 'lists'},
    {'kind': 'Gnc', 'n_dim': 4, 'n_cov': 2, 'ops': [['P', [[0, 3], [0, 2], [1, 1], [0, 3]]]], 'form': 'tuples'},
    # C07_hetero_ll_counterexample / C07_grad_pooled_counterexample
    {'kind': 'H', 'n_dim': 1, 'n_cov': 1, 'n_ids': 2, 'ops': [], 'form': 'lists'},
    {'kind': 'P', 'n_dim': 2, 'n_cov': 2, 'n_ids': 3, 'ops': [], 'form': 'lists'},
    {'kind': 'H', 'n_dim': 2, 'n_cov': 1, 'n_ids': 1, 'ops': [], 'form': 'lists'},
    {'kind': 'TG', 'n_dim': 3, 'n_cov': 2, 'ops': [['P', [[1, 2], [0, 0]]]], 'form': 'lists'},
]


def corpus_case(ctx, spec, k):
    rng = ctx.sub_rng(10 ** 6 + k)
    for _ in range(200):
        c = gen_case(rng, force_kind=spec['kind'])
        if c['boundary'] == 'inside':
            break
    n_ids = spec.get('n_ids', c['n_ids'])
    kind, n_dim, n_cov = spec['kind'], spec['n_dim'], spec['n_cov']
    pd_ = per_dim(kind, n_ids)
    sel = [(p, d) for p in range(pd_) for d in range(n_dim)]
    for o in spec['ops']:
        if o[0] == 'P':
            sel = norm_sel(o[1])
    dy = kind in ('P', 'H')
    c.update({'n_dim': n_dim, 'n_cov': n_cov, 'n_ids': n_ids, 'ops': spec['ops'], 'form': spec['form'],
              'route': 'corpus', 'cov_names': None, 'dim_names': None, 'perturb': None,
              'theta0': (rng.integers(-8, 9, size=(pd_, n_dim)) / 4.0) if dy else
              np.vstack([rng.uniform(0.2, 1.5, n_dim), rng.uniform(0.6, 1.6, n_dim)]),
              'beta': (rng.integers(-4, 5, size=(len(sel), n_cov)) / 4.0) if dy else
              rng.normal(size=(len(sel), n_cov)) * 0.12,
              'cov': (rng.integers(-4, 5, size=(n_ids, n_cov)) / 2.0) if dy else rng.normal(size=(n_ids, n_cov)),
              'eta': rng.normal(size=(n_ids, n_dim)),
              'obs': rng.uniform(0.2, 3.0, size=(n_ids, n_dim)),
              'w': rng.normal(size=(n_ids, n_dim))})
    return c


def run(ctx):
    chi = core.import_chi()
    ctx.guard(argsort_record, ctx)
    ctx.guard(malformed, ctx, chi)
    for k, spec in enumerate(CORPUS):
        ctx.guard(run_case, ctx, chi, corpus_case(ctx, spec, k))
    ctx.guard(hetero_set_n_ids, ctx, chi)
    ctx.guard(set_n_ids_raise_witness, ctx, chi)
    n = 700 if ctx.tier == 'quick' else 24000
    for i in range(n):
        rng = ctx.sub_rng(i)
        wide = ctx.tier != 'quick' and i % 4 == 3
        ctx.guard(run_case, ctx, chi, gen_case(rng, wide=wide))


def hetero_set_n_ids(ctx, chi):
    """a heterogeneous model wrapped first and sized afterwards (what a hierarchical likelihood does)"""
    for n0, n_dim, n_cov, n_ids in ((1, 1, 1, 2), (1, 2, 1, 3), (2, 2, 2, 2), (3, 1, 2, 2), (1, 3, 2, 4)):
        inp = {'kind': 'H', 'n_ids_at_construction': n0, 'n_dim': n_dim, 'n_cov': n_cov, 'n_ids': n_ids,
               'history': 'wrap, then set_n_ids'}
        mo = ctx.model('C07.setnids', n0, n_dim, n_cov, n_ids)
        try:
            cpm = chi.CovariatePopulationModel(chi.HeterogeneousModel(n_dim, n_ids=n0),
                                               chi.LinearCovariateModel(n_cov))
            cpm.set_n_ids(n_ids)
            ref = chi.CovariatePopulationModel(chi.HeterogeneousModel(n_dim, n_ids=n_ids),
                                               chi.LinearCovariateModel(n_cov))
            n = cpm.n_parameters()
            names = cpm.get_parameter_names()
            x = np.arange(n, dtype=float) / 4.0
            cov = np.ones((n_ids, n_cov))
            out = call(cpm.compute_individual_parameters, x, np.zeros((n_ids, n_dim)), cov)
            obs = [n, len(names), not isinstance(out, str)]
            as_is = [mo[0], mo[1], mo[2]]
            ctx.agree('C07.setnids', obs, as_is, inp)
            ok = (n == ref.n_parameters() and len(names) == n and not isinstance(out, str))
            detail = {'n_parameters': n, 'n_names': len(names), 'expected': ref.n_parameters(), 'evaluate': out}
        except Exception as e:  # noqa
            ok, detail = False, {'raised': repr(e)[:200]}
        S(ctx, 'C07.set_n_ids/HeterogeneousModel', ok, inp, detail)
        ctx.case('hetero-set_n_ids')


def set_n_ids_raise_witness(ctx, chi):
    """witness of C07_set_n_ids_raise_counterexample: a raising set_n_ids and user-chosen names"""
    inp = {'kind': 'H', 'n_dim': 1, 'n_cov': 1, 'n_ids_at_construction': 2,
           'history': ['set_population_parameters([[1, 0]])', "set_parameter_names(['mine1', 'mine2', 'b'])",
                       'set_n_ids(1)']}
    cpm = chi.CovariatePopulationModel(chi.HeterogeneousModel(1, n_ids=2), chi.LinearCovariateModel(1))
    cpm.set_population_parameters([[1, 0]])
    cpm.set_parameter_names(['mine1', 'mine2', 'b'])
    before = (cpm.n_parameters(), list(cpm.get_parameter_names()))
    out = call(cpm.set_n_ids, 1)
    S(ctx, 'C07.set_n_ids/outcome', out == 'err:valueError', inp, {'raised': out})
    after = (cpm.n_parameters(), list(cpm.get_parameter_names()))
    S(ctx, 'C07.set_n_ids/unchanged_after_raise/user_names', before == after, inp,
      {'names_before': before[1], 'names_after': after[1]})
    ctx.case('set_n_ids-raise-witness')


def replay(ctx, data):
    chi = core.import_chi()
    inp = data['failing']['input']
    if 'theta0' not in inp:
        print('replay of a fixed-stream case: re-running the fixed streams')
        malformed(ctx, chi)
        hetero_set_n_ids(ctx, chi)
    else:
        run_case(ctx, chi, inp)
    known = {f['tag'] for f in ctx.findings if f.get('status') == 'known'}
    bad = [b for b in ctx.spec_bad if b['tag'] not in known]
    print('property checks failing on replay:', [(b['tag'], str(b['detail'])[:400]) for b in bad[:3]])
    print('known findings reproduced on replay:', sorted({b['tag'] for b in ctx.spec_bad if b['tag'] in known}))
    print('model/code disagreements on replay:', [str(b)[:300] for b in ctx.corr_bad[:2]])
    if ctx.lean is not None:
        ctx.lean.close()
    return 1 if bad else 0
