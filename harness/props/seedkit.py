"""Shared by C16 and C15: configurations -> real chi objects and -> wire form of the Lean model's
`Entry`; the model's consumption trace replayed with real numpy generators; canonical forms."""
import copy

import numpy as np
import pandas as pd
import pints
import xarray as xr
from scipy.stats import truncnorm

import core
import toy

KINDS = ['G', 'M', 'CM', 'LN']
ELEMS = ['gaussian', 'logNormal', 'pooled', 'hetero', 'truncGauss']


def em_class(chi, k):
    return {'G': chi.GaussianErrorModel, 'M': chi.MultiplicativeGaussianErrorModel,
            'CM': chi.ConstantAndMultiplicativeGaussianErrorModel, 'LN': chi.LogNormalErrorModel}[k]


def em_nparams(k):
    return 2 if k == 'CM' else 1


def em_transform(k, sig, ybar, z):
    """the error model's sampler as a function of its primitive standard-normal variates"""
    if k == 'G':
        return ybar + sig[0] * z[0]
    if k == 'M':
        return ybar + ybar * (sig[0] * z[0])
    if k == 'CM':
        return ybar + sig[0] * z[0] + ybar * (sig[1] * z[1])
    if k == 'LN':
        return ybar * np.exp(-sig[0] ** 2 / 2 + sig[0] * z[0])
    raise ValueError(k)


class FlatToy(toy.ToyModel):
    """every output is the same function of psi and constant in time: two entries of a sample array
    coincide exactly iff they were computed from the same parameters and the same noise variates"""

    def __init__(self, n_outputs=1, n_parameters=2, seed=0):
        super().__init__(n_outputs, n_parameters, seed)
        self._b[:] = self._b[0]
        self._c[:] = self._c[0]
        self._r[:] = 0.0


class DosedToy(toy.ToyModel):
    """ToyModel with the dosing interface PredictiveModel.get_dosing_regimen reads"""

    def __init__(self, n_outputs=1, n_parameters=2, seed=0):
        super().__init__(n_outputs, n_parameters, seed)
        self._regimen = None

    def supports_dosing(self):
        return True

    def set_dosing_regimen(self, dose, start=0, duration=0.01, period=None, num=None):
        import myokit
        if num is None:
            num = 0
        if period is None:
            period = 0
            num = 0
        self._regimen = myokit.pacing.blocktrain(
            period=period, duration=duration, offset=start, level=dose / duration, limit=num)

    def dosing_regimen(self):
        return self._regimen


# ----------------------------------------------------------------------------------------
# population models
# ----------------------------------------------------------------------------------------
def build_sub(chi, sub, n_ids, n_cov):
    """sub = dict(elem, nDim, cov, centered, reduced)"""
    e, d = sub['elem'], sub['nDim']
    if e == 'gaussian':
        m = chi.GaussianModel(n_dim=d, centered=sub.get('centered', True))
    elif e == 'logNormal':
        m = chi.LogNormalModel(n_dim=d, centered=sub.get('centered', True))
    elif e == 'pooled':
        m = chi.PooledModel(n_dim=d)
    elif e == 'hetero':
        m = chi.HeterogeneousModel(n_dim=d)
        m.set_n_ids(n_ids)
    elif e == 'truncGauss':
        m = chi.TruncatedGaussianModel(n_dim=d)
    else:
        raise ValueError(e)
    if sub.get('cov'):
        m = chi.CovariatePopulationModel(m, chi.LinearCovariateModel(n_cov=n_cov))
    return m


def sub_nparams(sub, n_ids, n_cov):
    e, d = sub['elem'], sub['nDim']
    n = {'gaussian': 2 * d, 'logNormal': 2 * d, 'pooled': d, 'hetero': n_ids * d, 'truncGauss': 2 * d}[e]
    if sub.get('cov'):
        n += n * n_cov
    return n


def sub_params(rng, sub, n_ids, n_cov, positive=False):
    """parameter vector of one sub-model; covariate coefficients are zero (the covariate map is C07's
    subject; here only the consumption of random numbers matters)"""
    e, d = sub['elem'], sub['nDim']
    if e == 'gaussian':
        p = list(rng.uniform(0.6, 1.4, d)) + list(rng.uniform(0.05, 0.3, d))
    elif e == 'logNormal':
        p = list(rng.uniform(-0.3, 0.3, d)) + list(rng.uniform(0.05, 0.3, d))
    elif e == 'pooled':
        p = list(rng.uniform(0.3, 1.2, d))
    elif e == 'hetero':
        p = list(rng.uniform(0.3, 1.2, n_ids * d))
    else:
        p = list(rng.uniform(0.6, 1.4, d)) + list(rng.uniform(0.1, 0.4, d))
    if sub.get('cov'):
        p = p + [0.0] * (len(p) * n_cov)
    return [float(x) for x in p]


def build_pop(chi, pop):
    """pop = dict(subs=[...], composed=bool, n_ids, n_cov, reduced=bool)"""
    subs = [build_sub(chi, s, pop['n_ids'], pop['n_cov']) for s in pop['subs']]
    if pop['composed']:
        m = chi.ComposedPopulationModel(subs)
    else:
        m = subs[0]
    return m


def pop_wire(pop):
    subs = [[s['elem'], int(s['nDim']), bool(s.get('cov', False))] for s in pop['subs']]
    if pop['composed']:
        return ['composed', subs]
    return ['single', subs[0]]


def pop_ndim(pop):
    return sum(s['nDim'] for s in pop['subs'])


def pop_has_cov(pop):
    return any(s.get('cov') for s in pop['subs'])


def pop_ncov_total(pop):
    return sum(pop['n_cov'] for s in pop['subs'] if s.get('cov'))


def spec_wire(spec):
    if spec['type'] == 'indiv':
        return ['indiv', list(spec['kinds'])]
    return ['pop', pop_wire(spec['pop']), list(spec['kinds'])]


# ----------------------------------------------------------------------------------------
# the Lean model
# ----------------------------------------------------------------------------------------
def skey(st):
    """hashable form of a wire stream"""
    return tuple(skey(x) if isinstance(x, list) else x for x in st)


def seed_wire(seed):
    """seed = None | int | ('gen', k, pre) : a Generator made by default_rng(k) after `pre` calls"""
    if seed is None or isinstance(seed, (int, np.integer)):
        return None if seed is None else int(seed)
    return ['gen', ['S', int(seed[1])], int(seed[2])]


def world_wire(world):
    """world = ('LS', k, pre): np.random.seed(k) followed by `pre` calls of random_sample"""
    return [['LS', int(world[1])], int(world[2]), 0]


class ModelRun:
    def __init__(self, reply):
        cells, calls, alloc, err, seed_after, glob_after = reply
        self.cells = [{'unit': c[0], 'out': c[1], 'time': c[2],
                       'par': [(skey(r[0]), r[1], r[2]) for r in c[3]],
                       'noise': [(skey(r[0]), r[1], r[2]) for r in c[4]]} for c in cells]
        self.calls = [{'stream': c[0], 'idx': c[1], 'kind': c[2], 'size': c[3]} for c in calls]
        self.alloc = [(skey(r[0]), r[1], r[2]) for r in alloc]
        self.err = err
        self.seed_after = seed_after
        self.glob_after = glob_after

    def by_label(self):
        return {(c['unit'], c['out'], c['time']): c for c in self.cells}


def model_run_wire(ctx, variant, entry, seed_w, world_w):
    """variant = (sharedSeed, globalChoice[, integer PriorPredictiveModel drew from a Generator seed | None])"""
    if len(variant) > 2:
        pg = None if variant[2] is None else int(variant[2])
        rep = ctx.model('C16.run', bool(variant[0]), bool(variant[1]), pg, entry, seed_w, world_w)
    else:
        rep = ctx.model('C16.run', bool(variant[0]), bool(variant[1]), entry, seed_w, world_w)
    return ModelRun(rep)


def model_run(ctx, variant, entry, seed, world):
    return model_run_wire(ctx, variant, entry, seed_wire(seed), world_wire(world))


# ----------------------------------------------------------------------------------------
# worlds and seeds on the numpy side
# ----------------------------------------------------------------------------------------
def set_world(world):
    np.random.seed(int(world[1]))
    for _ in range(int(world[2])):
        np.random.random_sample(3)


def make_seed(seed):
    if seed is None or isinstance(seed, (int, np.integer)):
        return seed
    g = np.random.default_rng(int(seed[1]))
    for _ in range(int(seed[2])):
        g.standard_normal(2)
    return g


def legacy_state_equal(a, b):
    return a[0] == b[0] and np.array_equal(a[1], b[1]) and a[2:] == b[2:]


class Replay:
    """runs the model's call trace on real numpy generators: gives the variate behind every read of
    a replayable stream and the state every generator object is left in"""

    def __init__(self, world, seed, bounds, prior=None):
        self.gens = {}
        self.vals = {}
        self.bounds = bounds
        self.prior = prior
        self.unknown = set()
        rs = np.random.RandomState(int(world[1]))
        for _ in range(int(world[2])):
            rs.random_sample(3)
        self.gens[skey(['LS', int(world[1])])] = rs
        self._init_glob = (skey(['LS', int(world[1])]), int(world[2]))
        if seed is not None and not isinstance(seed, (int, np.integer)):
            self.gens[skey(['S', int(seed[1])])] = make_seed(seed)
            self._seed_key = (skey(['S', int(seed[1])]), int(seed[2]))
        else:
            self._seed_key = None

    def _gen(self, st, idx):
        key = skey(st)
        keep = (key, idx) in (self._init_glob, self._seed_key)
        if key in self.gens and (idx > 0 or keep):
            return self.gens[key]
        tag = st[0]
        if tag == 'S':
            g = np.random.default_rng(int(st[1]))
        elif tag == 'LS':
            g = np.random.RandomState(int(st[1]))
        elif tag == 'LD':
            v = self.vals.get((skey(st[1]), st[2]))
            g = None if v is None else np.random.RandomState(int(np.asarray(v).ravel()[0]))
        else:
            g = None
        self.gens[key] = g
        return g

    def run(self, calls):
        for c in calls:
            g = self._gen(c['stream'], c['idx'])
            key = (skey(c['stream']), c['idx'])
            if g is None:
                self.unknown.add(key)
                self.vals[key] = None
                continue
            k, n = c['kind'], c['size']
            if k == 'normal':
                v = g.standard_normal(n)
            elif k == 'choice' and 'pam_p' in self.bounds and c is calls[0]:
                # intended PAM allocation: a weighted choice on the seeded generator
                v = g.choice(len(self.bounds['pam_p']), p=self.bounds['pam_p'], size=n)
            elif k == 'choice':
                v = g.integers(0, self.bounds.get('ids', 1), size=n)
            elif k == 'choiceRow':
                v = np.array([g.integers(0, self.bounds['rows'])])
            elif k == 'seedInt':
                v = np.array([g.integers(low=0, high=1E6)])
            elif k == 'legacyUniform':
                v = g.uniform(size=n)
            elif k == 'legacyChoice':
                v = g.random_sample(n)
            elif k == 'prior':
                keep = np.random.get_state()
                np.random.set_state(g.get_state())
                v = np.asarray(self.prior.sample(n))
                g.set_state(np.random.get_state())
                np.random.set_state(keep)
            else:
                raise ValueError(k)
            old = self.vals.get(key)
            if old is None or len(np.asarray(v).reshape(len(v), -1)) >= len(old):
                self.vals[key] = np.asarray(v)
        return self

    def value(self, read):
        v = self.vals.get((read[0], read[1]))
        if v is None:
            return None
        return v[read[2]]

    def state_of(self, st):
        g = self.gens.get(skey(st))
        if g is None:
            return None
        if isinstance(g, np.random.Generator):
            return g.bit_generator.state
        return g.get_state()


def gen_state_equal(a, b):
    return a == b


class ArgBox:
    """the argument arrays of a case as a numerical caller holds them: float64 ndarrays that are handed to chi
    as they are, reused for every further call of the case, and compared with their original contents after
    every call (a sampler that writes into its arguments changes what the next call means)"""

    def __init__(self, **named):
        self.arr = {k: (None if v is None else np.array(v, float)) for k, v in named.items()}
        self.orig = {k: (None if v is None else v.copy()) for k, v in self.arr.items()}

    def __getitem__(self, k):
        return self.arr[k]

    def changed(self):
        out = []
        for k, v in self.arr.items():
            if v is None:
                continue
            o = self.orig[k]
            if v.shape != o.shape or not np.array_equal(v, o, equal_nan=True):
                out.append(k)
        return out

    def check(self, ctx, tag, inp):
        ch = self.changed()
        ctx.spec(tag, not ch, inp, {'arguments_changed_by_the_call': ch,
                                    'now': {k: self.arr[k] for k in ch}, 'before': {k: self.orig[k] for k in ch}})
        for k in ch:                       # go on with the original values
            self.arr[k] = self.orig[k].copy()
        return not ch


def raised_in_chi(exc):
    """did the exception pass through chi's own source (then it is chi's behaviour, not a harness fault)?"""
    import traceback
    src = core.CHI_SRC.rstrip('/') + '/chi/'
    return any(fr.filename.startswith(src) for fr in traceback.extract_tb(exc.__traceback__))


def guarded(ctx, tag, inp, fn):
    """run one generated case; an exception raised inside chi is a failed property check with the case as
    failing input, anything else is an infrastructure failure"""
    try:
        fn()
    except core.BadOp:
        raise
    except Exception as e:  # noqa
        if not raised_in_chi(e):
            raise
        ctx.spec(tag, False, inp, {'raised': repr(e)[:300]})


# ----------------------------------------------------------------------------------------
# canonical forms
# ----------------------------------------------------------------------------------------
def array_entries(arr):
    """(n_outputs, n_times, n_samples) -> {(unit, out, time): value}"""
    arr = np.asarray(arr, float)
    return {(s, o, t): float(arr[o, t, s]) for o in range(arr.shape[0]) for t in range(arr.shape[1])
            for s in range(arr.shape[2])}


def table_entries(df, outputs, times_sorted):
    """long table -> {(unit, out, time index): value}; raises if a label is missing / duplicated"""
    out = {}
    meas = df[df['Observable'].isin(outputs)]
    tindex = {}
    for j, t in enumerate(times_sorted):
        tindex.setdefault(float(t), []).append(j)
    seen = {}
    for _id, t, ob, v in zip(meas['ID'], meas['Time'], meas['Observable'], meas['Value']):
        o = outputs.index(ob)
        key0 = (int(_id) - 1, o, float(t))
        k = seen.get(key0, 0)
        seen[key0] = k + 1
        out[(int(_id) - 1, o, tindex[float(t)][k])] = float(v)
    return out


def partition(entries):
    """groups of labels with exactly equal values (size >= 2 only), canonical"""
    groups = {}
    for lab, v in entries.items():
        groups.setdefault(v, []).append(lab)
    return sorted(sorted(g) for g in groups.values() if len(g) > 1)


def read_partition(cells):
    groups = {}
    for c in cells:
        if not c['noise'] and not c['par']:
            continue
        groups.setdefault((tuple(c['par']), tuple(c['noise'])), []).append((c['unit'], c['out'], c['time']))
    return sorted(sorted(g) for g in groups.values() if len(g) > 1)


def entries_equal(a, b):
    if a.keys() != b.keys():
        return False
    for k in a:
        x, y = a[k], b[k]
        if x != y and not (x != x and y != y):
            return False
    return True


def make_posterior(names, n_chains, n_draws, ids, values, pop_level=(), pad=0, order=None):
    """xarray posterior; values(p, c, d, i) -> float; `pop_level` names have no individual dimension;
    the last `pad` draws are NaN (chains of unequal length are padded like this by chi)"""
    data = {}
    for p, nm in enumerate(names):
        if nm in pop_level or ids is None:
            v = np.array([[values(p, c, d, 0) for d in range(n_draws)] for c in range(n_chains)], float)
            if pad:
                v[:, n_draws - pad:] = np.nan
            da = xr.DataArray(v, dims=['chain', 'draw'],
                              coords={'chain': list(range(n_chains)), 'draw': list(range(n_draws))})
            if order is not None and order.get(nm):
                da = da.transpose('draw', 'chain')
        else:
            v = np.array([[[values(p, c, d, i) for i in range(len(ids))] for d in range(n_draws)]
                          for c in range(n_chains)], float)
            if pad:
                v[:, n_draws - pad:, :] = np.nan
            da = xr.DataArray(v, dims=['chain', 'draw', 'individual'],
                              coords={'chain': list(range(n_chains)), 'draw': list(range(n_draws)),
                                      'individual': list(ids)})
            if order is not None and order.get(nm):
                da = da.transpose('draw', 'individual', 'chain')
        data[nm] = da
    return xr.Dataset(data)
