"""C06 — samplers draw from the distribution their log-likelihood scores

Correspondence is EXACT, not statistical: for a seed s the harness draws the primitive streams
itself (the requests the Lean model's plan lists, in that order, on np.random.default_rng(s)),
feeds them with the parameters to the model's transformation and compares with chi's
sample(seed=s) entry by entry.  This pins the transformation and the consumption order.

The property itself on chi (`ctx.spec`) is checked at the level of distributions (fixed large n,
thresholds with false-alarm probability < 1e-9 per check): supporting evidence / failing-input
search only; the claim is the Lean theorems about the transformation of ideal primitives.
"""
import math
import numpy as np
from scipy import stats
from scipy.stats import truncnorm

import core

REQUIRED_THEOREMS = [
    'C06_gaussian_law', 'C06_gaussian_scored', 'C06_multiplicative_law', 'C06_multiplicative_scored',
    'C06_lognormal_law', 'C06_lognormal_log_law', 'C06_lognormal_scored',
    'C06_constmult_law', 'C06_constmult_scored_law', 'C06_constmult_counterexample',
    'C06_constmult_law_partial', 'C06_em_positions', 'C06_em_independent', 'C06_em_entry_law',
    'C06_cm_entry_law', 'C06_cm_pairwise_independent', 'C06_em_shape', 'C06_reduced_fill',
    'C06_elem_entry', 'C06_pop_gaussian_law', 'C06_pop_lognormal_law', 'C06_pop_noncentred_law',
    'C06_indiv_transform', 'C06_pop_gaussian_scored', 'C06_pop_noncentred_scored',
    'C06_pop_lognormal_scored', 'C06_truncGauss_scored', 'C06_pooled_scored', 'C06_pooled_law',
    'C06_hetero_law', 'C06_truncGauss_law', 'C06_truncGauss_request', 'C06_truncGauss_density',
    'C06_truncGauss_support_counterexample', 'C06_composed_entry', 'C06_plan_length',
    'C06_composed_plan_block', 'C06_composed_requests_disjoint', 'C06_entry_reads_own_requests',
    'C06_covariate_row', 'C06_composed_independent', 'C06_pop_block_law', 'C06_covariate_row_law',
    'C06_composed_blocks_independent', 'C06_composed_joint_law', 'C06_composed_columns_cover',
    'C06_hetero_transform', 'C06_hetero_transform_counterexample', 'C06_hetero_transform_partial',
    'C06_hetero_transform_legacy_counterexample', 'C06_sample_joint_scored',
    'C06_lognormal_moments', 'C06_truncGauss_moments', 'C06_entry_dim_local',
    'C06_truncGauss_support_all_dims', 'C06_truncGauss_block_law', 'C06_truncGauss_untruncated_counterexample',
    'C06_composed_delta_support', 'C06_composed_pooled_support', 'C06_composed_hetero_support',
    'C06_composed_delta_part_zero', 'C06_composed_sampled_pooled_scored', 'C06_composed_sampled_hetero_row',
    'C06_composed_skip_counterexample', 'C06_fillMask_overwrite', 'C06_reduced_history_free',
    'C06_reduced_history_buffer_fixed', 'C06_reduced_stale_counterexample']
RULE = ('exact replay: (a) the four error models and ReducedErrorModel, n_times 1..6, n_samples None/1..5, '
        'int seed and Generator seed (two consecutive calls on one Generator); (b) elementary population '
        'models (Gaussian / LogNormal centred and not, TruncatedGaussian, Pooled, Heterogeneous) n_dim 1..3, '
        '(flat and (p_per_dim, n_dim) parameter layout), CovariatePopulationModel around each, '
        'ComposedPopulationModel of 1..4 of them (several covariate sub-models with different covariates), '
        'negative / zero scales and wrong parameter counts as modelled error paths, '
        'ReducedPopulationModel; compute_individual_parameters of the sampled eta; get_mean_and_std; '
        'every third population case (and the 2- / 3-dimensional distribution checks) with the dimensions '
        'of one model in DIFFERENT scale regimes (location/scale of order 1, 2..9, 10..40; scales of 0.2 '
        'and of 60 side by side; truncation active in one dimension and irrelevant in another). '
        'The scored density OFF the sampled rows (elementary, covariate, composed, reduced-composed models, '
        'also the compositions of the distribution checks): the sampled rows with the heterogeneous columns '
        'set to the modelled individuals (n_ids rows), one entry of a pooled / heterogeneous column moved or '
        'two heterogeneous individuals swapped, a pooled / heterogeneous parameter (free or fixed) moved, one '
        'entry of a Gaussian / log-normal / truncated part moved inside and outside its support — chi\'s '
        'log-likelihood against the documented product density and against the Lean model (C06.pop.score). '
        'ABSOLUTE scale regimes as a regular class for every kind (error models, every elementary population '
        'model, bare / covariate-wrapped / composed / reduced): noise or spread <= 1e-3 and >= 1e3 in absolute '
        'units, a whole dimension in tiny / huge units, next to dimensions on the ordinary scale — the model\'s '
        'own samples scored by its own log-likelihood against the documented density (finite). '
        'Call HISTORIES on one ReducedPopulationModel with fixed parameters around a model with a transform of '
        'its own (non-centred, bare / covariate / composed): transform, score and sampler at free parameters '
        'that differ from those of the preceding calls (sample, score, sensitivities, transform, a second '
        'fix_parameters, or no call at all) against the documented formulas at the CURRENT parameters. '
        'non-trivial = n_times>=2 and n_samples>=2 (error models), n_dim>=2 or >=2 sub-models or a '
        'covariate model (population models); distinct = distinct (class, sizes, seed kind)')
ASSUMPTIONS = [
    'the Lean model is purely functional: that a sampler leaves the caller\'s arrays untouched is checked on '
    'chi only (C06.arguments_unchanged, and every reference value is computed from pristine copies while chi '
    'receives the same arrays call after call)',
    'primitive samplers are ideal: Generator.standard_normal draws are i.i.d. N(0,1), distinct positions '
    'of one stream are independent, Generator.integers(0,n) is uniform, truncnorm.rvs(a,inf) in standard '
    'units is a standard normal conditioned on [a,inf)',
    'replay identities of numpy/scipy (normal = loc + scale*standard_normal bit for bit, lognormal = '
    'exp(mean + sigma*Z), choice(replace=True) = integers, truncnorm.rvs = ppf of the legacy global '
    'uniform stream) are re-verified on every run; a failed identity is an infrastructure failure',
    'distribution checks on chi (KS by the DKW bound, moments at 6.5-8 standard errors, n >= 20000) are '
    'supporting evidence only',
    'norm.pdf / norm.cdf of scipy are the standard normal pdf / cdf',
    'HeterogeneousModel.sample followed by compute_individual_parameters: the model carries the legacy, '
    'the repaired (code as it is: drawn rows unless exactly n_ids rows were drawn) and the intended variant; '
    'chi is compared with the repaired one']

EM = ['G', 'M', 'CM', 'LN']
EM_TAG = {'G': 'GaussianErrorModel', 'M': 'MultiplicativeGaussianErrorModel',
          'CM': 'ConstantAndMultiplicativeGaussianErrorModel', 'LN': 'LogNormalErrorModel'}
POP_TAG = {'Gc': 'GaussianModel', 'Gn': 'GaussianModel/noncentred', 'Lc': 'LogNormalModel',
           'Ln': 'LogNormalModel/noncentred', 'T': 'TruncatedGaussianModel', 'P': 'PooledModel',
           'H': 'HeterogeneousModel'}
KINDS = ['Gc', 'Gn', 'Lc', 'Ln', 'T', 'P', 'H']
KNOWN_TAG = 'C06.sampler_law/ConstantAndMultiplicativeGaussianErrorModel'


def em_classes(chi):
    return {'G': chi.GaussianErrorModel, 'M': chi.MultiplicativeGaussianErrorModel,
            'CM': chi.ConstantAndMultiplicativeGaussianErrorModel, 'LN': chi.LogNormalErrorModel}


# ----------------------------------------------------------------------------------------
# replay identities of numpy / scipy (infrastructure: a failure here is exit 2, not a verdict)
# ----------------------------------------------------------------------------------------
def verify_identities(seed):
    s = 1000 + seed
    loc, scale = np.array([1., -2., 0.3]), np.array([.5, 3., 1e-3])
    a = np.random.default_rng(s).normal(loc=loc, scale=scale, size=(4, 3))
    z = np.random.default_rng(s).standard_normal((4, 3))
    if not np.array_equal(a, loc + scale * z):
        raise RuntimeError('identity failed: Generator.normal != loc + scale*standard_normal')
    a = np.random.default_rng(s).normal(loc=0, scale=0.7, size=(4, 3))
    if not np.array_equal(a, 0 + 0.7 * z):
        raise RuntimeError('identity failed: Generator.normal (scalar) != loc + scale*standard_normal')
    a = np.random.default_rng(s).lognormal(mean=loc, sigma=scale, size=(4, 3))
    if not np.allclose(a, np.exp(loc + scale * z), rtol=1e-14, atol=0):
        raise RuntimeError('identity failed: Generator.lognormal != exp(mean + sigma*Z)')
    a = np.random.default_rng(s).choice(np.arange(7), size=9, replace=True)
    b = np.random.default_rng(s).integers(0, 7, size=9)
    if not np.array_equal(a, b):
        raise RuntimeError('identity failed: Generator.choice(replace=True) != integers')
    g = np.random.default_rng(s)
    a = np.concatenate([g.standard_normal(3), g.choice(np.arange(5), size=1), g.standard_normal(2)])
    g = np.random.default_rng(s)
    b = np.concatenate([g.standard_normal(2), g.standard_normal(1), g.integers(0, 5, size=1),
                        g.standard_normal(2)])
    if not np.array_equal(a, b):
        raise RuntimeError('identity failed: chunked calls on one Generator')
    g = np.random.default_rng(s)
    if np.random.default_rng(g) is not g:
        raise RuntimeError('identity failed: default_rng(Generator) is not the Generator')
    if int(np.random.default_rng(s).integers(low=0, high=1E6)) != int(
            np.random.default_rng(s).integers(0, 1000000)):
        raise RuntimeError('identity failed: integers(high=1E6)')
    st = np.random.get_state()
    try:
        mus, sig = np.array([1., .3]), np.array([.5, 2.])
        np.random.seed(s)
        a = truncnorm.rvs(a=-mus / sig, b=np.inf, loc=mus, scale=sig, size=(4, 2))
        np.random.seed(s)
        u = np.random.uniform(size=(4, 2))
        t = truncnorm.ppf(u, -mus / sig, np.inf)
        if not np.allclose(a, mus + sig * t, rtol=1e-14, atol=0):
            raise RuntimeError('identity failed: truncnorm.rvs != loc + scale*ppf(uniform)')
    finally:
        np.random.set_state(st)
    # constant + multiplicative: two consecutive standard_normal blocks
    g = np.random.default_rng(s)
    b1 = g.normal(loc=0, scale=.4, size=(3, 2))
    b2 = g.normal(loc=0, scale=.9, size=(3, 2))
    zz = np.random.default_rng(s).standard_normal(12)
    if not (np.array_equal(b1, 0 + .4 * zz[:6].reshape(3, 2))
            and np.array_equal(b2, 0 + .9 * zz[6:].reshape(3, 2))):
        raise RuntimeError('identity failed: two consecutive normal blocks')


# ----------------------------------------------------------------------------------------
# fulfilling a plan of requests on ONE generator
# ----------------------------------------------------------------------------------------
def fulfil(plan, gen, int_seed):
    out = []
    st = np.random.get_state()
    try:
        for req in plan:
            if req[0] == 'normals':
                out.append(['f', [float(v) for v in gen.standard_normal(req[1])]])
            elif req[0] == 'indices':
                out.append(['n', [int(v) for v in gen.integers(0, req[1], size=req[2])]])
            elif req[0] == 'trunc':
                _, from_gen, a, rows = req
                k = int(gen.integers(low=0, high=1E6)) if from_gen else int(int_seed)
                np.random.seed(k)
                u = np.random.uniform(size=(rows, len(a)))
                with np.errstate(all='ignore'):
                    t = truncnorm.ppf(u, np.array(a, float), np.inf)
                out.append(['f', [float(v) for v in np.asarray(t).flatten()]])
            else:
                raise RuntimeError('unknown request %r' % (req,))
    finally:
        np.random.set_state(st)
    return out


def call(f):
    """run chi, map exceptions to the small enum"""
    try:
        with np.errstate(all='ignore'):
            return f()
    except Exception as e:  # noqa
        return core.errkind(e)


def compare(ctx, label, c, mo, inp, cls):
    """exact-replay comparison, including the modelled error path: chi raises ValueError exactly where
    the model returns `valueError` (wrong parameter count; a negative scale — chi's own guards in the
    population models, numpy's `scale < 0` / `sigma < 0` in the error models; `<= 0` for the centred
    log-normal population model)"""
    return ctx.agree(label, as_rows(c), mo, inp)


def outside_support(ctx, tag, c, ll_of_samples, inp):
    """the property at a parameter vector OUTSIDE the support: the log-likelihood scores every value
    with -inf there (there is no density), so a sampler that returns values draws from a distribution
    the log-likelihood does not score"""
    if isinstance(c, str):
        ctx.spec('C06.no_samples_outside_support/' + tag, True, inp)
        return
    try:
        with np.errstate(all='ignore'):
            ll = float(ll_of_samples(np.asarray(c, float)))
    except Exception as e:  # noqa
        ll = core.errkind(e)
    ctx.spec('C06.no_samples_outside_support/' + tag, not (ll == -math.inf), inp,
             {'chi_returned_samples_with_log_likelihood': ll})


def as_rows(x):
    if isinstance(x, str):
        return x
    x = np.asarray(x, float)
    if x.ndim == 1:
        x = x[:, None]
    return [list(map(float, r)) for r in x]


# ----------------------------------------------------------------------------------------
# error models: exact replay
# ----------------------------------------------------------------------------------------
def gen_em_case(rng):
    m = EM[int(rng.integers(4))]
    k = 2 if m == 'CM' else 1
    nT = int(rng.integers(1, 7))
    n = [None, 1, 2, 3, 5][int(rng.integers(5))]
    sig = rng.uniform(0.05, 2.0, k)
    yb = rng.uniform(0.2, 5.0, nT)
    r = rng.random()
    cls = 'inside'
    if r < 0.06:
        sig[int(rng.integers(k))] = -float(rng.uniform(0.1, 1))
        cls = 'sigma<0'
    elif r < 0.10:
        sig[int(rng.integers(k))] = 0.0
        cls = 'sigma=0'
    elif r < 0.14:
        sig = np.append(sig, 1.0)
        cls = 'n_params'
    elif r < 0.30:
        # absolute scale regimes: noise (and, half of the time, the model output with it) on a tiny / huge
        # numerical scale; relative / log-scale noise parameters tiny or large
        cls = 'scale-' + ['tiny', 'huge'][int(rng.integers(2))]
        tiny = cls == 'scale-tiny'
        u = 10.0 ** float(rng.uniform(-9.0, -3.3) if tiny else rng.uniform(3.0, 9.0))
        rel = 10.0 ** float(rng.uniform(-6.0, -3.05)) if tiny else float(rng.uniform(2.0, 5.0))
        if rng.random() < 0.5:
            yb = yb * u
        if m == 'G':
            sig = sig * u
        elif m == 'CM':
            sig = np.array([sig[0] * u, sig[1] * rel if rng.random() < 0.5 else sig[1]])
        else:
            sig = sig * rel if m == 'LN' else sig * (rel if tiny else u)
        return m, sig, yb, n, cls
    if rng.random() < 0.1:
        yb[int(rng.integers(nT))] = float(rng.choice([0.0, -1.5]))
        cls += '+ybar<=0'
    return m, sig, yb, n, cls


def em_model(ctx, m, sig, yb, n, gen):
    nd = ctx.model('C06.em.ndraws', m, len(yb), n)[0]
    z = gen.standard_normal(nd)
    return ctx.model('C06.em.sample', m, list(map(float, sig)), list(map(float, yb)), n,
                     [float(v) for v in z])[0], nd


def em_documented_logpdf(m, sig, yb, x):
    """log-density of one series of measurements as the error models document it"""
    with np.errstate(all='ignore'):
        if m == 'LN':
            return float(np.sum(stats.norm.logpdf(np.log(x), np.log(yb) - sig[0] ** 2 / 2, sig[0]) - np.log(x)))
        sd = {'G': sig[0] + 0 * yb, 'M': sig[0] * yb, 'CM': sig[0] + sig[-1] * yb}[m]
        return float(np.sum(stats.norm.logpdf(x, yb, sd)))


def run_em_case(ctx, chi, rng, i):
    m, sig, yb, n, cls = gen_em_case(rng)
    em = em_classes(chi)[m]()
    seed = int(rng.integers(0, 2 ** 31))
    inp = {'model': EM_TAG[m], 'sigma': sig, 'ybar': yb, 'n_samples': n, 'seed': seed}
    nS = 1 if n is None else n
    ctx.case('em/%s/%s' % (m, cls),
             nontrivial=('em/%s/nT%d/nS%d/%s' % (m, len(yb), nS, cls)) if len(yb) >= 2 and nS >= 2
             else False, sample=inp)
    # the caller's arrays, reused for every call on chi; the reference side uses `sig` / `yb`
    sig_w, yb_w = np.array(sig, float), np.array(yb, float)
    c = call(lambda: em.sample(sig_w, yb_w, n_samples=n, seed=seed))
    mo, _ = em_model(ctx, m, sig, yb, n, np.random.default_rng(seed))
    ctx.branches.add('em:' + m + ':' + ('err' if isinstance(mo, str) else 'ok'))
    if isinstance(c, str):
        ctx.errkinds.add(c)
    compare(ctx, 'C06.em.sample/' + EM_TAG[m], c, mo, inp, cls)
    if not isinstance(c, str):
        ctx.spec('C06.shape/' + EM_TAG[m], np.asarray(c).shape == (len(yb), nS), inp,
                 {'shape': np.asarray(c).shape})
    if cls.startswith('sigma<0') and len(yb) > 0:
        outside_support(ctx, EM_TAG[m], c,
                        lambda x: em.compute_log_likelihood(list(sig), yb, x[:, 0]), inp)
    if cls in ('inside', 'sigma=0', 'inside+ybar<=0') or cls.startswith('scale-'):
        ctx.spec('C06.sampling_succeeds/' + EM_TAG[m], not isinstance(c, str), inp, {'chi': c if isinstance(c, str) else 'ok'})
    if (cls == 'inside' or cls.startswith('scale-')) and not isinstance(c, str) \
            and np.asarray(c).shape == (len(yb), nS):
        # the model's own samples are inside the scored support: their score is the documented log-density
        # (finite), on every absolute scale
        x = np.asarray(c, float)[:, int(rng.integers(nS))]
        got = call(lambda: float(em.compute_log_likelihood(np.array(sig, float), np.array(yb, float), x.copy())))
        want = em_documented_logpdf(m, np.asarray(sig, float), np.asarray(yb, float), x)
        ctx.spec('C06.own_samples_scored/' + EM_TAG[m] + ('/' + cls if cls != 'inside' else ''),
                 not isinstance(got, str) and math.isfinite(want) and core.close(got, want, rtol=1e-8, atol=1e-9),
                 inp, {'samples': x, 'chi_log_likelihood_of_its_own_samples': got, 'documented_log_density': want})
    # a Generator passed as seed is advanced, not restarted: two consecutive calls
    if i % 3 == 0 and cls in ('inside', 'sigma=0'):
        m2, sig2, yb2, n2, _ = gen_em_case(rng)
        if len(sig2) != (2 if m2 == 'CM' else 1) or np.any(np.asarray(sig2) < 0):
            sig2 = np.abs(sig2[:(2 if m2 == 'CM' else 1)])
        em2 = em_classes(chi)[m2]()
        g = np.random.default_rng(seed)
        c1 = call(lambda: em.sample(sig_w, yb_w, n_samples=n, seed=g))
        c2 = call(lambda: em2.sample(list(sig2), yb2, n_samples=n2, seed=g))
        h = np.random.default_rng(seed)
        mo1, _ = em_model(ctx, m, sig, yb, n, h)
        mo2, _ = em_model(ctx, m2, sig2, yb2, n2, h)
        inp2 = dict(inp, second={'model': EM_TAG[m2], 'sigma': sig2, 'ybar': yb2, 'n_samples': n2})
        ctx.agree('C06.em.generator_first/' + EM_TAG[m], as_rows(c1), mo1, inp2)
        ctx.agree('C06.em.generator_advanced/' + EM_TAG[m2], as_rows(c2), mo2, inp2)
        ctx.agree('C06.em.generator_consumed', float(g.standard_normal()), float(h.standard_normal()),
                  inp2, rtol=0.0)
        ctx.case('em/generator-seed', nontrivial='em/gen/%s-%s' % (m, m2))
    if cls in ('inside', 'sigma=0', 'inside+ybar<=0'):
        ctx.spec('C06.arguments_unchanged/' + EM_TAG[m],
                 np.array_equal(sig_w, np.asarray(sig, float)) and np.array_equal(yb_w, np.asarray(yb, float)),
                 inp, {'parameters_after_the_calls': sig_w, 'model_output_after_the_calls': yb_w})


def run_reduced_em(ctx, chi, rng):
    m = ['CM', 'CM', 'G', 'LN', 'M'][int(rng.integers(5))]
    em = em_classes(chi)[m]()
    names = em.get_parameter_names()
    k = len(names)
    mask = [bool(rng.random() < 0.5) for _ in range(k)]
    full = rng.uniform(0.1, 1.5, k)
    red = chi.ReducedErrorModel(em)
    fixed = {nm: float(v) for nm, v, b in zip(names, full, mask) if b}
    if fixed:
        red.fix_parameters(fixed)
    free = [float(v) for v, b in zip(full, mask) if not b]
    yb = rng.uniform(0.3, 4.0, int(rng.integers(1, 5)))
    n = [None, 2, 4][int(rng.integers(3))]
    seed = int(rng.integers(0, 2 ** 31))
    inp = {'model': 'ReducedErrorModel(%s)' % EM_TAG[m], 'mask': mask, 'values': full, 'free': free,
           'ybar': yb, 'n_samples': n, 'seed': seed}
    c = call(lambda: red.sample(free, yb, n_samples=n, seed=seed))
    filled = ctx.model('C06.reduced', mask if any(mask) else None, [float(v) for v in full], free)[0]
    mo, _ = em_model(ctx, m, filled, yb, n, np.random.default_rng(seed))
    ctx.agree('C06.em.sample/ReducedErrorModel', as_rows(c), mo, inp)
    # the property: the reduced model samples exactly what the wrapped model samples at the filled vector
    d = call(lambda: em.sample(list(full), yb, n_samples=n, seed=seed))
    ctx.spec('C06.reduced_is_wrapped/ReducedErrorModel',
             not isinstance(c, str) and not isinstance(d, str) and np.array_equal(c, d), inp)
    ctx.case('em/reduced/%s/%d-fixed' % (m, sum(mask)), nontrivial='em/reduced/%s/%s' % (m, mask))


# ----------------------------------------------------------------------------------------
# population models: exact replay
# ----------------------------------------------------------------------------------------
def build_elem(chi, kind, n_dim, n_ids):
    if kind == 'Gc':
        return chi.GaussianModel(n_dim=n_dim, centered=True)
    if kind == 'Gn':
        return chi.GaussianModel(n_dim=n_dim, centered=False)
    if kind == 'Lc':
        return chi.LogNormalModel(n_dim=n_dim, centered=True)
    if kind == 'Ln':
        return chi.LogNormalModel(n_dim=n_dim, centered=False)
    if kind == 'T':
        return chi.TruncatedGaussianModel(n_dim=n_dim)
    if kind == 'P':
        return chi.PooledModel(n_dim=n_dim)
    if kind == 'H':
        return chi.HeterogeneousModel(n_dim=n_dim, n_ids=n_ids)
    raise ValueError(kind)


def per_dim(kind, n_ids):
    return {'P': 1, 'H': n_ids}.get(kind, 2)


def gen_elem_params(rng, kind, n_dim, n_ids, wide=False):
    """population parameters in chi's flat layout (parameter-major)"""
    if kind == 'P':
        return rng.uniform(0.3, 3.0, n_dim)
    if kind == 'H':
        return rng.uniform(0.3, 3.0, n_ids * n_dim)
    if kind in ('Lc', 'Ln'):
        mu = rng.uniform(-0.5, 1.0, n_dim)
        sd = rng.uniform(0.15, 0.6, n_dim)
    elif kind == 'T':
        mu = rng.uniform(-0.5, 2.0, n_dim)
        sd = rng.uniform(0.4, 1.5, n_dim)
    else:
        mu = rng.uniform(-2.0, 3.0, n_dim)
        sd = rng.uniform(0.2, 2.0, n_dim)
    return np.concatenate([mu, sd])


# scale regimes of ONE dimension (location relative to scale). A caller puts dimensions of different
# regimes side by side in one multi-dimensional model; every dimension must keep ITS OWN law (Lean:
# C06_elem_entry, C06_truncGauss_support_all_dims, C06_truncGauss_entry_law). The scales stay >= 0.15 so
# that the small covariate shifts of `Sub.gen_params` keep them positive.
REGIMES = {'G': ['unit', 'far', 'large'], 'L': ['unit', 'far', 'neg'], 'T': ['cut', 'mild', 'far']}
BASE_REGIME = {'G': 'unit', 'L': 'unit', 'T': 'cut'}


def regime_dim(rng, fam, regime):
    """(mu, sd) of one dimension"""
    if fam == 'T':
        sd = float(rng.uniform(0.4, 2.0))
        lo, hi = {'cut': (0.3, 2.0), 'mild': (2.0, 9.0), 'far': (10.5, 40.0)}[regime]
        return sd * float(rng.uniform(lo, hi)), sd          # truncation active / weak / irrelevant
    if fam == 'G':
        if regime == 'unit':
            return float(rng.uniform(-2.0, 3.0)), float(rng.uniform(0.2, 2.0))
        if regime == 'far':
            sd = float(rng.uniform(0.2, 2.0))
            return float(rng.choice([-1, 1])) * sd * float(rng.uniform(10.5, 40.0)), sd
        return float(rng.uniform(-200.0, 200.0)), float(rng.uniform(20.0, 60.0))
    if regime == 'unit':
        return float(rng.uniform(-0.5, 1.0)), float(rng.uniform(0.15, 0.6))
    if regime == 'far':
        sd = float(rng.uniform(0.15, 0.3))
        return sd * float(rng.uniform(10.5, 20.0)), sd
    return float(rng.uniform(-3.0, -1.0)), float(rng.uniform(0.15, 0.6))


def gen_mixed_params(rng, kind, n_dim, n_ids, first=None):
    """population parameters (flat layout) whose dimensions are in DIFFERENT regimes: two dimensions get
    two distinct regimes (`first` among them when given), three dimensions all three, in random order;
    pooled / heterogeneous values of very different magnitudes. Returns (params, regimes)."""
    if kind in ('P', 'H'):
        k = n_dim if kind == 'P' else n_ids * n_dim
        return 10.0 ** rng.uniform(-2.0, 3.0, k), ['magnitudes'] * n_dim
    fam = kind[0]
    regs = REGIMES[fam]
    order = [regs[int(j)] for j in rng.permutation(len(regs))]
    if first is not None:
        order = [first] + [r for r in order if r != first]
    chosen = [order[d % len(order)] for d in range(n_dim)]
    chosen = [chosen[int(j)] for j in rng.permutation(n_dim)]
    ms = [regime_dim(rng, fam, r) for r in chosen]
    return np.array([m for m, _ in ms] + [sd for _, sd in ms]), chosen


# ABSOLUTE scale regimes (seeded change C06-16): a parameter that lives on a tiny / huge numerical scale
# (a rate constant of 2e-3 with a standard deviation of 5e-4, a count of 1e7), or a nearly vanishing / very
# large inter-individual variability. No density the property speaks of has a threshold in absolute units:
# the model's own samples are inside the scored support and their score is the documented log-density
# (Lean: C06_pop_gaussian_scored, C06_pop_lognormal_scored, C06_truncGauss_scored hold for every sigma > 0).
SCALES = ['tiny', 'huge']


def scale_dim(rng, fam, regime):
    """(mu, sd) of one dimension in an absolute scale regime; |mu| / sd stays <= ~1e5 so that the
    reference density is accurate to far better than the comparison tolerance"""
    if regime == 'unit':
        return regime_dim(rng, fam, BASE_REGIME[fam])
    e = float(rng.uniform(-9.0, -3.3)) if regime == 'tiny' else float(rng.uniform(3.0, 9.0))
    u = 10.0 ** e
    whole = rng.random() < 0.6                       # the whole dimension in other units / only the spread
    if fam == 'G':
        mu, sd = float(rng.uniform(-2.0, 3.0)), float(rng.uniform(0.2, 2.0))
        if whole:
            return mu * u, sd * u
        return mu, (10.0 ** float(rng.uniform(-5.0, -3.05)) if regime == 'tiny' else u)
    if fam == 'T':
        mu, sd = float(rng.uniform(-0.5, 2.0)), float(rng.uniform(0.4, 1.5))
        if whole:
            return mu * u, sd * u
        if regime == 'tiny':
            return float(rng.uniform(0.5, 3.0)), 10.0 ** float(rng.uniform(-4.5, -3.05))
        return mu, u
    # log-normal: log-scale spread tiny / large, or the median exp(mu) on a tiny / huge absolute scale
    if whole:
        mu = float(rng.uniform(8.0, 25.0))
        return (-mu if regime == 'tiny' else mu), float(rng.uniform(0.15, 0.6))
    mu = float(rng.uniform(-0.5, 1.0))
    return mu, (10.0 ** float(rng.uniform(-6.0, -3.05)) if regime == 'tiny' else float(rng.uniform(2.0, 6.0)))


def gen_scale_params(rng, kind, n_dim, n_ids, scale):
    """population parameters (flat layout) with at least one dimension in the absolute scale regime
    `scale`; the other dimensions in `scale`, the opposite regime or on the ordinary scale"""
    if kind in ('P', 'H'):
        k = n_dim if kind == 'P' else n_ids * n_dim
        e = rng.uniform(-9.0, -3.3, k) if scale == 'tiny' else rng.uniform(3.0, 9.0, k)
        return 10.0 ** e, [scale] * n_dim
    other = [r for r in SCALES if r != scale][0]
    chosen = [scale] + [[scale, 'unit', other][int(rng.integers(3))] for _ in range(n_dim - 1)]
    chosen = [chosen[int(j)] for j in rng.permutation(n_dim)]
    ms = [scale_dim(rng, kind[0], r) for r in chosen]
    return np.array([m for m, _ in ms] + [sd for _, sd in ms]), chosen


class Sub:
    """one sub-model: chi object + the description the Lean model takes"""

    def __init__(self, chi, rng, kind, n_dim, n_ids, n_cov, partial_sel=False):
        self.kind, self.n_dim, self.n_cov, self.n_ids = kind, n_dim, n_cov, n_ids
        inner = build_elem(chi, kind, n_dim, n_ids)
        self.n_pop = per_dim(kind, n_ids) * n_dim
        self.sel = []
        if n_cov > 0:
            self.obj = chi.CovariatePopulationModel(inner, chi.LinearCovariateModel(n_cov=n_cov))
            pairs = [[p, d] for p in range(per_dim(kind, n_ids)) for d in range(n_dim)]
            if partial_sel and len(pairs) > 1:
                keep = [pr for pr in pairs if rng.random() < 0.6] or [pairs[0]]
                order = rng.permutation(len(keep))
                self.obj.set_population_parameters([keep[j] for j in order])
                pairs = sorted(keep)
            self.sel = pairs
        else:
            self.obj = inner
        self.n_top = self.n_pop + n_cov * len(self.sel)

    def wire(self):
        return [self.kind, self.n_dim, self.n_cov, [list(p) for p in self.sel]]

    @classmethod
    def from_wire(cls, chi, wire, n_ids):
        """the sub-model a recorded description stands for (replay)"""
        kind, n_dim, n_cov, sel = wire
        self = object.__new__(cls)
        self.kind, self.n_dim, self.n_cov, self.n_ids = kind, int(n_dim), int(n_cov), int(n_ids)
        self.n_pop = per_dim(kind, n_ids) * self.n_dim
        self.sel = [list(map(int, pr)) for pr in sel]
        self.obj = build_elem(chi, kind, self.n_dim, n_ids)
        if self.n_cov > 0:
            self.obj = chi.CovariatePopulationModel(self.obj, chi.LinearCovariateModel(n_cov=self.n_cov))
            self.obj.set_population_parameters(self.sel)
        self.n_top = self.n_pop + self.n_cov * len(self.sel)
        self.regimes = None
        return self

    def gen_params(self, rng, mixed=False, scale=None):
        self.regimes = None
        if scale:
            p, self.regimes = gen_scale_params(rng, self.kind, self.n_dim, self.n_ids, scale)
            if self.n_cov > 0:
                # covariate shifts in the units of the shifted parameter's own dimension (covariates in
                # [-1, 1], <= 2 of them: the scale stays >= 0.6 of its value)
                beta = []
                for pi, di in self.sel:
                    unit = p[self.n_dim + di] if self.kind not in ('P', 'H') else abs(p[pi * self.n_dim + di])
                    beta += [float(v) * float(unit) for v in rng.uniform(-0.2, 0.2, self.n_cov)]
                p = np.concatenate([p, beta])
            return p
        if mixed:
            p, self.regimes = gen_mixed_params(rng, self.kind, self.n_dim, self.n_ids)
        else:
            p = gen_elem_params(rng, self.kind, self.n_dim, self.n_ids)
        if self.n_cov > 0:
            # small shifts keep scales positive for covariates in [-1, 1]
            p = np.concatenate([p, rng.uniform(-0.04, 0.04, self.n_cov * len(self.sel))])
        return p


def pop_model(ctx, mode, subs, n_ids, n, params, cov_rows, seed, gen, from_gen):
    """model output for one call; `gen` is the replica generator (advanced by the call)"""
    wire = [s.wire() for s in subs]
    par = [float(v) for v in params]
    cov = [[float(v) for v in r] for r in cov_rows]
    rep = ctx.model('C06.pop.plan', mode, wire, n_ids, n, par, cov, bool(from_gen))
    if isinstance(rep[0], str):
        return rep[0], None
    plan = rep[0]
    fs = fulfil(plan, gen, seed)
    out = ctx.model('C06.pop.sample', mode, wire, n_ids, n, par, cov, fs)[0]
    return out, plan


def chi_pop_sample(obj, mode, params, n, seed, cov):
    if mode == 'elem':
        return obj.sample(params, n_samples=n, seed=seed)
    if mode == 'cov':
        return obj.sample(params, cov, n_samples=n, seed=seed)
    return obj.sample(params, n_samples=n, seed=seed, covariates=cov)


def gen_cov(rng, n_cov_tot, nS):
    if n_cov_tot == 0:
        return None, []
    if rng.random() < 0.4:
        c = rng.uniform(-1, 1, n_cov_tot)          # one row, broadcast
        return c, [list(c)]
    c = rng.uniform(-1, 1, (nS, n_cov_tot))
    return c, [list(r) for r in c]


def documented_rows(subs, params0, cov_rows, n_rows):
    """per sub-model the population parameters th[r, p, d] that row r is drawn with / scored with:
    the given parameters, shifted linearly by the row's own covariates for the selected (p, d) pairs
    (executable spec, computed from the PRISTINE copy of the caller's parameters)"""
    out = []
    off = co = 0
    cov = None
    if cov_rows:
        cov = np.array(cov_rows, float)
        if len(cov) == 1:
            cov = np.broadcast_to(cov, (n_rows, cov.shape[1]))
    for s in subs:
        p = np.asarray(params0[off:off + s.n_top], float)
        ppd = per_dim(s.kind, s.n_ids)
        th = np.broadcast_to(p[:s.n_pop].reshape(ppd, s.n_dim), (n_rows, ppd, s.n_dim)).copy()
        if s.n_cov:
            beta = p[s.n_pop:].reshape(len(s.sel), s.n_cov)
            for k, (pi, di) in enumerate(s.sel):
                th[:, pi, di] += cov[:, co:co + s.n_cov] @ beta[k]
        out.append(th)
        off += s.n_top
        co += s.n_cov
    return out


def documented_psi(subs, ths, eta):
    """the models' own documented transform of sampled rows (heterogeneous columns: the drawn rows)"""
    eta = np.asarray(eta, float)
    out = eta.copy()
    col = 0
    for s, th in zip(subs, ths):
        blk = eta[:, col:col + s.n_dim]
        with np.errstate(all='ignore'):
            if s.kind == 'Gn':
                out[:, col:col + s.n_dim] = th[:, 0, :] + th[:, 1, :] * blk
            elif s.kind == 'Ln':
                out[:, col:col + s.n_dim] = np.exp(th[:, 0, :] + th[:, 1, :] * blk)
            elif s.kind == 'P':
                out[:, col:col + s.n_dim] = th[:, 0, :]
        col += s.n_dim
    return out


def delta_rows_equal(blk, own):
    """rows of a point-mass (pooled / heterogeneous) block carry the block's own values. Bare blocks hold
    copies of the parameters (exact equality); behind a covariate model the own value is `theta + beta.chi`,
    computed here and in chi by different but equivalent float expressions: equality up to 1e-12 relative
    (every off-support point the harness builds is off by >= 1e-3 relative)"""
    blk, own = np.asarray(blk, float), np.asarray(own, float)
    return bool(np.all(np.abs(blk - own) <= 1e-12 * np.maximum(1.0, np.abs(own))))


def documented_joint_logpdf(subs, ths, x):
    """log of the product density the Lean theorems identify as the law of the sampled rows
    (C06_composed_joint_law and the per-kind law theorems; point masses for pooled / heterogeneous parts:
    C06_pooled_scored, C06_composed_delta_support), -inf outside the support of a part; None when a
    heterogeneous block is scored at a number of rows other than its n_ids (no density documented)"""
    x = np.asarray(x, float)
    tot = 0.0
    col = 0
    for s, th in zip(subs, ths):
        blk = x[:, col:col + s.n_dim]
        with np.errstate(all='ignore'):
            if s.kind == 'Gc':
                tot += float(np.sum(stats.norm.logpdf(blk, th[:, 0, :], th[:, 1, :])))
            elif s.kind in ('Gn', 'Ln'):
                tot += float(np.sum(stats.norm.logpdf(blk)))
            elif s.kind == 'Lc':
                if np.any(blk <= 0):
                    return -math.inf
                tot += float(np.sum(stats.norm.logpdf(np.log(blk), th[:, 0, :], th[:, 1, :]) - np.log(blk)))
            elif s.kind == 'T':
                if np.any(blk < 0):
                    return -math.inf
                tot += float(np.sum(stats.norm.logpdf(blk, th[:, 0, :], th[:, 1, :])
                                    - np.log(1 - stats.norm.cdf(-th[:, 0, :] / th[:, 1, :]))))
            elif s.kind == 'P':
                tot += 0.0 if delta_rows_equal(blk, th[:, 0, :]) else -math.inf
            else:
                if len(blk) != s.n_ids:
                    return None
                own = np.array([th[i, i, :] for i in range(len(blk))])
                tot += 0.0 if delta_rows_equal(blk, own) else -math.inf
        col += s.n_dim
    return tot


def chi_ll(obj, mode, params, x, cov, n_rows):
    cvf = None if cov is None else np.broadcast_to(np.atleast_2d(cov), (n_rows, np.atleast_2d(cov).shape[1]))
    with np.errstate(all='ignore'):
        if mode == 'elem':
            return float(obj.compute_log_likelihood(params, x))
        if mode == 'cov':
            return float(obj.compute_log_likelihood(params, x, cvf))
        return float(obj.compute_log_likelihood(params, x, covariates=cvf))


def joint_score_check(ctx, chi, mode, obj, subs, params, params0, cov, cov_rows, x, inp):
    """the log-likelihood of the sampled rows TOGETHER is the log of the product density the rows are
    drawn from (each row with its own, covariate-shifted parameters) — the scored density of several
    individuals, not only of one (seeded change C06-4)"""
    x = np.asarray(x, float)
    if x.ndim != 2 or len(x) == 0 or any(s.kind == 'H' for s in subs):
        return
    ths = documented_rows(subs, params0, cov_rows, len(x))
    want = documented_joint_logpdf(subs, ths, x)
    got = call(lambda: chi_ll(obj, mode, params, x, cov, len(x)))
    if inp.get('class') != 'inside':
        return
    ctx.spec('C06.joint_score_of_samples/' + mode + ('/scale-' + inp['scale'] if inp.get('scale') else ''),
             not isinstance(got, str) and core.close(got, want, rtol=1e-8, atol=1e-9), inp,
             {'samples': as_rows(x), 'chi_log_likelihood_of_the_sampled_rows': got,
              'log_density_of_the_sampled_law': want})


def scored_support(ctx, rng, mode, subs, n_ids, params0, cov_rows, xb, inp, score, with_model=True):
    """the scored density OFF the sampled rows (seeded change C06-14): the log-likelihood of the model the
    sampler belongs to is the log of the product of the sub-models' densities at EVERY matrix of individuals,
    in particular it is -inf exactly where the sampler never goes:

    * `own_rows` — the sampled rows, the columns of a heterogeneous part replaced by the modelled
      individuals' own values in stored order (one of the matrices the sampler returns with positive
      probability): finite, the sum of the other parts' log-densities;
    * `delta_entry_moved` — ONE individual's entry in a column of a pooled / heterogeneous part moved off
      the part's value (or two heterogeneous individuals swapped): -inf;
    * `delta_parameter_moved` — the same rows scored under another pooled value / another value of one
      heterogeneous individual (profiling that parameter): -inf;
    * `entry_moved_inside` / `entry_moved_outside` — one entry of a Gaussian / log-normal / truncated part
      moved inside the support (the documented log-density at the new point) / to a negative value of a
      log-normal or truncated part (-inf).

    Reference: the documented densities (`documented_joint_logpdf`) at pristine parameters, never chi's own
    sub-model scores; correspondence: the Lean model's `composedLL` (`C06.pop.score`; theorems
    C06_composed_delta_support, C06_composed_delta_part_zero, C06_composed_sampled_pooled_scored).
    `score(params, rows)` calls chi; `cov_rows` holds one row (broadcast) or one row per row of `xb`."""
    xb = np.asarray(xb, float)
    if xb.ndim != 2 or len(xb) == 0 or xb.shape[1] != sum(s.n_dim for s in subs):
        return
    has_h = any(s.kind == 'H' for s in subs)
    if any(s.kind == 'H' and s.n_cov for s in subs):
        return   # covariate-wrapped heterogeneous model: C07's / C15's concern (as in psi_check)
    if has_h and len(xb) != n_ids:
        return
    m = len(xb)
    params0 = np.array(params0, float)
    offs, cols = [], []
    off = col = 0
    for s in subs:
        offs.append(off)
        cols.append(col)
        off += s.n_top
        col += s.n_dim
    x0 = xb.copy()
    for s, o, c in zip(subs, offs, cols):
        if s.kind == 'H':
            x0[:, c:c + s.n_dim] = params0[o:o + s.n_pop].reshape(n_ids, s.n_dim)
    points = [('own_rows' if has_h else 'sampled_rows', params0, x0, None)]
    delta = [j for j, s in enumerate(subs) if s.kind in ('P', 'H')]
    flt = [j for j, s in enumerate(subs) if s.kind in FLOAT]

    def off_value(v):
        """a value visibly different from v (>= 1e-3 relative)"""
        f = float(rng.choice([1e-3, 0.05, 0.3, 1.0]))
        return v + float(rng.choice([-1, 1])) * f * max(abs(v), 0.1)
    if delta:
        j = delta[int(rng.integers(len(delta)))]
        s, o, c = subs[j], offs[j], cols[j]
        r, d = int(rng.integers(m)), int(rng.integers(s.n_dim))
        x1 = x0.copy()
        how = 'moved'
        if s.kind == 'H' and m >= 2 and rng.random() < 0.5:
            r2 = (r + 1 + int(rng.integers(m - 1))) % m
            if abs(x1[r, c + d] - x1[r2, c + d]) > 1e-3 * max(abs(x1[r, c + d]), 0.1):
                x1[[r, r2], c + d] = x1[[r2, r], c + d]
                how = 'swapped with individual %d' % r2
        if how == 'moved':
            x1[r, c + d] = off_value(x1[r, c + d])
        points.append(('delta_entry_moved', params0, x1, {'part': j, 'row': r, 'dim': d, 'how': how}))
        j = delta[int(rng.integers(len(delta)))]
        s, o = subs[j], offs[j]
        k = int(rng.integers(s.n_pop))
        p1 = params0.copy()
        p1[o + k] = off_value(p1[o + k])
        points.append(('delta_parameter_moved', p1, x0, {'part': j, 'parameter': o + k}))
    if flt:
        j = flt[int(rng.integers(len(flt)))]
        s, c = subs[j], cols[j]
        r, d = int(rng.integers(m)), int(rng.integers(s.n_dim))
        x2 = x0.copy()
        v = x2[r, c + d]
        x2[r, c + d] = v * float(rng.uniform(1.1, 2.0)) if s.kind in ('Lc', 'T') else v + float(rng.uniform(-1, 1))
        points.append(('entry_moved_inside', params0, x2, {'part': j, 'row': r, 'dim': d}))
        out = [j for j in flt if subs[j].kind in ('Lc', 'T')]
        if out:
            j = out[int(rng.integers(len(out)))]
            s, c = subs[j], cols[j]
            r, d = int(rng.integers(m)), int(rng.integers(s.n_dim))
            x3 = x0.copy()
            x3[r, c + d] = -abs(x3[r, c + d]) - float(rng.uniform(0.01, 1.0))
            points.append(('entry_moved_outside', params0, x3, {'part': j, 'row': r, 'dim': d}))
    wire = [s.wire() for s in subs]
    for variant, p, xx, what in points:
        want = documented_joint_logpdf(subs, documented_rows(subs, p, cov_rows, m), xx)
        if want is None or (isinstance(want, float) and math.isnan(want)):
            continue
        got = call(lambda: score(np.array(p, float), xx.copy()))
        pinp = dict(inp, scored_at=variant, change=what, parameters_scored_with=p, rows_scored=as_rows(xx),
                    subs=wire, n_ids=n_ids, covariates_of_the_rows=cov_rows, entry_point=mode)
        ctx.spec('C06.scored_support/%s/%s' % (mode, variant),
                 not isinstance(got, str) and core.close(got, want, rtol=1e-8, atol=1e-9), pinp,
                 {'chi_log_likelihood': got, 'log_of_the_product_of_the_sub_model_densities': want})
        ctx.case('pop/scored_support/' + variant,
                 nontrivial='pop/scored_support/%s/%s/%s' % (mode, '+'.join(s.kind for s in subs), variant))
        if with_model:
            mo = ctx.model('C06.pop.score', mode, wire, n_ids, [float(v) for v in p],
                           [[float(v) for v in r] for r in cov_rows], as_rows(xx))
            ctx.agree('C06.pop.score/' + mode, got, mo[0], pinp, rtol=1e-8, atol=1e-9)
            if len(mo) > 1:
                ctx.agree('C06.pop.score/sum_of_parts', got, mo[1], pinp, rtol=1e-8, atol=1e-9)


def support_case(ctx, chi, rng, mode, obj, subs, n_ids, params0, cov, cov_rows, x, seed, inp):
    """rows to score for `scored_support`: the sampled rows; with a heterogeneous part (whose density is
    documented for exactly n_ids individuals) a fresh sample of n_ids rows with covariates of their own"""
    x = np.asarray(x, float)
    if any(s.kind == 'H' for s in subs) and len(x) != n_ids:
        cov, cov_rows = gen_cov(rng, sum(s.n_cov for s in subs), n_ids)
        x = call(lambda: chi_pop_sample(obj, mode, np.array(params0, float), n_ids, seed, cov))
        if isinstance(x, str):
            return
        inp = dict(inp, rows_scored_from='a second sample of n_ids rows', covariates=cov_rows, n_samples=n_ids)
    scored_support(ctx, rng, mode, subs, n_ids, params0, cov_rows, x, inp,
                   lambda p, xx: chi_ll(obj, mode, p, xx, cov, len(xx)))


def psi_check(ctx, chi, mode, obj, subs, n_ids, params, params0, cov, cov_rows, eta, inp, label):
    """compute_individual_parameters of the sampled eta. For a heterogeneous sub-model the Lean model
    carries both variants (legacy: the stored rows are returned whatever was drawn; intended: the drawn
    rows); the harness decides which one chi matches."""
    if isinstance(eta, str) or len(eta) == 0:
        return
    has_h = any(s.kind == 'H' for s in subs)
    if has_h and (mode == 'cov' or any(s.kind == 'H' and s.n_cov for s in subs)):
        return   # covariate-wrapped heterogeneous model: the transform is C07's / C15's concern
    eta = np.asarray(eta, float)
    if mode == 'elem':
        c = call(lambda: obj.compute_individual_parameters(np.asarray(params), eta))
    else:
        cv = None if cov is None else np.broadcast_to(np.atleast_2d(cov), (len(eta), np.atleast_2d(cov).shape[1]))
        c = call(lambda: obj.compute_individual_parameters(np.asarray(params), eta, covariates=cv)
                 if mode == 'composed' else obj.compute_individual_parameters(np.asarray(params), eta, cv))
    rows = cov_rows if len(cov_rows) != 1 else cov_rows * len(eta)

    def model(variant):
        return ctx.model('C06.pop.psi', mode, [s.wire() for s in subs], n_ids, [float(v) for v in params0],
                         [[float(v) for v in r] for r in rows], as_rows(eta), variant)[0]
    cr = as_rows(c)
    # the property for the models with a transform of their own: sample(theta) followed by
    # compute_individual_parameters(theta, eta) — the SAME array theta, as a caller writes it — is the
    # documented transform of eta at the parameters the caller passed
    if inp.get('class') == 'inside' and not isinstance(cr, str) and len(cr) == len(eta):
        hc = set()
        col = 0
        for sm in subs:
            if sm.kind == 'H':
                hc |= set(range(col, col + sm.n_dim))
            col += sm.n_dim
        keep = [j for j in range(eta.shape[1]) if j not in hc]
        want = documented_psi(subs, documented_rows(subs, params0, cov_rows, len(eta)), eta)
        ctx.spec('C06.sample_then_transform/' + mode,
                 core.close([[row[j] for j in keep] for row in cr],
                            [[float(row[j]) for j in keep] for row in want]), inp,
                 {'eta': as_rows(eta), 'after_compute_individual_parameters': cr,
                  'documented_transform_at_the_given_parameters': as_rows(want),
                  'parameter_array_after_sample': [float(v) for v in np.asarray(params).flatten()]})
    # the code as it is (7e1e7bd): drawn rows are handed on unless exactly n_ids rows were drawn
    ctx.agree('C06.pop.psi/' + label + ('/hetero' if has_h else ''), cr, model('repaired'), inp)
    if not has_h:
        return
    # the property: the individuals handed on are the individuals sample() drew
    hcols = []
    col = 0
    for sm in subs:
        if sm.kind == 'H':
            hcols += list(range(col, col + sm.n_dim))
        col += sm.n_dim
    if isinstance(cr, str) or len(cr) != len(eta):
        ok = False
    else:
        ok = core.close([[row[j] for j in hcols] for row in cr], [[float(row[j]) for j in hcols] for row in eta])
    detail = {'heterogeneous_columns': hcols, 'sampled': as_rows(eta), 'after_compute_individual_parameters': cr}
    if len(eta) != n_ids:
        ctx.spec('C06.sample_then_transform/HeterogeneousModel', ok, inp, detail)
        return
    tally = ctx.extra.setdefault('hetero_sample_then_transform_n_samples=n_ids', {'holds': 0, 'fails': 0})
    tally['holds' if ok else 'fails'] += 1
    if ok or tally['fails'] <= 5:
        # (a known finding must not flood the bounded list of recorded failures: the first five
        # failing inputs are recorded, the rest only counted)
        ctx.spec('C06.sample_then_transform/HeterogeneousModel/n_samples=n_ids', ok, inp, detail)


def run_pop_case(ctx, chi, rng, i, scale=None):
    mode = ['elem', 'elem', 'cov', 'composed', 'composed'][int(rng.integers(5))]
    n_ids = int(rng.integers(1, 5))
    n = [None, 1, 2, 3, 4][int(rng.integers(5))]
    if mode == 'elem':
        kind = KINDS[int(rng.integers(7))]
        subs = [Sub(chi, rng, kind, int(rng.integers(1, 4)), n_ids, 0)]
        if rng.random() < 0.08:
            n = 0
    elif mode == 'cov':
        kind = KINDS[int(rng.integers(7))]
        subs = [Sub(chi, rng, kind, int(rng.integers(1, 3)), n_ids, int(rng.integers(1, 3)),
                    partial_sel=rng.random() < 0.5)]
    else:
        subs = []
        for _ in range(int(rng.integers(1, 5))):
            kind = KINDS[int(rng.integers(7))]
            n_cov = int(rng.integers(1, 3)) if rng.random() < 0.3 else 0
            subs.append(Sub(chi, rng, kind, int(rng.integers(1, 3)), n_ids, n_cov,
                            partial_sel=rng.random() < 0.5))
    if mode == 'composed':
        obj = chi.ComposedPopulationModel([s.obj for s in subs])
        obj.set_n_ids(n_ids)
    else:
        obj = subs[0].obj
    nS = 1 if n is None else n
    if mode == 'elem' and subs[0].kind == 'H' and n == 0:
        nS = 1
    # every third case: the dimensions of each sub-model in different scale regimes
    mixed = rng.random() < 0.34
    params = np.concatenate([s.gen_params(rng, mixed, scale) for s in subs])
    cls = 'inside'
    r = rng.random()
    if scale:
        mixed = False      # (the absolute scale regimes: parameters inside the support only)
    elif r < 0.07:
        # a negative / zero scale in one sub-model with a scale parameter
        cand = [j for j, s in enumerate(subs) if s.kind in ('Gc', 'Gn', 'Lc', 'Ln', 'T')]
        if cand:
            j = cand[int(rng.integers(len(cand)))]
            off = sum(s.n_top for s in subs[:j])
            d = int(rng.integers(subs[j].n_dim))
            params[off + subs[j].n_dim + d] = float(rng.choice([-0.5, 0.0]))
            cls = 'scale<=0'
    elif r < 0.11:
        params = params[:-1] if len(params) > 1 else np.append(params, 1.0)
        cls = 'n_params'
    n_cov_tot = sum(s.n_cov for s in subs)
    cov, cov_rows = gen_cov(rng, n_cov_tot, nS)
    if cls == 'scale<=0' and subs and any(s.kind == 'T' for s in subs) and 0.0 in params:
        return   # truncnorm with scale 0: a = -mu/0 is outside the documented domain
    seed = int(rng.integers(0, 2 ** 31))
    label = mode + '/' + '+'.join(s.kind + ('c%d' % s.n_cov if s.n_cov else '') for s in subs)
    # `params` / `cov` are the caller's arrays, REUSED for every call on chi below (as user code does);
    # everything on the reference side (Lean model, documented densities) uses the pristine copies
    params = np.array(params, float)
    params0 = params.copy()
    cov0 = None if cov is None else np.array(cov, float).copy()
    inp = {'mode': mode, 'subs': [s.wire() for s in subs], 'n_ids': n_ids, 'n_samples': n,
           'parameters': params0, 'covariates': cov_rows, 'seed': seed, 'class': cls}
    nontriv = (mode != 'elem' and (len(subs) >= 2 or n_cov_tot > 0)) or subs[0].n_dim >= 2
    if mixed or scale:
        inp['regimes'] = [s.regimes for s in subs]
    if scale:
        inp['scale'] = scale
    ctx.case('pop/%s/%s%s' % (mode, cls, '/mixed-regimes' if mixed else ('/scale-' + scale if scale else '')),
             nontrivial=('pop/%s/nS%s/%s%s' % (label, n, cls, '/mixed' if mixed else ('/' + scale if scale else '')))
             if nontriv else False, sample=inp)
    chi_params = params
    if mode == 'elem' and cls != 'n_params' and rng.random() < 0.3:
        # documented alternative layout (p_per_dim, n_dim)
        chi_params = np.asarray(params).reshape(per_dim(subs[0].kind, n_ids), subs[0].n_dim)
        inp['layout'] = 'matrix'
    c = call(lambda: chi_pop_sample(obj, mode, chi_params, n, seed, cov))
    mo, plan = pop_model(ctx, mode, subs, n_ids, n, params0, cov_rows, seed,
                         np.random.default_rng(seed), from_gen=False)
    ctx.branches.add('pop:%s:%s' % (mode, 'err' if isinstance(mo, str) else 'ok'))
    if isinstance(c, str):
        ctx.errkinds.add(c)
        if cls == 'n_params' and mode != 'composed':
            # elementary / covariate models have no dedicated length check: any exception counts
            ctx.agree('C06.pop.sample-raises/' + mode, True, isinstance(mo, str), inp)
            return
    compare(ctx, 'C06.pop.sample/' + mode, c, mo, inp, cls)
    if cls == 'scale<=0' and isinstance(mo, str):
        cvf = None if cov is None else np.broadcast_to(np.atleast_2d(cov), (nS, np.atleast_2d(cov).shape[1]))
        outside_support(ctx, 'pop/' + mode, c,
                        lambda x: (obj.compute_log_likelihood(params, x) if mode == 'elem' else
                                   obj.compute_log_likelihood(params, x, cvf)), inp)
    if cls == 'inside':
        ctx.spec('C06.sampling_succeeds/pop/' + mode, not isinstance(c, str), inp,
                 {'chi': c if isinstance(c, str) else 'ok'})
    if isinstance(c, str) or isinstance(mo, str):
        return
    ctx.spec('C06.shape/pop/' + mode, np.asarray(c).shape == (nS, sum(s.n_dim for s in subs)), inp,
             {'shape': np.asarray(c).shape})
    if cls == 'inside' and np.asarray(c).shape == (nS, sum(s.n_dim for s in subs)):
        # supports: every entry of a truncated-Gaussian column is >= 0, of a log-normal column > 0 — in
        # EVERY dimension, whatever the other dimensions' parameters are
        col = 0
        ok, where = True, []
        for sm in subs:
            blk = np.asarray(c, float)[:, col:col + sm.n_dim]
            if (sm.kind == 'T' and not np.all(blk >= 0)) or (sm.kind == 'Lc' and not np.all(blk > 0)):
                ok = False
                where.append([col, col + sm.n_dim])
            col += sm.n_dim
        if any(sm.kind in ('T', 'Lc') for sm in subs):
            ctx.spec('C06.support/pop/' + mode, ok, inp,
                     {'samples': as_rows(c), 'columns_with_entries_outside_the_support': where})
    psi_check(ctx, chi, mode, obj, subs, n_ids, params, params0, cov, cov_rows, c, inp, mode)
    joint_score_check(ctx, chi, mode, obj, subs, params, params0, cov, cov_rows, c, inp)
    if cls == 'inside':
        support_case(ctx, chi, rng, mode, obj, subs, n_ids, params0, cov, cov_rows, c, seed, inp)
    # Generator as seed: advanced, not restarted (two consecutive calls)
    if i % 3 == 0 and cls == 'inside':
        g = np.random.default_rng(seed)
        c1 = call(lambda: chi_pop_sample(obj, mode, params, n, g, cov))
        c2 = call(lambda: chi_pop_sample(obj, mode, params, n, g, cov))
        h = np.random.default_rng(seed)
        mo1, _ = pop_model(ctx, mode, subs, n_ids, n, params0, cov_rows, None, h, from_gen=True)
        mo2, _ = pop_model(ctx, mode, subs, n_ids, n, params0, cov_rows, None, h, from_gen=True)
        ctx.agree('C06.pop.generator_first/' + mode, as_rows(c1), mo1, inp)
        ctx.agree('C06.pop.generator_advanced/' + mode, as_rows(c2), mo2, inp)
        ctx.agree('C06.pop.generator_consumed', float(g.standard_normal()), float(h.standard_normal()),
                  inp, rtol=0.0)
        ctx.case('pop/generator-seed', nontrivial='pop/gen/' + label)
    if cls == 'inside':
        # the caller's arrays are still what the caller passed (a sampler that overwrites them makes
        # every later call — transform, score, next sample — use other parameters than the given ones)
        same = np.array_equal(params, params0) and (cov is None or np.array_equal(np.asarray(cov, float), cov0))
        ctx.spec('C06.arguments_unchanged/pop/' + mode, same, inp,
                 {'parameters_passed': [float(v) for v in params0],
                  'parameters_after_the_calls': [float(v) for v in params]})


def run_reduced_pop(ctx, chi, rng):
    n_ids = int(rng.integers(1, 4))
    subs = [Sub(chi, rng, KINDS[int(rng.integers(7))], int(rng.integers(1, 3)), n_ids, 0)
            for _ in range(int(rng.integers(1, 4)))]
    base = chi.ComposedPopulationModel([s.obj for s in subs])
    base.set_n_ids(n_ids)
    red = chi.ReducedPopulationModel(base)
    names = red.get_parameter_names()
    scale = SCALES[int(rng.integers(2))] if rng.random() < 0.3 else None
    full = np.concatenate([s.gen_params(rng, rng.random() < 0.34, scale) for s in subs])
    if len(set(names)) != len(names):
        return
    mask = [bool(rng.random() < 0.4) for _ in names]
    fixed = {nm: float(v) for nm, v, b in zip(names, full, mask) if b}
    if fixed:
        red.fix_parameters(fixed)
    free = [float(v) for v, b in zip(full, mask) if not b]
    n = [None, 2, 3][int(rng.integers(3))]
    seed = int(rng.integers(0, 2 ** 31))
    inp = {'model': 'ReducedPopulationModel', 'subs': [s.wire() for s in subs], 'n_ids': n_ids,
           'mask': mask, 'values': full, 'free': free, 'n_samples': n, 'seed': seed}
    if scale:
        inp['scale'] = scale
    c = call(lambda: red.sample(np.array(free), n_samples=n, seed=seed))
    filled = ctx.model('C06.reduced', mask if any(mask) else None, [float(v) for v in full], free)[0]
    mo, _ = pop_model(ctx, 'composed', subs, n_ids, n, filled, [], seed, np.random.default_rng(seed), False)
    ctx.agree('C06.pop.sample/ReducedPopulationModel', as_rows(c), mo, inp)
    d = call(lambda: base.sample(full, n_samples=n, seed=seed))
    ctx.spec('C06.reduced_is_wrapped/ReducedPopulationModel',
             not isinstance(c, str) and not isinstance(d, str) and np.array_equal(c, d), inp)
    ctx.case('pop/reduced', nontrivial='pop/reduced/%s/%s' % ('+'.join(s.kind for s in subs), mask))
    if isinstance(c, str) or isinstance(filled, str):
        return
    # the reduced model scores what the wrapped model scores at the filled-in parameters — at the sampled
    # rows and off them (a pooled / heterogeneous column moved, a pooled parameter — fixed or free — moved)
    rows = np.asarray(c, float)
    if any(s.kind == 'H' for s in subs) and len(rows) != n_ids:
        rows = call(lambda: red.sample(np.array(free), n_samples=n_ids, seed=seed))
        if isinstance(rows, str):
            return

    def red_score(p, xx):
        if fixed:
            red.fix_parameters({nm: float(v) for nm, v, b in zip(names, p, mask) if b})
        return float(red.compute_log_likelihood(np.array([float(v) for v, b in zip(p, mask) if not b]), xx))
    scored_support(ctx, rng, 'composed', subs, n_ids, np.array(full, float), [], rows, inp, red_score)
    if fixed:
        red.fix_parameters(fixed)


def fill_mask(mask, values, free):
    """executable spec of a reduced model's parameter vector: the fixed value at a fixed position, the free
    values of THIS call, in order, elsewhere (Lean: fillMask, C06_reduced_fill; after any call history: C06_reduced_history_free)"""
    it = iter(free)
    return np.array([float(v) if b else float(next(it)) for v, b in zip(values, mask)], float)


def run_reduced_history(ctx, chi, rng):
    """call HISTORIES on one ReducedPopulationModel with fixed parameters (seeded change C06-15): every call
    — compute_individual_parameters above all, also compute_log_likelihood and sample — works with the fixed
    values and the free parameters of THAT call, whatever the previous calls on the same object were given
    (the same eta transformed under several population parameters, a score / sample / sensitivities at other
    parameters in between, a fixed value changed by a second fix_parameters, the first call after
    fix_parameters). The wrapped model has at least one part with a transform of its own (non-centred
    Gaussian / log-normal, bare, covariate-wrapped or inside a composed model).
    Reference: the documented transform / product density at `fill_mask(mask, values, free)`; correspondence:
    the Lean model's transform (C06.pop.psi) at the filled vector (C06.reduced.history)."""
    n_ids = int(rng.integers(1, 4))
    shape = ['elem', 'elem', 'cov', 'composed', 'composed'][int(rng.integers(5))]
    nc = ['Gn', 'Ln'][int(rng.integers(2))]
    if shape == 'elem':
        subs = [Sub(chi, rng, nc, int(rng.integers(1, 3)), n_ids, 0)]
    elif shape == 'cov':
        subs = [Sub(chi, rng, nc, int(rng.integers(1, 3)), n_ids, int(rng.integers(1, 3)),
                    partial_sel=rng.random() < 0.5)]
    else:
        kinds = [nc] + [['Gc', 'Gn', 'Lc', 'Ln', 'T', 'P'][int(rng.integers(6))]
                        for _ in range(int(rng.integers(0, 3)))]
        kinds = [kinds[int(j)] for j in rng.permutation(len(kinds))]
        subs = [Sub(chi, rng, k, int(rng.integers(1, 3)), n_ids,
                    int(rng.integers(1, 3)) if rng.random() < 0.3 else 0, partial_sel=rng.random() < 0.5)
                for k in kinds]
    mode = shape
    if mode == 'composed':
        base = chi.ComposedPopulationModel([s.obj for s in subs])
        base.set_n_ids(n_ids)
    else:
        base = subs[0].obj
    red = chi.ReducedPopulationModel(base)
    names = red.get_parameter_names()
    if len(set(names)) != len(names):
        return
    k = len(names)
    mask = [bool(rng.random() < 0.45) for _ in names]
    if all(mask) or not any(mask):
        j = int(rng.integers(k))
        mask = [not mask[q] if q == j else mask[q] for q in range(k)]
    if all(mask) or not any(mask):
        return

    def draw():
        return np.concatenate([s.gen_params(rng) for s in subs])
    values = draw()
    red.fix_parameters({nm: float(v) for nm, v, b in zip(names, values, mask) if b})
    n_cov = sum(s.n_cov for s in subs)
    m = int(rng.integers(1, 5))
    cov, cov_rows = gen_cov(rng, n_cov, m)
    cvf = None if cov is None else np.broadcast_to(np.atleast_2d(cov), (m, n_cov)).copy()

    def extra():
        # covariates as the wrapped model's entry point takes them
        if cvf is None:
            return (), {}
        return ((), {'covariates': cvf}) if mode == 'composed' else ((cvf,), {})

    skw = {} if cvf is None else {'covariates': cvf}     # (the sampler takes the covariates by keyword)

    def free_of(full):
        return np.array([float(v) for v, b in zip(full, mask) if not b], float)
    history = []
    frees = []           # the free parameters of the calls since the last fix_parameters (Lean: reducedCall)
    values_at_fix = values.copy()
    seed = int(rng.integers(0, 2 ** 31))
    wire = [s.wire() for s in subs]
    # eta: drawn by the model itself at some free parameters, or (first call after fix_parameters) given
    if rng.random() < 0.6:
        th = draw()
        a, kw = extra()
        eta = call(lambda: red.sample(free_of(th), m, seed, **skw))
        history.append(['sample', [float(v) for v in free_of(th)]])
        frees.append([float(v) for v in free_of(th)])
        if isinstance(eta, str):
            return
        eta = np.asarray(eta, float)
    else:
        eta = rng.standard_normal((m, sum(s.n_dim for s in subs)))
        col = 0
        for s in subs:
            if s.kind in ('Lc', 'T'):
                eta[:, col:col + s.n_dim] = np.abs(eta[:, col:col + s.n_dim]) + 0.1
            col += s.n_dim
    if eta.shape != (m, sum(s.n_dim for s in subs)):
        return
    label = shape + '/' + '+'.join(s.kind + ('c%d' % s.n_cov if s.n_cov else '') for s in subs)
    for step in range(int(rng.integers(2, 5))):
        # something else happens on the object at OTHER free parameters ...
        op = ['none', 'score', 'sample', 'sensitivities', 'transform', 'refix'][int(rng.integers(6))]
        other = draw()
        a, kw = extra()
        if op == 'score':
            call(lambda: red.compute_log_likelihood(free_of(other), eta.copy(), *a, **kw))
        elif op == 'sample':
            call(lambda: red.sample(free_of(other), m, seed + 1, **skw))
        elif op == 'sensitivities':
            call(lambda: red.compute_sensitivities(free_of(other), eta.copy(), *a, **kw))
        elif op == 'transform':
            call(lambda: red.compute_individual_parameters(free_of(other), eta.copy(), *a, **kw))
        elif op == 'refix':
            # a fixed value is changed by a second fix_parameters (same names stay fixed)
            values = np.where(mask, other, values)
            red.fix_parameters({nm: float(v) for nm, v, b in zip(names, values, mask) if b})
            frees, values_at_fix = [], values.copy()
        elif op != 'none':
            frees.append([float(v) for v in free_of(other)])
        history.append([op, [float(v) for v in (values if op == 'refix' else free_of(other))]])
        # ... then the model's own transform / score / sampler at the CURRENT free parameters
        cur = draw()
        free = free_of(cur)
        filled = fill_mask(mask, values, free)
        inp = {'model': 'ReducedPopulationModel', 'wrapped': label, 'subs': wire, 'n_ids': n_ids, 'mask': mask,
               'fixed_values': [float(v) for v, b in zip(values, mask) if b], 'free_parameters_of_this_call': free,
               'calls_before_on_the_same_object': [list(h) for h in history], 'eta': as_rows(eta),
               'covariates': cov_rows, 'class': 'inside'}
        ths = documented_rows(subs, filled, cov_rows, m)
        what = ['transform', 'transform', 'score', 'sample'][int(rng.integers(4))]
        if what == 'transform':
            c = call(lambda: red.compute_individual_parameters(free.copy(), eta.copy(), *a, **kw))
            want = documented_psi(subs, ths, eta)
            ctx.spec('C06.reduced_history/transform_at_current_parameters',
                     not isinstance(c, str) and core.close(as_rows(c), as_rows(want)), inp,
                     {'after_compute_individual_parameters': as_rows(c),
                      'documented_transform_at_the_filled_in_parameters': as_rows(want),
                      'filled_in_parameters': filled})
            rows = cov_rows if len(cov_rows) != 1 else cov_rows * m
            handed = ctx.model('C06.reduced.history', mask, [float(v) for v in values_at_fix], frees,
                               [float(v) for v in free])[0]
            mo = ctx.model('C06.pop.psi', mode, wire, n_ids, [float(v) for v in handed],
                           [[float(v) for v in r] for r in rows], as_rows(eta), 'repaired')[0]
            ctx.agree('C06.pop.psi/reduced-history', as_rows(c), mo, inp)
        elif what == 'score':
            got = call(lambda: float(red.compute_log_likelihood(free.copy(), eta.copy(), *a, **kw)))
            want = documented_joint_logpdf(subs, ths, eta)
            if want is not None and not math.isnan(want):
                ctx.spec('C06.reduced_history/score_at_current_parameters',
                         not isinstance(got, str) and core.close(got, want, rtol=1e-8, atol=1e-9), inp,
                         {'chi_log_likelihood': got, 'log_of_the_product_density_at_the_filled_in_parameters': want})
        else:
            c = call(lambda: red.sample(free.copy(), m, seed + 2, **skw))
            mo, _ = pop_model(ctx, mode, subs, n_ids, m, filled, cov_rows, seed + 2,
                              np.random.default_rng(seed + 2), False)
            # the exact-replay reference (the harness's own primitive draws through the Lean transformation)
            ctx.spec('C06.reduced_history/sample_at_current_parameters',
                     not isinstance(c, str) and not isinstance(mo, str) and core.close(as_rows(c), mo), inp,
                     {'chi': as_rows(c), 'replayed_at_the_filled_in_parameters': mo})
        history.append([what, [float(v) for v in free]])
        frees.append([float(v) for v in free])
        ctx.case('pop/reduced-history/' + what,
                 nontrivial='pop/reduced-history/%s/%s/%s/%s' % (label, mask, op, what))


# ----------------------------------------------------------------------------------------
# get_mean_and_std
# ----------------------------------------------------------------------------------------
def grid_eval(logpdf, lo, hi, m, log_space):
    """one evaluation of the scored density on a grid: returns (x, y, w) with w the density of x
    (x = log y when log_space)"""
    x = np.linspace(lo, hi, m)
    y = np.exp(x) if log_space else x
    with np.errstate(all='ignore'):
        w = np.exp(logpdf(y)) * (y if log_space else 1.0)
    return x, y, w


def moments_from_grid(x, y, w):
    """mass, mean, variance, 4th central moment by Simpson's rule"""
    from scipy.integrate import simpson
    mass = simpson(w, x=x)
    mean = simpson(w * y, x=x) / mass
    var = simpson(w * (y - mean) ** 2, x=x) / mass
    m4 = simpson(w * (y - mean) ** 4, x=x) / mass
    return float(mass), float(mean), float(var), float(m4)


def density_moments(logpdf, lo, hi, m=4001, log_space=False):
    return moments_from_grid(*grid_eval(logpdf, lo, hi, m, log_space))


def pop_logpdf_1d(model, params, d, ref, covariates=None):
    """marginal log-density of dimension d of an elementary / covariate model, from chi's own
    compute_log_likelihood with ONE individual (other dimensions held at `ref`)"""
    def f(xs):
        out = np.empty(len(xs))
        obs = np.array(ref, float)[None, :].copy()
        for j, x in enumerate(xs):
            obs[0, d] = x
            with np.errstate(all='ignore'):
                if covariates is None:
                    out[j] = model.compute_log_likelihood(params, obs)
                else:
                    out[j] = model.compute_log_likelihood(params, obs, covariates)
        return out
    return f


def run_moments(ctx, chi, rng, count):
    for _ in range(count):
        which = 'ln' if rng.random() < 0.5 else 'tg'
        n_dim = int(rng.integers(1, 4))
        if which == 'ln':
            mus = rng.uniform(-1.0, 1.5, n_dim)
            sig = rng.uniform(0.1, 0.9, n_dim)
            model = chi.LogNormalModel(n_dim=n_dim)
        else:
            mus = rng.uniform(-1.0, 3.0, n_dim)
            sig = rng.uniform(0.3, 2.0, n_dim)
            model = chi.TruncatedGaussianModel(n_dim=n_dim)
        regimes = None
        if rng.random() < 0.4:
            # dimensions in different scale regimes side by side
            pm, regimes = gen_mixed_params(rng, 'Lc' if which == 'ln' else 'T', n_dim, 1)
            mus, sig = pm[:n_dim].copy(), pm[n_dim:].copy()
        neg = rng.random() < 0.1
        if neg:
            sig[int(rng.integers(n_dim))] *= -1
        params = np.concatenate([mus, sig])
        tag = 'LogNormalModel' if which == 'ln' else 'TruncatedGaussianModel'
        inp = {'model': tag, 'parameters': params}
        if regimes:
            inp['regimes'] = regimes
        c = call(lambda: model.get_mean_and_std(params))
        mo = ctx.model('C06.moments', which, list(map(float, mus)), list(map(float, sig)))[0]
        ctx.agree('C06.moments/' + tag, as_rows(c) if not isinstance(c, str) else c, mo, inp, rtol=1e-8)
        ctx.case('moments/%s/%s' % (which, 'neg' if neg else 'inside'),
                 nontrivial='moments/%s/%d/%s' % (which, n_dim, '-'.join(regimes or [])) if n_dim >= 2 else False,
                 sample=inp)
        if neg or isinstance(c, str):
            continue
        # the property: the reported moments are those of the scored density (quadrature of chi's own ll)
        c = np.asarray(c, float)
        ok_shape = c.shape == (2, n_dim)
        ctx.spec('C06.moments_shape/' + tag, ok_shape, inp, {'shape': c.shape})
        if not ok_shape:
            continue
        ref = np.exp(mus) if which == 'ln' else np.abs(mus) + 0.5
        for d in range(n_dim):
            lp = pop_logpdf_1d(model, params, d, ref)
            if which == 'ln':
                _, mean, var, _ = density_moments(lp, mus[d] - 12 * sig[d], mus[d] + 14 * sig[d], 2001, True)
            else:
                _, mean, var, _ = density_moments(lp, 0.0, max(mus[d], 0) + 12 * sig[d], 2001)
            ok = abs(mean - c[0, d]) <= 1e-5 * max(1, abs(mean)) and \
                abs(math.sqrt(var) - c[1, d]) <= 1e-5 * max(1, math.sqrt(var))
            ctx.spec('C06.moments/' + tag, ok, dict(inp, dim=d),
                     {'reported': [c[0, d], c[1, d]], 'quadrature': [mean, math.sqrt(var)]})


# ----------------------------------------------------------------------------------------
# the property on chi: distribution checks (failing-input search / supporting evidence)
# ----------------------------------------------------------------------------------------
def dkw(n, alpha=1e-10):
    """P(sup |F_n - F| > eps) <= 2 exp(-2 n eps^2)  (Dvoretzky-Kiefer-Wolfowitz-Massart)"""
    return math.sqrt(math.log(2.0 / alpha) / (2.0 * n))


def ks_against_grid(samples, grid, cdf):
    """sup over grid points of |empirical cdf - cdf| (a lower bound of the KS statistic)"""
    s = np.sort(samples)
    emp = np.searchsorted(s, grid, side='right') / len(s)
    return float(np.max(np.abs(emp - cdf)))


def law_check(samples, logpdf, lo, hi, log_space=False, normalise=False, var_se=6.5, m=2001):
    """samples against the density exp(logpdf): KS distance on the grid, mean, variance"""
    n = len(samples)
    x, y, w = grid_eval(logpdf, lo, hi, m, log_space)
    cdf = np.concatenate([[0.0], np.cumsum((w[1:] + w[:-1]) / 2 * np.diff(x))])
    mass, mean, var, m4 = moments_from_grid(x, y, w)
    if normalise:
        cdf = cdf / cdf[-1]
    ks = ks_against_grid(samples, y, cdf)
    sm, sv = float(np.mean(samples)), float(np.var(samples, ddof=1))
    se_mean = math.sqrt(var / n)
    se_var = math.sqrt(max(m4 - var ** 2, 0.0) / n)
    return {'ks': ks, 'ks_thr': dkw(n), 'mass': mass,
            'mean': [sm, mean, se_mean], 'var': [sv, var, se_var],
            'ks_ok': ks <= dkw(n) + 1e-4,
            'mean_ok': abs(sm - mean) <= 6.5 * se_mean + 1e-9,
            'var_ok': abs(sv - var) <= var_se * se_var + 1e-9}


def guarded(ctx, tag, inp, f):
    """chi raising inside the support during a distribution check is a failure of the property on
    that input (nothing can be sampled / scored), not an infrastructure problem (ctx.guard)"""
    def case(ctx_, chi_, tag_, inp_):
        f()
        return True
    case.__name__ = 'law_' + tag.replace('/', '_')
    return ctx.guard(case, ctx, None, tag, inp) is True


def em_law(ctx, chi, rng, n, count):
    for k in range(count):
        sub = np.random.default_rng(int(rng.integers(0, 2 ** 31)))
        guarded(ctx, 'law/em/' + EM_TAG[EM[k % 4]], {'case': k}, lambda: em_law_one(ctx, chi, sub, n, k))


def em_law_one(ctx, chi, rng, n, k):
    if True:
        m = EM[k % 4]
        em = em_classes(chi)[m]()
        if m == 'LN':
            sig = [float(rng.uniform(0.15, 0.6))]
        elif m == 'CM':
            sig = [float(rng.uniform(0.4, 1.2)), float(rng.uniform(0.2, 0.6))]
        elif m == 'M':
            sig = [float(rng.uniform(0.1, 0.5))]
        else:
            sig = [float(rng.choice([rng.uniform(0.2, 0.7), rng.uniform(1.5, 3.0)]))]
        yb = float(rng.uniform(1.0, 4.0))
        seed = int(rng.integers(0, 2 ** 31))
        small = (k // 4) % 2 == 1
        if small:
            # many small calls on ONE Generator (n_samples 3): same law, and the generator must advance
            g = np.random.default_rng(seed)
            x = np.concatenate([np.asarray(em.sample(sig, [yb], n_samples=3, seed=g), float)[0]
                                for _ in range(n // 10)])
        else:
            x = np.asarray(em.sample(sig, [yb], n_samples=n, seed=seed), float)[0]
        inp = {'model': EM_TAG[m], 'sigma': sig, 'ybar': yb, 'n_samples': n, 'seed': seed}
        if small:
            inp.update({'n_samples': 3, 'calls_on_one_generator': n // 10})

        def lp(y, em=em, sig=sig, yb=yb):
            with np.errstate(all='ignore'):
                return np.asarray(em.compute_pointwise_ll(sig, np.full(len(y), yb), y), float)
        if m == 'LN':
            c = math.log(yb)
            r = law_check(x, lp, c - 12 * sig[0], c + 12 * sig[0], log_space=True, var_se=8.0)
            ctx.spec('C06.support/' + EM_TAG[m], bool(np.all(x > 0)), inp, {'min': float(np.min(x))})
        else:
            tot = {'G': sig[0], 'M': sig[0] * yb, 'CM': sig[0] + sig[-1] * yb}[m]
            r = law_check(x, lp, yb - 10 * tot, yb + 10 * tot)
        ctx.spec('C06.sampler_mean/' + EM_TAG[m], r['mean_ok'], inp, r)
        ctx.spec('C06.sampler_law/' + EM_TAG[m], r['ks_ok'] and r['var_ok'], inp, r)
        if m == 'CM':
            # which variant does chi match? legacy N(ybar, sb^2 + (sr ybar)^2) or the scored law
            sd = math.sqrt(sig[0] ** 2 + (sig[1] * yb) ** 2)
            r2 = law_check(x, lambda y: stats.norm.logpdf(y, yb, sd), yb - 10 * sd, yb + 10 * sd)
            ctx.spec('C06.sampler_law_legacy_or_scored/' + EM_TAG[m],
                     (r2['ks_ok'] and r2['var_ok']) or (r['ks_ok'] and r['var_ok']), inp,
                     {'legacy': r2, 'scored': r})
            ctx.extra.setdefault('constmult_variant', []).append(
                'legacy' if (r2['ks_ok'] and r2['var_ok']) else
                ('scored' if (r['ks_ok'] and r['var_ok']) else 'neither'))
        # independence across the two axes of the returned array (rank correlation, n pairs)
        if k % 4 == 0:
            y2 = np.asarray(em.sample(sig, [yb, yb * 1.5], n_samples=n, seed=seed), float)
            rho = float(stats.spearmanr(y2[0], y2[1])[0])
            ctx.spec('C06.independence/' + EM_TAG[m], abs(rho) <= 6.5 / math.sqrt(n - 1), inp, {'rho': rho})
        ctx.case('law/em/' + m)


def elem_range(kind, mu, sd):
    if kind in ('Lc', 'Ln'):
        return mu - 12 * sd, mu + 12 * sd, True
    if kind == 'T':
        return 0.0, max(mu, 0.0) + 11 * sd, False
    return mu - 10 * sd, mu + 10 * sd, False


def column_law(ctx, tag, x, model, params, d, ref, kind, mu, sd, inp, covariates=None):
    lo, hi, logsp = elem_range(kind, mu, sd)
    lp = pop_logpdf_1d(model, params, d, ref, covariates)
    r = law_check(x, lp, lo, hi, log_space=logsp, normalise=True, var_se=8.0 if logsp else 6.5)
    ctx.spec('C06.sampler_mean/' + tag, r['mean_ok'], dict(inp, dim=d), r)
    ctx.spec('C06.sampler_law/' + tag, r['ks_ok'] and r['var_ok'], dict(inp, dim=d), r)
    return r


def pop_law(ctx, chi, rng, n, reps):
    for rep in range(reps):
        for kind in KINDS:
            sub = np.random.default_rng(int(rng.integers(0, 2 ** 31)))
            guarded(ctx, 'law/pop/' + POP_TAG[kind], {'rep': rep, 'kind': kind},
                    lambda: pop_law_one(ctx, chi, sub, n, rep, kind))


def pop_law_one(ctx, chi, rng, n, rep, kind):
    if True:
        if True:
            # one dimension; three dimensions, one in every scale regime; one dimension; two dimensions in
            # two different regimes (the base regime and another one)
            n_dim = [1, 3, 1, 2][rep % 4]
            n_ids = 3
            model = build_elem(chi, kind, n_dim, n_ids)
            regimes = None
            if n_dim >= 2:
                params, regimes = gen_mixed_params(rng, kind, n_dim, n_ids,
                                                   first=BASE_REGIME.get(kind[0]) if n_dim == 2 else None)
            else:
                params = gen_elem_params(rng, kind, n_dim, n_ids)
                if kind == 'T':
                    params[:n_dim] = rng.uniform(0.4, 2.0, n_dim)   # mu/sigma >= ~0.3: mass below mu is visible
            seed = int(rng.integers(0, 2 ** 31))
            small = rep % 4 >= 2
            tag = POP_TAG[kind]
            # `params` is the caller's array, reused for every call on chi; densities / moments are
            # evaluated at the pristine copy `params0`
            params = np.array(params, float)
            params0 = params.copy()
            inp = {'model': tag, 'n_dim': n_dim, 'parameters': params0, 'n_samples': n, 'seed': seed}
            if regimes:
                inp['regimes'] = regimes
            if small:
                # many small calls (n_samples 2) on ONE Generator
                g = np.random.default_rng(seed)
                calls = n // 8
                x = np.concatenate([np.asarray(model.sample(params, n_samples=2, seed=g), float)
                                    for _ in range(calls)])
                inp.update({'n_samples': 2, 'calls_on_one_generator': calls})
            else:
                x = np.asarray(model.sample(params, n_samples=n, seed=seed), float)
            n = len(x)
            ctx.spec('C06.arguments_unchanged/' + tag, np.array_equal(params, params0), inp,
                     {'parameters_passed': params0, 'parameters_after_sample': params.copy()})
            ctx.case('law/pop/' + kind, nontrivial=('law/pop/%s/%s' % (kind, '-'.join(regimes)))
                     if regimes and kind not in ('P', 'H') else False)
            if kind == 'P':
                ok = bool(np.all(x == params0[None, :]))
                with np.errstate(all='ignore'):
                    ll = model.compute_log_likelihood(params0, x[:5])
                ctx.spec('C06.sampler_law/' + tag, ok and ll == 0, inp, {'ll': ll})
                return
            if kind == 'H':
                rows = params0.reshape(n_ids, n_dim)
                idx = [int(np.argmin(np.sum(np.abs(rows - r), axis=1))) for r in x]
                exact = bool(np.all(rows[idx] == x))
                counts = np.bincount(idx, minlength=n_ids)
                p = 1.0 / n_ids
                okc = bool(np.all(np.abs(counts - n * p) <= 6.5 * math.sqrt(n * p * (1 - p))))
                with np.errstate(all='ignore'):
                    ll = model.compute_log_likelihood(params0, rows)
                ctx.spec('C06.sampler_law/' + tag, exact and okc and ll == 0, inp,
                         {'counts': counts, 'rows_are_individuals': exact, 'll': ll})
                if small:
                    # the two rows of one call are independent: P(same individual) = 1/n_ids
                    ia = np.array(idx).reshape(-1, 2)
                    same = float(np.mean(ia[:, 0] == ia[:, 1]))
                    se = math.sqrt(p * (1 - p) / len(ia))
                    ctx.spec('C06.independence/' + tag, abs(same - p) <= 6.5 * se, inp,
                             {'fraction_of_calls_with_equal_rows': same, 'expected': p})
                return
            mus, sds = params0[:n_dim], params0[n_dim:]
            # a point well inside the support of every dimension (the other dimensions are held there)
            ref = np.exp(mus) if kind in ('Lc', 'Ln') else (np.abs(mus) + 0.5 if kind == 'T' else mus.copy())
            if kind in ('Gn', 'Ln'):
                # eta against the density the non-centred log-likelihood scores
                for d in range(n_dim):
                    lp = pop_logpdf_1d(model, params0, d, np.zeros(n_dim))
                    r = law_check(x[:, d], lp, -10, 10, normalise=True)
                    ctx.spec('C06.sampler_law/%s/eta' % tag, r['ks_ok'] and r['var_ok'] and r['mean_ok'],
                             dict(inp, dim=d), r)
                # psi = the model's own transform, against the centred twin's density
                psi = np.asarray(model.compute_individual_parameters(params, x), float)
                twin = build_elem(chi, kind[0] + 'c', n_dim, n_ids)
                for d in range(n_dim):
                    column_law(ctx, tag + '/psi', psi[:, d], twin, params0, d, ref, kind[0] + 'c', mus[d],
                               sds[d], inp)
                for a in range(n_dim):
                    for b in range(a):
                        rho = float(stats.spearmanr(psi[:, b], psi[:, a])[0])
                        ctx.spec('C06.independence/' + tag, abs(rho) <= 6.5 / math.sqrt(n - 1),
                                 dict(inp, dims=[b, a]), {'rho': rho})
                return
            for d in range(n_dim):
                column_law(ctx, tag, x[:, d], model, params0, d, ref, kind, mus[d], sds[d], inp)
            for a in range(n_dim):
                for b in range(a):
                    rho = float(stats.spearmanr(x[:, b], x[:, a])[0])
                    ctx.spec('C06.independence/' + tag, abs(rho) <= 6.5 / math.sqrt(n - 1),
                             dict(inp, dims=[b, a]), {'rho': rho})
            if kind in ('Lc', 'T'):
                ctx.spec('C06.support/' + tag, bool(np.all(x >= 0)) and (kind != 'Lc' or bool(np.all(x > 0))),
                         inp, {'min': float(np.min(x))})
            if kind == 'T':
                below = [float(np.mean(x[:, d] < mus[d])) for d in range(n_dim)]
                expect = [float((0.5 - stats.norm.cdf(-mus[d] / sds[d])) / (1 - stats.norm.cdf(-mus[d] / sds[d])))
                          for d in range(n_dim)]
                ok = all(abs(b - e) <= 6.5 * math.sqrt(max(e * (1 - e), 1e-12) / n) for b, e in zip(below, expect))
                ctx.spec('C06.support/' + tag, ok, inp, {'fraction_below_mu': below, 'expected': expect})
            if kind in ('Lc', 'T'):
                ms = np.asarray(model.get_mean_and_std(params0), float)
                if ms.shape == (2, n_dim):
                    for d in range(n_dim):
                        se = ms[1, d] / math.sqrt(n)
                        ctx.spec('C06.moments_vs_samples/' + tag,
                                 abs(float(np.mean(x[:, d])) - ms[0, d]) <= 6.5 * se, dict(inp, dim=d),
                                 {'sample_mean': float(np.mean(x[:, d])), 'reported': ms[:, d]})


def composed_law(ctx, chi, rng, n, reps):
    for rep in range(reps):
        sub = np.random.default_rng(int(rng.integers(0, 2 ** 31)))
        guarded(ctx, 'law/composed', {'rep': rep}, lambda: composed_law_one(ctx, chi, sub, n, rep))


COMPOSITIONS = [['Gc', 'Lc'], ['Gn', 'T', 'P'], ['Lc', 'H', 'Gc'], ['T', 'Gc'], ['Gc', 'Gc', 'Lc'],
                ['Ln', 'Gc', 'T'], ['Gc', 'P', 'Lc', 'Gn'], ['T', 'H', 'Ln']]
FLOAT = ('Gc', 'Gn', 'Lc', 'Ln', 'T')


def composed_law_one(ctx, chi, rng, n, rep):
    """a composed model: every column against the scored density conditional on the covariates of ITS
    sub-model, and independence across sub-models. cov_mode 2: every stochastic sub-model is
    covariate-wrapped with its own covariate columns (>= 2 covariate sub-models whose covariates differ:
    seeded change C06-2)"""
    n_ids = 2
    kinds = COMPOSITIONS[rep % len(COMPOSITIONS)]
    cov_mode = [2, 0, 1][rep % 3]
    subs = []
    n_float = 0
    for k in kinds:
        nc = 0
        if k in FLOAT:
            if cov_mode == 2:
                nc = 1 if rng.random() < 0.7 else 2
            elif cov_mode == 1 and n_float == 0:
                nc = 1
            n_float += 1
        subs.append(Sub(chi, rng, k, 1, n_ids, nc))
    obj = chi.ComposedPopulationModel([s.obj for s in subs])
    obj.set_n_ids(n_ids)
    params = np.concatenate([s.gen_params(rng) for s in subs])
    off = 0
    for s in subs:
        if s.kind == 'T':
            params[off] = rng.uniform(0.8, 2.0)
        if s.n_cov:
            # visible covariate effect on the location (pair (0, 0)) through every covariate
            params[off + s.n_pop:off + s.n_pop + s.n_cov] = rng.choice([-1, 1], s.n_cov) * rng.uniform(0.5, 0.9, s.n_cov)
            if s.kind == 'T':
                params[off + s.n_pop:off + s.n_pop + s.n_cov] *= 0.5
        off += s.n_top
    n_cov = sum(s.n_cov for s in subs)
    seed = int(rng.integers(0, 2 ** 31))
    cov = None
    groups = [np.arange(n)]
    if n_cov:
        # two sub-populations: even rows covariates A, odd rows covariates B (all columns differ)
        ca = rng.choice([-1, 1], n_cov) * rng.uniform(0.4, 1.0, n_cov)
        cb = -np.sign(ca) * rng.uniform(0.4, 1.0, n_cov)
        cov = np.where((np.arange(n) % 2 == 0)[:, None], ca[None, :], cb[None, :])
        groups = [np.arange(0, n, 2), np.arange(1, n, 2)]
    params = np.array(params, float)
    params0 = params.copy()          # reference side; `params` is reused for every call on chi
    cov0 = None if cov is None else cov.copy()
    x = np.asarray(obj.sample(params, n_samples=n, seed=seed, covariates=cov), float)
    label = '+'.join(s.kind + ('c%d' % s.n_cov if s.n_cov else '') for s in subs)
    inp = {'model': 'ComposedPopulationModel(' + label + ')', 'parameters': params0, 'n_samples': n,
           'seed': seed, 'covariates': None if cov is None else [list(cov[0]), list(cov[1])]}
    ctx.case('law/composed/' + label, nontrivial='law/composed/%s/cov%d' % (label, cov_mode))
    all_float = all(s.kind in FLOAT for s in subs)
    # location / scale of every column for each covariate group
    off = col = co = 0
    cols = []
    for s in subs:
        p = params0[off:off + s.n_top]
        if s.kind in FLOAT:
            for gi, g in enumerate(groups):
                if not s.n_cov and gi > 0:
                    continue
                xs = x[g, col] if s.n_cov else x[:, col]
                cv_own = None
                mu_g, sd_g = p[0], p[1]
                if s.n_cov:
                    cv_own = cov0[g[0]][None, co:co + s.n_cov]
                    mu_g = p[0] + float(cv_own[0] @ p[s.n_pop:s.n_pop + s.n_cov])
                    sd_g = p[1] + float(cv_own[0] @ p[s.n_pop + s.n_cov:s.n_pop + 2 * s.n_cov])
                tag = 'Composed/' + POP_TAG[s.kind] + ('/covariate' if s.n_cov else '')
                cinp = dict(inp, column=col, group=gi)
                if all_float:
                    # the density the COMPOSED log-likelihood scores for this column (one individual,
                    # the other columns held fixed), conditional on the full covariate row of the group
                    ref = composed_ref(subs, params0, None if cov0 is None else cov0[g[0]])
                    cvf = None if cov0 is None else cov0[g[0]][None, :]
                    lp = pop_logpdf_1d(obj, params0, col, ref, cvf)
                else:
                    ref = np.array([0.0 if s.kind in ('Gn', 'Ln') else
                                    (math.exp(mu_g) if s.kind == 'Lc' else abs(mu_g) + 0.5)])
                    lp = pop_logpdf_1d(s.obj, p, 0, ref, cv_own)
                if s.kind in ('Gn', 'Ln'):
                    r = law_check(xs, lp, -10, 10, normalise=True)
                    ctx.spec('C06.sampler_law/%s/eta' % tag, r['ks_ok'] and r['var_ok'] and r['mean_ok'], cinp, r)
                else:
                    lo, hi, logsp = elem_range(s.kind, mu_g, sd_g)
                    r = law_check(xs, lp, lo, hi, log_space=logsp, normalise=True, var_se=8.0 if logsp else 6.5)
                    ctx.spec('C06.sampler_mean/' + tag, r['mean_ok'], cinp, r)
                    ctx.spec('C06.sampler_law/' + tag, r['ks_ok'] and r['var_ok'], cinp, r)
            cols.append(col)
        elif s.kind == 'P':
            ctx.spec('C06.sampler_law/Composed/PooledModel', bool(np.all(x[:, col] == p[0])), inp)
        else:
            ctx.spec('C06.sampler_law/Composed/HeterogeneousModel', bool(np.all(np.isin(x[:, col], p))), inp)
            cols.append(col)
        off += s.n_top
        col += s.n_dim
        co += s.n_cov
    ctx.spec('C06.arguments_unchanged/Composed', np.array_equal(params, params0)
             and (cov is None or np.array_equal(cov, cov0)), inp,
             {'parameters_passed': params0, 'parameters_after_sample': params.copy()})
    cov_rows = [] if cov0 is None else [list(r) for r in cov0[:6]]
    if not any(s.kind == 'H' for s in subs):
        # the score of SEVERAL sampled rows together (each with its own covariates) is the log of the
        # product density the rows are drawn from
        for m in (2, 6):
            ths = documented_rows(subs, params0, [r for r in cov_rows[:m]], m)
            want = documented_joint_logpdf(subs, ths, x[:m])
            got = chi_ll(obj, 'composed', params, x[:m], None if cov is None else cov[:m], m)
            ctx.spec('C06.joint_score_of_samples/Composed', core.close(got, want, rtol=1e-8, atol=1e-9),
                     dict(inp, rows=m), {'samples': as_rows(x[:m]), 'chi_log_likelihood_of_the_sampled_rows': got,
                                         'log_density_of_the_sampled_law': want})
    # the scored density off the sampled rows (pooled / heterogeneous columns and parameters moved, entries
    # moved inside / outside the support of the other parts)
    scored_support(ctx, rng, 'composed', subs, n_ids, params0, cov_rows[:n_ids], x[:n_ids], inp,
                   lambda p, xx: chi_ll(obj, 'composed', p, xx, None if cov is None else cov[:n_ids], len(xx)))
    # non-centred sub-models: the model's own transform of the sampled eta (same parameter array)
    # against the law of the centred model with the given (covariate-shifted) parameters
    if any(s.kind in ('Gn', 'Ln') for s in subs):
        psi = np.asarray(obj.compute_individual_parameters(params, x, covariates=cov), float)
        colp = cop = offp = 0
        for s in subs:
            pp = params0[offp:offp + s.n_top]
            if s.kind in ('Gn', 'Ln'):
                for gi, g in enumerate(groups):
                    if not s.n_cov and gi > 0:
                        continue
                    ys = psi[g, colp] if s.n_cov else psi[:, colp]
                    mu_g, sd_g = pp[0], pp[1]
                    if s.n_cov:
                        cvo = cov0[g[0]][cop:cop + s.n_cov]
                        mu_g = pp[0] + float(cvo @ pp[s.n_pop:s.n_pop + s.n_cov])
                        sd_g = pp[1] + float(cvo @ pp[s.n_pop + s.n_cov:s.n_pop + 2 * s.n_cov])
                    zs = ((np.log(ys) if s.kind == 'Ln' else ys) - mu_g) / sd_g
                    grid = np.linspace(-6, 6, 1201)
                    ks = ks_against_grid(zs, grid, stats.norm.cdf(grid))
                    ctx.spec('C06.sampler_law/Composed/%s/psi' % POP_TAG[s.kind], ks <= dkw(len(zs)) + 1e-4,
                             dict(inp, column=colp, group=gi),
                             {'ks': ks, 'ks_thr': dkw(len(zs)), 'standardised_mean': float(np.mean(zs)),
                              'standardised_sd': float(np.std(zs))})
            offp += s.n_top
            colp += s.n_dim
            cop += s.n_cov
    # independently across sub-models (within one covariate group)
    g = groups[0]
    for a in range(len(cols)):
        for b in range(a):
            rho = float(stats.spearmanr(x[g, cols[a]], x[g, cols[b]])[0])
            ctx.spec('C06.independence/Composed', abs(rho) <= 6.5 / math.sqrt(len(g) - 1),
                     dict(inp, columns=[cols[b], cols[a]]), {'rho': rho})


def composed_ref(subs, params, cov_row):
    """a point inside the support of every column (all sub-models Gaussian / log-normal / truncated)"""
    ref = []
    off = co = 0
    for s in subs:
        p = params[off:off + s.n_top]
        mu = p[0]
        if s.n_cov:
            mu = p[0] + float(np.asarray(cov_row)[co:co + s.n_cov] @ p[s.n_pop:s.n_pop + s.n_cov])
        ref.append(0.0 if s.kind in ('Gn', 'Ln') else (math.exp(mu) if s.kind == 'Lc' else abs(mu) + 0.5))
        off += s.n_top
        co += s.n_cov
    return np.array(ref)


def witness(ctx, chi):
    """the recorded witness of C06_constmult_counterexample: sb=1, sr=.5, ybar=2 (sd 1.41 vs 2.0)"""
    em = chi.ConstantAndMultiplicativeGaussianErrorModel()
    n = 200000
    x = np.asarray(em.sample([1.0, 0.5], [2.0], n_samples=n, seed=1), float)[0]
    sd = float(np.std(x, ddof=1))
    inp = {'model': EM_TAG['CM'], 'sigma': [1.0, 0.5], 'ybar': 2.0, 'n_samples': n, 'seed': 1,
           'witness_of': 'C06_constmult_counterexample'}
    se = 2.0 / math.sqrt(2 * n)
    ctx.spec(KNOWN_TAG, abs(sd - 2.0) <= 6.5 * se, inp,
             {'sample_sd': sd, 'scored_sd': 2.0, 'legacy_sd': math.sqrt(2.0)})
    ctx.spec('C06.sampler_law_legacy_or_scored/' + EM_TAG['CM'],
             abs(sd - 2.0) <= 6.5 * se or abs(sd - math.sqrt(2.0)) <= 6.5 * math.sqrt(2.0) / math.sqrt(2 * n),
             inp, {'sample_sd': sd})
    ctx.case('witness/constmult')
    # the repaired truncated-Gaussian witness (C06_truncGauss_support_counterexample): mu = sigma = 1
    tg = chi.TruncatedGaussianModel()
    y = np.asarray(tg.sample([1.0, 1.0], n_samples=20000, seed=1), float)
    ctx.spec('C06.support/TruncatedGaussianModel', float(np.min(y)) >= 0 and float(np.mean(y < 1.0)) > 0.3,
             {'model': 'TruncatedGaussianModel', 'parameters': [1.0, 1.0], 'seed': 1,
              'witness_of': 'C06_truncGauss_support_counterexample'},
             {'min': float(np.min(y)), 'fraction_below_mu': float(np.mean(y < 1.0))})
    ctx.case('witness/truncgauss')


def corpus(ctx, chi):
    """hand-picked boundary cases, run first"""
    rng = np.random.default_rng(12345)
    for m, sig, yb, n in [('G', [1.0], [1.0, 2.0], None), ('CM', [1.0, 0.5], [2.0], 3),
                          ('CM', [0.3, 0.2], [0.0, 1.0, -1.0], 2), ('LN', [0.5], [1.0, 3.0], 2),
                          ('M', [0.2], [2.0, 0.0], 4), ('G', [0.0], [1.0], 2), ('LN', [0.0], [2.0], 2),
                          ('G', [1.0], [], 2), ('M', [1.0], [1.0], 0)]:
        em = em_classes(chi)[m]()
        seed = 7
        inp = {'model': EM_TAG[m], 'sigma': sig, 'ybar': yb, 'n_samples': n, 'seed': seed}
        c = call(lambda: em.sample(sig, np.array(yb, float), n_samples=n, seed=seed))
        mo, _ = em_model(ctx, m, sig, yb, n, np.random.default_rng(seed))
        if not isinstance(c, str) and np.asarray(c).size == 0:
            ctx.agree('C06.em.sample-empty/' + EM_TAG[m], list(np.asarray(c).shape),
                      [len(yb), 1 if n is None else n], inp)
        else:
            ctx.agree('C06.em.sample/' + EM_TAG[m], as_rows(c), mo, inp)
        ctx.case('corpus/em/' + m)
    del rng


def run(ctx):
    chi = core.import_chi()
    verify_identities(ctx.seed)
    quick = ctx.tier == 'quick'
    ctx.guard(corpus, ctx, chi)
    ctx.guard(witness, ctx, chi)
    for i in range(300 if quick else 6000):
        ctx.guard(run_em_case, ctx, chi, ctx.sub_rng(i), i)
    for i in range(50 if quick else 800):
        ctx.guard(run_reduced_em, ctx, chi, ctx.sub_rng(100000 + i))
    for i in range(450 if quick else 12000):
        ctx.guard(run_pop_case, ctx, chi, ctx.sub_rng(200000 + i), i)
    for i in range(110 if quick else 3000):
        ctx.guard(run_pop_case, ctx, chi, ctx.sub_rng(250000 + i), i, SCALES[i % 2])
    for i in range(50 if quick else 800):
        ctx.guard(run_reduced_pop, ctx, chi, ctx.sub_rng(300000 + i))
    for i in range(60 if quick else 1500):
        ctx.guard(run_reduced_history, ctx, chi, ctx.sub_rng(350000 + i))
    for i in range(12 if quick else 300):
        ctx.guard(run_moments, ctx, chi, ctx.sub_rng(400000 + i), 1)
    n = 20000 if quick else 100000
    em_law(ctx, chi, ctx.sub_rng(500000), n, 8 if quick else 64)
    pop_law(ctx, chi, ctx.sub_rng(600000), n, 4 if quick else 16)
    composed_law(ctx, chi, ctx.sub_rng(700000), n, 6 if quick else 48)


def replay_reduced_history(chi, tag, inp):
    """re-runs a recorded call history on a fresh ReducedPopulationModel, then the recorded call"""
    n_ids = int(inp['n_ids'])
    subs = [Sub.from_wire(chi, w, n_ids) for w in inp['subs']]
    mode = inp['wrapped'].split('/')[0]
    base = subs[0].obj
    if mode == 'composed':
        base = chi.ComposedPopulationModel([sm.obj for sm in subs])
        base.set_n_ids(n_ids)
    red = chi.ReducedPopulationModel(base)
    names = red.get_parameter_names()
    mask = [bool(b) for b in inp['mask']]
    eta = np.array(inp['eta'], float)
    m = len(eta)
    cov_rows = inp.get('covariates') or []
    cvf = None
    if cov_rows:
        cvf = np.broadcast_to(np.array(cov_rows, float), (m, len(cov_rows[0]))).copy()
    a, kw = (), {}
    if cvf is not None:
        a, kw = ((), {'covariates': cvf}) if mode == 'composed' else ((cvf,), {})
    skw = {} if cvf is None else {'covariates': cvf}
    fixed_names = [nm for nm, b in zip(names, mask) if b]
    hist = inp['calls_before_on_the_same_object']
    # the fixed values before the first recorded `refix` are not part of the record: any values do
    first = next((h[1] for h in hist if h[0] == 'refix'), None)
    values = np.array(first, float) if first is not None else fill_mask(
        [not b for b in mask], np.zeros(len(mask)), inp['fixed_values'])
    red.fix_parameters({nm: float(v) for nm, v, b in zip(names, values, mask) if b})
    for op, p in hist:
        p = np.array(p, float)
        if op == 'refix':
            values = p
            red.fix_parameters({nm: float(v) for nm, v, b in zip(names, values, mask) if b})
        elif op == 'sample':
            call(lambda: red.sample(p, m, 1, **skw))
        elif op == 'score':
            call(lambda: red.compute_log_likelihood(p, eta.copy(), *a, **kw))
        elif op == 'sensitivities':
            call(lambda: red.compute_sensitivities(p, eta.copy(), *a, **kw))
        elif op == 'transform':
            call(lambda: red.compute_individual_parameters(p, eta.copy(), *a, **kw))
    values = fill_mask([not b for b in mask], np.zeros(len(mask)), inp['fixed_values'])
    red.fix_parameters({nm: float(v) for nm, v in zip(fixed_names, inp['fixed_values'])})
    free = np.array(inp['free_parameters_of_this_call'], float)
    filled = fill_mask(mask, values, free)
    ths = documented_rows(subs, filled, cov_rows, m)
    print('history on the object:', [h[0] for h in hist])
    if tag.endswith('transform_at_current_parameters'):
        c = call(lambda: red.compute_individual_parameters(free.copy(), eta.copy(), *a, **kw))
        want = documented_psi(subs, ths, eta)
        print('chi   : compute_individual_parameters(free, eta):', as_rows(c))
        print('spec  : documented transform at the filled-in parameters:', as_rows(want))
        ok = not isinstance(c, str) and core.close(as_rows(c), as_rows(want))
    elif tag.endswith('score_at_current_parameters'):
        c = call(lambda: float(red.compute_log_likelihood(free.copy(), eta.copy(), *a, **kw)))
        want = documented_joint_logpdf(subs, ths, eta)
        print('chi   : compute_log_likelihood(free, eta):', c)
        print('spec  : log of the product density at the filled-in parameters:', want)
        ok = not isinstance(c, str) and core.close(c, want, rtol=1e-8, atol=1e-9)
    else:
        seed = 5
        c = call(lambda: red.sample(free.copy(), m, seed, **skw))
        d = call(lambda: base.sample(filled.copy(), n_samples=m, seed=seed, **skw))
        print('chi   : reduced.sample(free):', as_rows(c))
        print('fresh : wrapped.sample(filled-in parameters):', as_rows(d))
        ok = not isinstance(c, str) and not isinstance(d, str) and np.array_equal(c, d)
    print('the reduced model %s the parameters of the current call on this tree' % ('USES' if ok else 'DOES NOT USE'))
    return 0 if ok else 1


def replay(ctx, data):
    """re-runs the recorded input on chi (and the model where the input is a replayable call) and
    prints the outcome; exit code 1 when the recorded property check still fails"""
    import json
    chi = core.import_chi()
    if 'failing' not in data:
        bad = (data.get('broken_correspondence') or [{}])[0]
        print('no failing input was found; broken:', json.dumps(data.get('broken_obligations'))[:500])
        print('first disagreement:', json.dumps(bad)[:1500])
        inp = bad.get('input', {})
        rev = {v: k for k, v in EM_TAG.items()}
        if inp.get('model') in rev and isinstance(inp.get('ybar'), list):
            m = rev[inp['model']]
            em = em_classes(chi)[m]()
            c = call(lambda: em.sample(inp['sigma'], np.array(inp['ybar'], float),
                                       n_samples=inp.get('n_samples'), seed=inp.get('seed')))
            mo, _ = em_model(ctx, m, inp['sigma'], inp['ybar'], inp.get('n_samples'),
                             np.random.default_rng(inp.get('seed')))
            print('chi now :', as_rows(c))
            print('model   :', mo)
            return 0 if core.close(as_rows(c), mo) else 1
        return 0
    bad = data['failing']
    inp = bad['input']
    tag = bad['tag']
    print('tag   :', tag)
    print('input :', json.dumps(inp)[:1500])
    print('detail:', json.dumps(bad.get('detail'))[:1500])
    if tag.startswith('C06.scored_support/'):
        n_ids = int(inp['n_ids'])
        subs = [Sub.from_wire(chi, w, n_ids) for w in inp['subs']]
        mode = inp['entry_point']
        if mode == 'composed':
            obj = chi.ComposedPopulationModel([sm.obj for sm in subs])
            obj.set_n_ids(n_ids)
        else:
            obj = subs[0].obj
        p = np.array(inp['parameters_scored_with'], float)
        xx = np.array(inp['rows_scored'], float)
        cov_rows = inp.get('covariates_of_the_rows') or []
        cov = np.array(cov_rows, float) if cov_rows else None
        if inp.get('model') == 'ReducedPopulationModel':
            red = chi.ReducedPopulationModel(obj)
            mask = inp['mask']
            fixed = {nm: float(v) for nm, v, b in zip(red.get_parameter_names(), p, mask) if b}
            if fixed:
                red.fix_parameters(fixed)
            got = call(lambda: float(red.compute_log_likelihood(
                np.array([float(v) for v, b in zip(p, mask) if not b]), xx)))
        else:
            got = call(lambda: chi_ll(obj, mode, p, xx, cov, len(xx)))
        want = documented_joint_logpdf(subs, documented_rows(subs, p, cov_rows, len(xx)), xx)
        print('chi   : compute_log_likelihood of the recorded rows at the recorded parameters:', got)
        print('spec  : log of the product of the sub-model densities there            :', want)
        ok = not isinstance(got, str) and core.close(got, want, rtol=1e-8, atol=1e-9)
        print('the scored density %s the product density on this tree' % ('IS' if ok else 'IS NOT'))
        return 0 if ok else 1
    if tag.startswith('C06.reduced_history/'):
        return replay_reduced_history(chi, tag, inp)
    if tag.startswith('C06.joint_score_of_samples/') and 'subs' in inp and 'samples' in (bad.get('detail') or {}):
        n_ids = int(inp['n_ids'])
        subs = [Sub.from_wire(chi, w, n_ids) for w in inp['subs']]
        mode = inp['mode']
        obj = subs[0].obj
        if mode == 'composed':
            obj = chi.ComposedPopulationModel([sm.obj for sm in subs])
            obj.set_n_ids(n_ids)
        p = np.array(inp['parameters'], float)
        xx = np.array(bad['detail']['samples'], float)
        cov_rows = inp.get('covariates') or []
        cov = np.array(cov_rows, float) if cov_rows else None
        got = call(lambda: chi_ll(obj, mode, p, xx, cov, len(xx)))
        want = documented_joint_logpdf(subs, documented_rows(subs, p, cov_rows, len(xx)), xx)
        print('chi   : compute_log_likelihood of the recorded samples at the recorded parameters:', got)
        print('spec  : log-density of the law the rows were drawn from                         :', want)
        ok = not isinstance(got, str) and core.close(got, want, rtol=1e-8, atol=1e-9)
        print('the model\'s own samples %s scored with the sampled density on this tree' % ('ARE' if ok else 'ARE NOT'))
        return 0 if ok else 1
    model = inp.get('model', '')
    rev = {v: k for k, v in EM_TAG.items()}
    revp = {v: k for k, v in POP_TAG.items()}
    if model in rev and 'sigma' in inp:
        m = rev[model]
        em = em_classes(chi)[m]()
        yb = np.atleast_1d(np.array(inp['ybar'], float))
        sig = inp['sigma']
        n = inp.get('n_samples')
        if 'calls_on_one_generator' in inp:
            g = np.random.default_rng(inp['seed'])
            x = np.concatenate([np.asarray(em.sample(sig, yb, n_samples=n, seed=g), float)[0]
                                for _ in range(inp['calls_on_one_generator'])])
        else:
            x = np.asarray(em.sample(sig, yb, n_samples=n, seed=inp.get('seed')), float)[0]
        print('chi   : %d samples of the first output: mean %.6g, sd %.6g, min %.6g'
              % (len(x), float(np.mean(x)), float(np.std(x, ddof=1)), float(np.min(x))))
        if len(x) >= 1000 and len(yb) == 1:
            def lp(y):
                with np.errstate(all='ignore'):
                    return np.asarray(em.compute_pointwise_ll(sig, np.full(len(y), yb[0]), y), float)
            if m == 'LN':
                c = math.log(yb[0])
                r = law_check(x, lp, c - 12 * sig[0], c + 12 * sig[0], log_space=True, var_se=8.0)
            else:
                tot = {'G': sig[0], 'M': sig[0] * yb[0], 'CM': sig[0] + sig[-1] * yb[0]}[m]
                r = law_check(x, lp, yb[0] - 10 * tot, yb[0] + 10 * tot)
            print('scored: mean %.6g, sd %.6g;  KS distance %.4g (threshold %.4g)'
                  % (r['mean'][1], math.sqrt(r['var'][1]), r['ks'], r['ks_thr']))
            ok = r['ks_ok'] and r['var_ok'] and r['mean_ok']
            print('the sampled law %s the scored density on this tree' % ('MATCHES' if ok else 'DIFFERS FROM'))
            return 0 if ok else 1
        return 0
    if model in revp and 'parameters' in inp and 'n_dim' in inp:
        kind = revp[model]
        obj = build_elem(chi, kind, inp['n_dim'], 3)
        params = np.array(inp['parameters'], float)
        if 'calls_on_one_generator' in inp:
            g = np.random.default_rng(inp['seed'])
            x = np.concatenate([np.asarray(obj.sample(params, n_samples=inp['n_samples'], seed=g), float)
                                for _ in range(inp['calls_on_one_generator'])])
        else:
            x = np.asarray(obj.sample(params, n_samples=inp['n_samples'], seed=inp['seed']), float)
        print('chi   : %d samples; column means %s, sds %s, mins %s'
              % (len(x), np.mean(x, axis=0), np.std(x, axis=0, ddof=1), np.min(x, axis=0)))
        if hasattr(obj, 'get_mean_and_std'):
            print('chi   : get_mean_and_std', np.asarray(obj.get_mean_and_std(params)).tolist())
        if kind in ('Gc', 'Lc', 'T') and len(x) >= 1000:
            n_dim = inp['n_dim']
            mus, sds = params[:n_dim], params[n_dim:]
            ref = np.exp(mus) if kind == 'Lc' else (np.abs(mus) + 0.5 if kind == 'T' else mus.copy())
            ok = True
            for d in range(n_dim):
                lo, hi, logsp = elem_range(kind, mus[d], sds[d])
                r = law_check(x[:, d], pop_logpdf_1d(obj, params, d, ref), lo, hi, log_space=logsp,
                              normalise=True, var_se=8.0 if logsp else 6.5)
                okd = r['ks_ok'] and r['var_ok'] and r['mean_ok'] and (kind == 'Gc' or float(np.min(x[:, d])) >= 0)
                print('dim %d : scored mean %.6g, sd %.6g; KS distance %.4g (threshold %.4g); min %.4g -> %s'
                      % (d, r['mean'][1], math.sqrt(r['var'][1]), r['ks'], r['ks_thr'], float(np.min(x[:, d])),
                         'matches' if okd else 'DIFFERS'))
                ok = ok and okd
            return 0 if ok else 1
        return 0
    if model in ('LogNormalModel', 'TruncatedGaussianModel') and 'parameters' in inp:
        params = np.array(inp['parameters'], float)
        n_dim = len(params) // 2
        obj = chi.LogNormalModel(n_dim=n_dim) if model == 'LogNormalModel' else chi.TruncatedGaussianModel(n_dim=n_dim)
        c = call(lambda: obj.get_mean_and_std(params))
        mo = ctx.model('C06.moments', 'ln' if model == 'LogNormalModel' else 'tg',
                       list(map(float, params[:n_dim])), list(map(float, params[n_dim:])))[0]
        print('chi   : get_mean_and_std', as_rows(c) if not isinstance(c, str) else c)
        print('model :', mo)
        return 0 if core.close(as_rows(c) if not isinstance(c, str) else c, mo, 1e-8) else 1
    print('(composed / covariate input: re-run ./check C06 with VERIF_SEED=%s to reproduce)' % data.get('seed'))
    return 0
