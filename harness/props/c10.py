"""C10 — dosing regimens deliver the specified amounts at the specified times"""
import math
import os
import shutil
from fractions import Fraction

import numpy as np
import pandas as pd
from threadpoolctl import threadpool_limits

import core
import closedform as cf
import refsim
import sbmlgen
from props import c09

REQUIRED_THEOREMS = [
    'C10_event', 'C10_started_iff', 'C10_pace', 'C10_occ_delivered', 'C10_delivered',
    'C10_delivered_completed', 'C10_delivered_total', 'C10_delivered_rate', 'C10_table', 'C10_table_none', 'C10_table_all',
    'C10_table_rows_applied', 'C10_table_counterexample', 'C10_table_counterexample_start',
    'C10_dataset_rows', 'C10_dataset_row_amount', 'C10_multi_partial', 'C10_overlap_counterexample',
    'C10_surgery_direct', 'C10_surgery_indirect', 'C10_delivered_integral', 'paceStep_eq_pace',
    'C10_multi_nonoverlap', 'C10_dataset_delivery', 'C10_reduced_passthrough', 'C10_set_data_history', 'C10_averaged_passthrough',
    'C10_readministration', 'C10_frame_rows_own', 'C10_frame_relabel', 'C10_frame_regimens', 'C10_frame_by_label',
    'C10_frame_by_label_counterexample', 'C10_likelihood_regimen', 'C10_likelihood_own_irrelevant',
    'C10_dataset_likelihood_rows', 'C10_likelihood_skip_empty_counterexample',
    'C10_derived_set_own', 'C10_derived_set_frame', 'C10_derived_copy', 'C10_derived_wrap',
    'C10_derived_untouched_cell', 'C10_derived_untouched', 'C10_derived_last_set', 'C10_derived_keeps_source',
    'C10_derived_two_arms', 'C10_derived_shared_counterexample',
    'C10_resimulate_last_set', 'C10_resimulate_in_force', 'C10_resimulate_solve_pure', 'C10_resimulate_regimen_last',
    'C10_resimulate_memo_dropped', 'C10_resimulate_memo_counterexample']
RULE = ('regimens (dose, start, duration, period|None, num|None) with dyadic numbers (and the default 0.01 '
        'duration), single / finite / indefinite, incl. ill-formed ones (zero duration, duration > period, '
        'negative start, num without period); final times on every boundary (None, < start, = start, '
        '< period, exactly on a dose, between doses); explicit multi-event protocols; datasets with 1-3 '
        'individuals, interleaved dose / observation rows, missing durations, missing duration column, '
        'duplicate and overlapping dose times, individuals without dose rows, frames whose row labels repeat '
        '(glued pieces) or are out of order; the log-posteriors built from such datasets (one per requested '
        'individual, all built before any is evaluated; all individuals in one hierarchical log-posterior) on '
        'controllers whose model came with or without a regimen of its own; random programs of derivations from ONE '
        'mechanistic model object (copy, PredictiveModel with / without outputs / with fixed parameters, the problem '
        'controller and its predictive model, a predictive model of a predictive model\'s submodel, reduced / population / '
        'posterior / prior wrappers) interleaved with regimen choices through any of the objects, after which every '
        'object incl. the source is observed (dosing_regimen, table, events at the run behind sample, cumulative '
        'input); ONE object (library one-compartment or erlotinib model, either route, set / simulated through the '
        'model, a reduced model, or a predictive model\'s sample) given 2-4 regimens in turn (numbers or explicit '
        'protocols, sometimes the same again) and solved after each for exactly the same parameters and time grid; '
        'direct and indirect administration into the library model and '
        'generated compartment models; non-trivial = periodic regimen with non-zero start or a boundary final '
        'time; distinct = distinct (kind, start=0?, boundary class, route)')
ASSUMPTIONS = [
    'myokit pacing semantics (`pace`, `paceMulti`) is a definition of the Lean model, compared with '
    'myokit.PacingSystem on a grid on every run; myokit.Protocol / ProtocolEvent objects are the real ones',
    'what the ODE system does with the rate is checked end to end through harness/refsim.py against '
    'harness/closedform.py (piecewise-constant input, matrix exponentials): cumulative input with elimination '
    'switched off, depot mass balance, concentrations',
    'exact rational arithmetic in the model; harness inputs are dyadic so that chi\'s float arithmetic is '
    'exact wherever equality is demanded; amounts (rate x duration) are compared to 1e-12',
    'objects derived from one model object: which constructors copy (PKPDModel.copy, PredictiveModel, '
    'ProblemModellingController, get_predictive_model) and which wrap (ReducedMechanisticModel, Population- / '
    'Posterior- / PriorPredictiveModel) is an input of the Lean model `Heap` (cells own a regimen, handles point at '
    'cells), taken from the class documentation; the harness keeps the same bookkeeping from the numbers it passed',
    'renaming by add_component_allow_renaming / add_variable_allow_renaming is not modelled (names are read '
    'from the model chi built)']

TOL = 1e-6


def F(x):
    return Fraction(float(x))


def rat(pair):
    return Fraction(int(pair[0]), int(pair[1]))


def ev_tuple(e):
    return [float(e.level()), float(e.start()), float(e.duration()), float(e.period()), int(e.multiplier())]


def errk(e):
    k = core.errkind(e)
    return k


def model_event(mv):
    """driver reply of C10.event → comparable list (floats)"""
    if mv[0] != 'ok':
        return mv[:1]
    l, s, d, p, m = mv[1]
    return ['ok', [float(rat(l)), float(rat(s)), float(rat(d)), float(rat(p)), int(m)]]


# ------------------------------------------------------------------------------------------------
# generators
# ------------------------------------------------------------------------------------------------
def gen_regimen(rng, valid_only=False):
    dose = float(rng.integers(1, 33)) / 4
    start = float(rng.choice([0, 0, 0, 1, 2, 3, 4, 6, 10])) / 4
    duration = float(rng.choice([1, 2, 4, 8, 3, 6])) / 8
    kind = rng.choice(['single', 'finite', 'indefinite'], p=[0.3, 0.35, 0.35])
    period, num = None, None
    if kind != 'single':
        period = duration + float(rng.integers(0, 9)) / 8
        if kind == 'finite':
            num = int(rng.integers(1, 6))
    if not valid_only:
        r = rng.random()
        if r < 0.04:
            duration = 0.0
        elif r < 0.08 and period is not None:
            period = duration / 2
        elif r < 0.11:
            start = -0.25
        elif r < 0.14:
            period, num = None, 3           # num without a period: a single dose
        elif r < 0.17:
            period, num = 0.0, 2            # myokit refuses a multiplier without a period
        elif r < 0.20:
            duration = 0.01                 # chi's default bolus duration (not dyadic)
    return dict(dose=dose, start=start, duration=duration, period=period, num=num), str(kind)


def expected_event(reg):
    """the property, from the regimen numbers"""
    period = reg['period'] if reg['period'] is not None else 0.0
    num = reg['num'] if (reg['num'] is not None and reg['period'] is not None) else 0
    return [reg['dose'] / reg['duration'], reg['start'], reg['duration'], period, num]


def grid_for(reg, n_extra=0):
    p = reg['period'] or 0.0
    hi = reg['start'] + max(3.0, (p * 5 if p else 0) + 1.0)
    g = set(np.arange(0, int(hi * 16) + 1) / 16.0)
    return sorted(g)


def pacing_trace(protocol, grid):
    ps = __import__('myokit').PacingSystem(protocol)
    return [float(ps.advance(t)) for t in grid]


# ------------------------------------------------------------------------------------------------
# A/B: regimen → protocol → pace → delivered
# ------------------------------------------------------------------------------------------------
def front_door(chi, model, door, fixed_value=1.25):
    """the object through which the regimen is set: the PKPD model itself, a ReducedMechanisticModel around
    it, or one whose parameters were fixed BEFORE the regimen is set (as PredictiveModel.fix_parameters and
    the problem controller do)"""
    if door == 'model':
        return model
    red = chi.ReducedMechanisticModel(model)
    if door == 'reduced-fixed':
        red.fix_parameters({'central.size': fixed_value})
    return red


def check_regimen(ctx, model, reg, kind, route, i, chi=None, door='model'):
    inp = {'regimen': reg, 'kind': kind, 'route': route, 'set_through': door}
    nontriv = (kind != 'single' and reg['start'] > 0)
    ctx.case('regimen/' + kind, nontrivial='regimen/%s/start>0/%s' % (kind, route) if nontriv else False,
             sample=inp)
    margs = [reg['dose'], reg['start'], reg['duration'], reg['period'], reg['num']]
    mv = ctx.model('C10.event', *(margs if door == 'model' else ['reduced'] + margs))
    setter = front_door(chi, model, door)
    ctx.branches.add('set_through:' + door)
    refsim.clear_record()
    try:
        with np.errstate(all='ignore'):
            setter.set_dosing_regimen(**reg)
        proto = setter.dosing_regimen()
        if model.dosing_regimen() is None or proto.code() != model.dosing_regimen().code():
            raise AssertionError('wrapper and wrapped model report different regimens')
        evs = [ev_tuple(e) for e in proto.events()]
        co = ['ok', evs[0]] if len(evs) == 1 else ['ok', evs]
    except Exception as e:  # noqa
        co = [errk(e)]
        ctx.errkinds.add(co[0])
        proto = None
    ctx.agree('C10.event', co, model_event(mv), inp, rtol=1e-12)
    ctx.branches.add('event:' + co[0])
    # is the request well-formed at all?  (the property speaks about regimens that can be scheduled)
    wellformed = (reg['duration'] > 0 and reg['start'] >= 0 and
                  (reg['period'] is None or (reg['period'] >= reg['duration'])) and
                  not (reg['period'] == 0 and reg['num']))
    if not wellformed:
        ctx.spec('C10.rate', co[0] != 'ok' or reg['period'] == 0, inp, co)
        return None
    want = expected_event(reg)
    ctx.spec('C10.rate', co[0] == 'ok' and core.close(co[1], want, 1e-12), inp, {'event': co, 'expected': want})
    if co[0] != 'ok':
        return None
    # the protocol is what the simulator holds
    attached = [r for r in refsim.RECORD if r[1] == 'set_protocol']
    ctx.spec('C10.protocol_attached', bool(attached) and attached[-1][2] == proto.code(), inp,
             {'set_protocol': attached[-1][2] if attached else None})
    # pace on a grid: myokit's pacing system vs the model vs the regimen numbers
    grid = grid_for(reg)
    trace = pacing_trace(proto, grid)
    mp = ctx.model('C10.pace', co[1], grid)
    ctx.agree('C10.pace', trace, [float(rat(x)) for x in mp[0]], inp, rtol=0.0)
    sched = cf.schedule(reg['dose'], reg['start'], reg['duration'], reg['period'], reg['num'], grid[-1] + 1)
    want_pace = [next((r for a, b, r in sched if a <= t < b), 0.0) for t in grid]
    ctx.spec('C10.pace', core.close(trace, want_pace, 1e-12), inp, {'pacing': trace, 'expected': want_pace})
    # the model's cumulative input against the oracle's (model sanity, no chi involved)
    want_del = [cf.delivered(sched, t) for t in grid]
    if not core.close([float(rat(x)) for x in mp[1]], want_del, 1e-9):
        ctx.notes.append('model delivered differs from oracle for %r' % (reg,))
        ctx.agree('C10.model_delivered_vs_oracle', want_del, [float(rat(x)) for x in mp[1]], inp)
    return co[1], proto


# ------------------------------------------------------------------------------------------------
# C: end to end through the reference integrator
# ------------------------------------------------------------------------------------------------
def lib_vector(model, values):
    return [values[n] for n in model.parameters()]


def check_simulated(ctx, chi, models, reg, kind, direct, rng, door='model'):
    """library one-compartment model: cumulative input (ke = 0) and concentrations (ke > 0)"""
    model = models[direct]
    route = 'direct' if direct else 'indirect'
    inp = {'regimen': reg, 'route': route, 'set_through': door}
    V = float(rng.uniform(0.5, 2.0))
    model.set_dosing_regimen(1.0)                       # something else first: the wrapper must replace it
    sim_obj = front_door(chi, model, door, V)
    sim_obj.set_dosing_regimen(**reg)
    ev = ev_tuple(model.dosing_regimen().events()[0])
    p = reg['period'] or 0.0
    t_end = reg['start'] + (3 * p if p else 0) + reg['duration'] + 0.5
    times = sorted(set([0.0, reg['start'], reg['start'] + reg['duration'] / 2, reg['start'] + reg['duration'],
                        reg['start'] + p + reg['duration'] / 4, t_end / 2, t_end]))
    times = [float(t) for t in times]
    ka = float(rng.uniform(0.5, 2.0))
    sched = cf.schedule(reg['dose'], reg['start'], reg['duration'], reg['period'], reg['num'], times[-1] + 1)
    lm = cf.one_compartment_documented(depot=not direct)
    outs = ['A'] if direct else ['A', 'Ad']
    ctx.case('simulate/' + route, nontrivial='simulate/%s/%s' % (route, kind), sample=inp)
    for ke, tag in ((0.0, 'C10.cumulative_input/' + route), (float(rng.uniform(0.3, 1.5)), 'C10.simulated_values')):
        vals = {'central.drug_amount': 0.0, 'dose.drug_amount': 0.0, 'central.size': V,
                'dose.absorption_rate': ka, 'global.elimination_rate': ke}
        refsim.clear_record()
        vec = [vals[n] for n in sim_obj.parameters()]      # the reduced model takes the free parameters only
        res = np.asarray(sim_obj.simulate(vec, times))
        run = [r for r in refsim.RECORD if r[1] == 'run'][-1][2]
        ctx.spec('C10.protocol_attached', run['protocol'] == model.dosing_regimen().code(), inp,
                 {'protocol at run': run['protocol']})
        ov, _ = lm.solve({'A': 0.0, 'Ad': 0.0}, {'ke': ke, 'V': V, 'ka': ka}, times, [], outs, sched)
        err = cf.rel_err(res, ov, 1e-3)
        rv = ctx.extra['refsim_validation']
        rv['comparisons'] += 1
        if err < 1e-3:
            rv['max_rel_err'] = max(rv['max_rel_err'], err)
        if ke == 0.0:
            total = res.sum(axis=0)                      # A (+ A_d): everything that has entered
            want = [cf.delivered(sched, t) for t in times]
            md = ctx.model('C10.pace', ev, times)[1]
            ctx.agree('C10.cumulative_input', list(total), [float(rat(x)) for x in md], inp, rtol=TOL, atol=1e-9)
            ctx.spec(tag, core.close(list(total), want, TOL, 1e-9), dict(inp, times=times),
                     {'simulated': total, 'sum of doses delivered': want})
            if not direct:
                ctx.spec('C10.depot_dynamics', err <= TOL, dict(inp, times=times, ka=ka),
                         {'chi': res, 'oracle': ov})
        else:
            ctx.spec(tag, err <= TOL, dict(inp, times=times, ke=ke, V=V, ka=ka), {'chi': res, 'oracle': ov,
                                                                                    'rel_err': err})
    # the regimen must survive every way of (re-)building the solver: sensitivities switched on,
    # re-selected while on (as ReducedMechanisticModel.fix_parameters does), switched off again
    names = model.parameters()
    steps = [('enable', lambda: model.enable_sensitivities(True)),
             ('re-enable with selection', lambda: model.enable_sensitivities(True, names[-1:])),
             ('re-enable all', lambda: model.enable_sensitivities(True)),
             ('disable', lambda: model.enable_sensitivities(False))]
    vals = {'central.drug_amount': 0.0, 'dose.drug_amount': 0.0, 'central.size': V,
            'dose.absorption_rate': ka, 'global.elimination_rate': 0.0}
    want = [cf.delivered(sched, t) for t in times]
    done = []
    for name, step in steps:
        done.append(name)
        try:
            step()
            refsim.clear_record()
            out = model.simulate(lib_vector(model, vals), times)
            res = np.asarray(out[0] if isinstance(out, tuple) else out)
            run = [r for r in refsim.RECORD if r[1] == 'run'][-1][2]
            ok = run['protocol'] == model.dosing_regimen().code() and \
                core.close(list(res.sum(axis=0)), want, TOL, 1e-9)
            ctx.spec('C10.protocol_attached/after_sensitivity_switching', ok, dict(inp, steps=list(done)),
                     {'protocol at run': run['protocol'], 'reported': model.dosing_regimen().code(),
                      'cumulative input': res.sum(axis=0), 'scheduled': want})
        except Exception as e:  # noqa
            ctx.spec('C10.protocol_attached/after_sensitivity_switching', False, dict(inp, steps=list(done)),
                     {'raised': repr(e)[:200]})
    model.enable_sensitivities(False)
    # generalisation: a random history of every call that rebuilds or replaces the solver — the regimen set
    # before it must still be what the simulated system receives (and what dosing_regimen() reports)
    hist = []
    cur = model
    try:
        for _ in range(int(rng.integers(2, 6))):
            r = rng.random()
            if r < 0.2:
                cur.enable_sensitivities(True)
                hist.append('enable')
            elif r < 0.35:
                cur.enable_sensitivities(True, names[:1])
                hist.append('enable(selection)')
            elif r < 0.5:
                cur.enable_sensitivities(False)
                hist.append('disable')
            elif r < 0.65:
                cur = cur.copy()
                hist.append('copy')
            elif r < 0.8:
                cur.set_outputs(list(cur.outputs()))
                hist.append('set_outputs')
            else:
                cur.set_administration('central', direct=direct)
                hist.append('set_administration(same route)')
        use_reduced = bool(rng.random() < 0.4)
        sim = cur
        vec = lib_vector(cur, vals)
        if use_reduced:
            sim = chi.ReducedMechanisticModel(cur)
            sim.enable_sensitivities(True)
            sim.fix_parameters({'central.size': V})          # re-enables for the free parameters
            hist.append('reduced: enable, then fix central.size')
            vec = [v for n, v in zip(cur.parameters(), vec) if n != 'central.size']
        refsim.clear_record()
        out = sim.simulate(vec, times)
        res = np.asarray(out[0] if isinstance(out, tuple) else out)
        run = [r_ for r_ in refsim.RECORD if r_[1] == 'run'][-1][2]
        reported = cur.dosing_regimen()
        ok = reported is not None and run['protocol'] == reported.code() and \
            [ev_tuple(e) for e in reported.events()] == [ev] and \
            core.close(list(res.sum(axis=0)), want, TOL, 1e-9)
        ctx.spec('C10.protocol_attached/after_history', ok, dict(inp, history=hist),
                 {'protocol at run': run['protocol'], 'reported': None if reported is None else reported.code(),
                  'cumulative input': res.sum(axis=0), 'scheduled': want})
        ctx.case('history/' + route, nontrivial='history/%s/%s' % (route, '+'.join(sorted(set(hist)))))
    except Exception as e:  # noqa
        ctx.spec('C10.protocol_attached/after_history', False, dict(inp, history=hist), {'raised': repr(e)[:300]})
    models[direct] = cur
    cur.enable_sensitivities(False)


def check_generated_dosing(ctx, chi, i, rng):
    """a generated compartment model, dosed directly / through a depot into a random species"""
    spec = sbmlgen.gen_spec(rng, max_states=4, one_compartment=bool(i % 2 == 0))
    species = [s for s in spec['states'] if s['kind'] == 'species']
    if not species:
        return
    path = os.path.join(c09.tmpdir(), 'd%d.xml' % i)
    sbmlgen.write_sbml(spec, path)
    refsim.clear_record()
    model = chi.PKPDModel(path)
    os.remove(path)
    vanilla = refsim.MODELS[[r for r in refsim.RECORD if r[1] == 'new'][-1][0]]
    # a history of routes: each call starts from the model file again, so only the last one counts — also when
    # only the dosed variable changes (same compartment, same direct / indirect flag)
    calls = []
    for k_ in range(int(rng.integers(1, 4))):
        if calls and rng.random() < 0.7:
            prev_s, prev_d = calls[-1]
            same = [x for x in species if x['comp'] == prev_s['comp'] and x['id'] != prev_s['id']]
            s, direct = (same[int(rng.integers(len(same)))], prev_d) if same else \
                (species[int(rng.integers(len(species)))], bool(rng.random() < 0.5))
            if same:
                ctx.branches.add('administration:only-amount_var-changed')
        else:
            s, direct = species[int(rng.integers(len(species)))], bool(rng.random() < 0.5)
        calls.append((s, direct))
        check_surgery(ctx, model, vanilla, s['comp'], s['id'] + '_amount', direct,
                      {'spec': spec, 'dosed': s['id'], 'direct': direct,
                       'administration calls': [(c[0]['comp'], c[0]['id'] + '_amount', c[1]) for c in calls]})
    reg, kind = gen_regimen(rng, valid_only=True)
    model.set_dosing_regimen(**reg)
    inp = {'spec': spec, 'dosed': s['id'], 'direct': direct, 'regimen': reg}
    ctx.case('simulate/generated', nontrivial='simulate/generated/%s/%s' % (direct, kind), sample=None)
    lm = sbmlgen.closed_form(spec)
    st, co, outs = sbmlgen.name_maps(spec)
    if direct:
        lm.dosed = s['id']
    else:
        lm.states.append('__depot')
        lm.rhs['__depot'] = cf.LinForm().add(cf.Mono(-1.0, {'__ka': 1}), '__depot')
        lm.rhs[s['id']].add(cf.Mono(1.0, {'__ka': 1}), '__depot')
        lm.outputs[('state', '__depot')] = cf.LinForm().add(cf.Mono(1.0), '__depot')
        lm.dosed = '__depot'
        st['dose.drug_amount'] = '__depot'
        co['dose.absorption_rate'] = '__ka'
        outs['dose.drug_amount'] = ('state', '__depot')
    names = model.parameters()
    params = rng.uniform(0.3, 1.5, len(names))
    by = dict(zip(names, params))
    p = reg['period'] or 0.0
    t_end = reg['start'] + (2 * p if p else 0) + reg['duration'] + 0.5
    times = [float(t) for t in sorted(set([reg['start'] + reg['duration'] / 2, reg['start'] + reg['duration'],
                                           t_end / 2, t_end]))]
    res = np.asarray(model.simulate(params, times))
    sched = cf.schedule(reg['dose'], reg['start'], reg['duration'], reg['period'], reg['num'], times[-1] + 1)
    ov, _ = lm.solve({st[n]: v for n, v in by.items() if n in st}, {co[n]: v for n, v in by.items() if n in co},
                     times, [], [outs[o] for o in model.outputs()], sched)
    err = cf.rel_err(res, ov, 1e-3)
    ctx.extra['refsim_validation']['comparisons'] += 1
    ctx.spec('C10.simulated_values', err <= TOL, dict(inp, parameters=params, times=times),
             {'chi': res, 'oracle': ov, 'rel_err': err})


# ------------------------------------------------------------------------------------------------
# F: the two surgeries, structurally
# ------------------------------------------------------------------------------------------------
def render(e, old_code):
    import myokit
    if old_code is not None and e.code() == old_code:
        return '$old'
    if isinstance(e, myokit.Plus):
        return '(+,%s,%s)' % (render(e[0], old_code), render(e[1], old_code))
    if isinstance(e, myokit.Multiply):
        return '(*,%s,%s)' % (render(e[0], old_code), render(e[1], old_code))
    if isinstance(e, myokit.PrefixMinus):
        return '(-,%s)' % render(e[0], old_code)
    if isinstance(e, myokit.Name):
        return e.var().qname()
    return '<%s>' % e.code()


def check_surgery(ctx, model, vanilla, comp, amount_var, direct, inp):
    import myokit
    route = 'direct' if direct else 'indirect'
    tag = 'C10.surgery/' + route
    amount = comp + '.' + amount_var
    refsim.clear_record()
    model.set_administration(comp, amount_var=amount_var, direct=direct)
    built = [r for r in refsim.RECORD if r[1] == 'new']
    if not built:
        # no solver was built: the model chi simulates is still the one of the previous route
        ctx.spec(tag, False, inp, {'set_administration': 'did not build a new solver for this route',
                                   'administration()': model.administration()})
        return
    sid, _, new = built[-1]
    m = refsim.MODELS[sid]
    old = vanilla.get(amount).rhs()
    rate = new['pace']
    depot, ka = 'dose.drug_amount', 'dose.absorption_rate'
    ms = ctx.model('C10.surgery', amount, depot, ka, rate or 'none', direct)
    chi_side = [render(m.get(amount).rhs(), old.code()),
                render(m.get(depot).rhs(), None) if m.has_variable(depot) else None,
                rate, m.count_states()]
    want_states = vanilla.count_states() + (0 if direct else 1)
    ctx.agree('C10.surgery', chi_side, [ms[0], ms[1], ms[2], vanilla.count_states() - 1 + ms[3]], inp)
    ctx.case('surgery/' + route, nontrivial='surgery/%s/%d' % (route, vanilla.count_states()))
    # the property, numerically on the expressions: rates of change at a random state
    rng = np.random.default_rng(abs(hash(amount)) % (2 ** 32))
    ok = rate is not None and m.count_states() == want_states
    detail = {}
    if ok:
        sub = {}
        for v in m.states():
            sub[myokit.Name(v)] = float(rng.uniform(0.2, 2.0))
        pace = float(rng.uniform(0.5, 3.0))
        sub[myokit.Name(m.get(rate))] = pace
        sub_old = {myokit.Name(vanilla.get(v.qname())): x for v, x in
                   [(k.var(), val) for k, val in sub.items()] if vanilla.has_variable(v.qname())}
        new_a = float(m.get(amount).rhs().eval(subst=sub))
        old_a = float(old.eval(subst=sub_old))
        if direct:
            ok = abs(new_a - (old_a + pace)) <= 1e-9 * max(1.0, abs(new_a))
            detail = {'new': new_a, 'old+rate': old_a + pace}
        else:
            kav = float(m.get(ka).rhs().eval())
            ad = sub[myokit.Name(m.get(depot))]
            new_d = float(m.get(depot).rhs().eval(subst=sub))
            ok = (abs(new_a - (old_a + kav * ad)) <= 1e-9 * max(1.0, abs(new_a)) and
                  abs(new_d - (-kav * ad + pace)) <= 1e-9 * max(1.0, abs(new_d)) and
                  m.get(ka).is_literal())
            detail = {'dosed': new_a, 'old+ka*Ad': old_a + kav * ad, 'depot': new_d, '-ka*Ad+rate': -kav * ad + pace}
        # every other equation unchanged
        for v in vanilla.states():
            if v.qname() != amount and m.get(v.qname()).rhs().code() != v.rhs().code():
                ok = False
                detail['changed'] = v.qname()
    ctx.spec(tag, ok, inp, detail)


# ------------------------------------------------------------------------------------------------
# D: regimen table
# ------------------------------------------------------------------------------------------------
def table_of(df):
    if df is None:
        return None
    return [[float(a), float(b), float(c)] for a, b, c in
            zip(df['Time'].to_numpy(), df['Duration'].to_numpy(), df['Dose'].to_numpy())]


def model_table(mv):
    if mv[0] is None:
        return None
    return [[float(rat(a)), float(rat(b)), float(rat(c))] for a, b, c in mv[0]]


def expected_table(regs, T):
    """rows the property demands: every dose of every regimen that starts at or before T"""
    rows = []
    for reg in regs:
        p = reg['period']
        if not p:
            if T is None or reg['start'] <= T:
                rows.append([reg['start'], reg['duration'], reg['dose']])
            continue
        k = 0
        while True:
            if reg['num'] and k >= reg['num']:
                break
            t = reg['start'] + k * p
            if T is None:
                if not reg['num'] and k >= 1:
                    break                  # documented: only the first dose of an indefinite regimen
            elif t > T:
                break
            rows.append([t, reg['duration'], reg['dose']])
            k += 1
    return rows or None


def final_times(reg, rng):
    p = reg['period'] or 0.0
    s = reg['start']
    cands = [None, s, s + p / 2 if p else s + 0.125, s + p, s + 2 * p + reg['duration'] / 2, s + 2.5 * p]
    if s > 0:
        cands.append(s / 2)                     # before the first dose
    if p:
        cands.append(p / 2)                     # shorter than one period
        cands.append(s + 3 * p)                 # exactly on a dose
    cands.append(float(rng.integers(0, 80)) / 8)
    return cands


def boundary_class(reg, T):
    if T is None:
        return 'None'
    p = reg['period'] or 0.0
    if T < reg['start']:
        return 'T<start'
    if p and T < p:
        return 'T<period'
    if p and ((T - reg['start']) / p) == int((T - reg['start']) / p):
        return 'dose-at-T'
    if T == reg['start']:
        return 'dose-at-T'
    return 'between'


def check_table(ctx, pm, events, regs, kind, rng, inp0):
    for T in final_times(regs[0], rng):
        inp = dict(inp0, final_time=T)
        bc = boundary_class(regs[0], T)
        ctx.case('table/' + kind, nontrivial='table/%s/%s/start0=%s' % (kind, bc, regs[0]['start'] == 0),
                 sample=inp)
        try:
            ct = table_of(pm.get_dosing_regimen(T))
        except Exception as e:  # noqa
            ct = errk(e)
        mt = model_table(ctx.model('C10.table', False, events, T))
        ctx.agree('C10.table', ct, mt, inp, rtol=1e-12)
        want = expected_table(regs, T)
        ok = core.close(ct, want, 1e-12) if (ct is not None and want is not None) else (ct is None and want is None)
        detail = {'table': ct, 'doses applied up to final_time': want}
        if not ok:
            legacy = model_table(ctx.model('C10.table', True, events, T))
            detail['matches_legacy_count'] = (legacy == ct)
        ctx.spec('C10.table', ok, inp, detail)


# ------------------------------------------------------------------------------------------------
# E: dataset rows
# ------------------------------------------------------------------------------------------------
def gen_dataset(rng, output):
    n_ids = int(rng.integers(1, 4))
    rows = []
    with_duration = bool(rng.random() < 0.7)
    mode = rng.random()
    for k in range(n_ids):
        label = k + 1
        n_dose = int(rng.integers(0, 5))
        times = rng.choice(np.arange(0, 41) / 4.0, size=n_dose, replace=bool(mode < 0.08))
        for t in times:
            dur = float(rng.choice([1, 2, 4, 8, 16, 32])) / 16 if rng.random() < 0.6 else np.nan
            dose = float(rng.integers(1, 33)) / 4
            tt = float(t) if rng.random() > 0.05 else np.nan
            rows.append({'ID': label, 'Time': tt, 'Observable': np.nan, 'Value': np.nan,
                         'Dose': dose if rng.random() > 0.05 else np.nan, 'Duration': dur})
        for _ in range(int(rng.integers(1, 4))):
            rows.append({'ID': label, 'Time': float(rng.integers(0, 40)) / 4, 'Observable': output,
                         'Value': float(rng.uniform(0.1, 2)), 'Dose': np.nan, 'Duration': np.nan})
    order = rng.permutation(len(rows))
    df = pd.DataFrame([rows[int(i)] for i in order])
    if not with_duration:
        df = df.drop(columns=['Duration'])
    # the row labels of the frame: 0..n-1, or labels that repeat (a frame glued from per-individual pieces with
    # pandas.concat, a frame indexed by something that is not unique) — they say nothing about who was dosed
    r = rng.random()
    if r < 0.2:
        df.index = df.groupby('ID').cumcount().to_numpy()          # every individual's block counts 0, 1, 2, ...
    elif r < 0.35:
        df.index = rng.integers(0, 3, len(df))
    elif r < 0.42:
        df.index = ['row'] * len(df)
    elif r < 0.5:
        df.index = rng.permutation(len(df))                         # unique, but not in order
    return df, with_duration


def opt(x):
    return None if (x is None or (isinstance(x, float) and math.isnan(x))) else float(x)


def frame_inp(df):
    return {'dataset': df.to_dict('list'), 'row labels': [str(x) for x in df.index]}


def frame_rows(df, with_duration):
    """the whole frame for the model: [row label (as a number: only equality of labels matters), ID, time, dose,
    duration], in frame order"""
    codes = {}
    rows = []
    for lab, (_, r) in zip(df.index, df.iterrows()):
        rows.append([codes.setdefault(lab, len(codes)), str(r['ID']), opt(r['Time']), opt(r['Dose']),
                     opt(r['Duration']) if with_duration else None])
    return rows


def model_regimens(mv):
    """driver reply of C10.frame / C10.setdata -> sorted [[id, events]] (floats), None, or the error kind"""
    if mv[0] != 'ok':
        return mv[0]
    if mv[1] is None:
        return None
    return sorted([lab, [[float(rat(a)), float(rat(b)), float(rat(c)), float(rat(d)), int(k_)]
                         for a, b, c, d, k_ in evs]] for lab, evs in mv[1])


def own_rows(df, label, with_duration):
    """the dose columns of the rows that carry the individual's ID (the harness's own selection)"""
    sub = df[(df['ID'].astype(str) == str(label)).to_numpy()]
    return [[opt(t), opt(a), opt(d) if with_duration else None] for t, a, d in
            zip(sub['Time'].tolist(), sub['Dose'].tolist(),
                sub['Duration'].tolist() if with_duration else [None] * len(sub))]


def events_of_rows(rows):
    """the property: one event per dose row, (dose / duration, time, duration), duration missing => 0.01"""
    return sorted([[a / (d if d is not None else 0.01), t, (d if d is not None else 0.01), 0.0, 0]
                   for t, a, d in rows if t is not None and a is not None], key=lambda r: r[1])


def check_dataset(ctx, chi, controller, df, with_duration, inp):
    ctx.case('dataset/%s' % ('duration' if with_duration else 'no-duration-column'),
             nontrivial='dataset/%d/%s' % (df['ID'].nunique(), with_duration), sample=inp)
    try:
        with np.errstate(all='ignore'):
            if with_duration:
                controller.set_data(df)
            else:
                controller.set_data(df, dose_duration_key=None)
        regs = controller.get_dosing_regimens()
        built = 'ok'
    except Exception as e:  # noqa
        built = errk(e)
        ctx.errkinds.add(built)
        regs = None
    all_ok = True
    model_err = None
    for label in pd.unique(df['ID']):
        sub = df[df['ID'] == label]
        rows = [[opt(r['Time']), opt(r['Dose']), opt(r['Duration']) if with_duration else None]
                for _, r in sub.iterrows()]
        mv = ctx.model('C10.rows', 0.01, rows)
        if mv[0] != 'ok':
            model_err = mv[0]
            continue
        mev = [[float(rat(a)), float(rat(b)), float(rat(c)), float(rat(d)), int(m)] for a, b, c, d, m in mv[1]]
        if regs is None:
            continue
        cev = [ev_tuple(e) for e in regs[str(label)].events()]
        ctx.agree('C10.dataset_rows', cev, mev, dict(inp, individual=label), rtol=1e-12)
        # the property: one event per dose row, (dose/duration, time, duration), duration missing => 0.01
        want = sorted([[a / (d if d is not None else 0.01), t, (d if d is not None else 0.01), 0.0, 0]
                       for t, a, d in rows if t is not None and a is not None], key=lambda r: r[1])
        ok = core.close(cev, want, 1e-12)
        all_ok = all_ok and ok
        ctx.spec('C10.dataset_rows', ok, dict(inp, individual=label), {'events': cev, 'dose rows': want})
        if cev and len({e[1] for e in cev}) == len(cev):
            grid = [k_ / 16.0 for k_ in range(int((max(e[1] + e[2] for e in cev) + 0.5) * 16) + 1)]
            mm = ctx.model('C10.pacemulti', cev, grid)
            ctx.agree('C10.pacemulti', pacing_trace(regs[str(label)], grid), [float(rat(x)) for x in mm[0]],
                      dict(inp, individual=label), rtol=0.0)
        # overlapping rows lose input (myokit lets the later event overrule the earlier one)
        if ok and len(want) > 1:
            overlap = any(want[j][1] + want[j][2] > want[j + 1][1] for j in range(len(want) - 1))
            if overlap and ctx.extra.setdefault('overlap_rows_checked', 0) < 25:
                # (Ctx keeps at most 200 failing records; the pacing of every such protocol is still compared
                # with the model above)
                ctx.extra['overlap_rows_checked'] += 1
                check_overlap(ctx, regs[str(label)], want, dict(inp, individual=label))
    if regs is None:
        ctx.agree('C10.dataset_build', built, model_err, inp)
    else:
        ctx.agree('C10.dataset_build', built, model_err or 'ok', inp)
    # the whole frame at once, with its row labels: who the individuals are and which rows are theirs is part of
    # what is compared (above the harness selects every individual's rows itself)
    mf = model_regimens(ctx.model('C10.frame', 0.01, frame_rows(df, with_duration)))
    got = built if regs is None else sorted([str(k), [ev_tuple(e) for e in v.events()]] for k, v in regs.items())
    ctx.agree('C10.frame_regimens', got, mf, inp, rtol=1e-12)
    ctx.branches.add('frame:row-labels-%s' % ('unique' if df.index.is_unique else 'repeat'))


def check_dataset_sequence(ctx, chi, lib, rng, output):
    """several set_data calls on ONE controller — with a dose column, without a duration column, without any
    dose information, other individuals: the regimens must be those of the last dataset alone"""
    dosing = bool(rng.random() < 0.8)
    if dosing:
        m = lib.one_compartment_pk_model()
        m.set_administration('central', direct=bool(rng.random() < 0.5))
        out = output
    else:
        m = lib.tumour_growth_inhibition_model_koch()          # an SBMLModel: no dosing support at all
        out = 'global.tumour_volume'
    controller = chi.ProblemModellingController(m, [chi.GaussianErrorModel()])
    seq, kinds = [], []
    for step in range(int(rng.integers(2, 5))):
        while True:
            df, with_duration = gen_dataset(rng, out)
            dose_rows = df.dropna(subset=['Dose', 'Time'])
            if not dose_rows.duplicated(subset=['ID', 'Time']).any():
                break
        if rng.random() < 0.5:
            df['ID'] = df['ID'] + int(rng.integers(0, 3))          # other individuals than before
        kind = ['dose+duration' if with_duration else 'dose', 'no-dose-information'][int(rng.random() < 0.4)]
        if kind == 'no-dose-information':
            controller.set_data(df.drop(columns=[c for c in ('Dose', 'Duration') if c in df.columns]),
                                dose_key=None, dose_duration_key=None)
        elif with_duration:
            controller.set_data(df)
        else:
            controller.set_data(df, dose_duration_key=None)
        kinds.append(kind)
        inds = None
        if kind != 'no-dose-information' and dosing:
            inds = []
            for label in pd.unique(df['ID'].astype(str)):
                sub = df[df['ID'].astype(str) == label]
                inds.append([str(label), [[opt(r['Time']), opt(r['Dose']), opt(r['Duration']) if with_duration else None]
                                          for _, r in sub.iterrows()]])
        seq.append(inds)
        regs = controller.get_dosing_regimens()
        got = None if regs is None else sorted([str(k), [ev_tuple(e) for e in v.events()]] for k, v in regs.items())
        inp = {'set_data calls': kinds, 'model supports dosing': dosing, 'last dataset': frame_inp(df)}
        mv = ctx.model('C10.setdata', 0.01, seq)
        mm = None if mv[1] is None else sorted(
            [lab, [[float(rat(a)), float(rat(b)), float(rat(c)), float(rat(d)), int(k_)] for a, b, c, d, k_ in evs]]
            for lab, evs in mv[1])
        ctx.agree('C10.set_data_sequence', got, mm, inp, rtol=1e-12)
        # the property, from the last dataset alone
        if inds is None:
            want = None
        else:
            want = sorted([lab, sorted([[a / (d if d is not None else 0.01), t, (d if d is not None else 0.01), 0.0, 0]
                                        for t, a, d in rows if t is not None and a is not None], key=lambda r: r[1])]
                          for lab, rows in inds)
        ok = (got is None and want is None) or (got is not None and want is not None and core.close(got, want, 1e-12))
        ctx.spec('C10.dataset_rows/after_earlier_set_data', ok, inp,
                 {'get_dosing_regimens()': got, 'dose rows of the last dataset': want})
    ctx.case('dataset/sequence', nontrivial='dataset/sequence/%s/%s' % (dosing, '>'.join(k[:2] for k in kinds)))


def protocol_events(code):
    """the dose events of a protocol the (substitute) simulator held when it was run; no protocol = no events"""
    import myokit
    if code is None:
        return []
    return [ev_tuple(e) for e in myokit.parse_protocol(code).events()]


def gaussian_reference_score(direct, rows, times, values, vals):
    """the documented model, by hand: one-compartment kinetics driven by the individual's dose rows (closed form,
    harness/closedform.py), concentration = amount / volume, independent Gaussian errors"""
    order = np.argsort(np.asarray(times, float), kind='stable')
    ts = [float(times[k]) for k in order]
    xs = np.array([float(values[k]) for k in order])
    sched = sorted((t, t + (d if d is not None else 0.01), a / (d if d is not None else 0.01))
                   for t, a, d in rows if t is not None and a is not None)
    lm = cf.one_compartment_documented(depot=not direct)
    ov, _ = lm.solve({'A': vals['central.drug_amount'], 'Ad': vals.get('dose.drug_amount', 0.0)},
                     {'ke': vals['global.elimination_rate'], 'V': vals['central.size'],
                      'ka': vals.get('dose.absorption_rate', 1.0)}, ts, [], ['C'], sched)
    sigma = vals['Sigma']
    return float(np.sum(-0.5 * np.log(2 * np.pi) - np.log(sigma) - (xs - ov[0]) ** 2 / (2 * sigma ** 2)))


def rows_overlap(rows):
    ev = events_of_rows(rows)
    return any(ev[j][1] + ev[j][2] > ev[j + 1][1] for j in range(len(ev) - 1))


def check_dataset_likelihoods(ctx, chi, lib, rng, output):
    """the regimens derived from a dataset, where they are used: every individual's log-likelihood inside the
    log-posteriors of the controller must simulate exactly that individual's dose rows — no events for an
    individual without dose rows (a control), whatever regimen the controller's model was created with, whoever
    was handled before, in whatever order the log-posteriors are requested and evaluated"""
    import pints
    direct = bool(rng.random() < 0.5)
    m = lib.one_compartment_pk_model()
    m.set_administration('central', direct=direct)
    own = None
    r = rng.random()
    if r < 0.35:
        own, _ = gen_regimen(rng, valid_only=True)
        m.set_dosing_regimen(**own)
    elif r < 0.5:
        own = {'dose': 64.0, 'start': 0.0, 'duration': 0.125, 'period': 0.5, 'num': None}   # hard to overlook
        m.set_dosing_regimen(**own)
    own_events = None if own is None else [ev_tuple(e) for e in m.dosing_regimen().events()]
    controller = chi.ProblemModellingController(m, [chi.GaussianErrorModel()])
    while True:
        df, with_duration = gen_dataset(rng, output)
        dose_rows = df.dropna(subset=['Dose', 'Time'])
        if not dose_rows.duplicated(subset=['ID', 'Time']).any():
            break
    dose_info = bool(rng.random() < 0.88)
    if not dose_info:
        controller.set_data(df.drop(columns=[c for c in ('Dose', 'Duration') if c in df.columns]),
                            dose_key=None, dose_duration_key=None)
    elif with_duration:
        controller.set_data(df)
    else:
        controller.set_data(df, dose_duration_key=None)
    ids = [str(x) for x in pd.unique(df['ID'])]
    rows = {i: own_rows(df, i, with_duration) for i in ids}
    want = {i: events_of_rows(rows[i]) for i in ids}
    obs = {}
    for i in ids:
        sub = df[((df['ID'].astype(str) == i) & df['Value'].notnull() & df['Time'].notnull()).to_numpy()]
        obs[i] = (sub['Time'].tolist(), sub['Value'].tolist())
    names = list(controller.get_parameter_names())
    vals = {'central.drug_amount': float(rng.uniform(0, 2)), 'dose.drug_amount': float(rng.uniform(0, 2)),
            'central.size': float(rng.uniform(0.5, 2)), 'dose.absorption_rate': float(rng.uniform(0.5, 2)),
            'global.elimination_rate': float(rng.uniform(0.3, 1.5)), 'Sigma': float(rng.uniform(0.3, 1.5))}
    theta = [vals[n] for n in names]
    inp0 = dict(frame_inp(df), route='direct' if direct else 'indirect', parameters=dict(zip(names, theta)))
    inp0['regimen of the model handed to the controller'] = own
    inp0['dose columns'] = ('none' if not dose_info else 'dose+duration' if with_duration else 'dose')
    untreated = [i for i in ids if not want[i]]
    ctx.case('dataset/log_posterior', nontrivial='dataset/log_posterior/%s/own=%s/untreated=%s/%s' % (
        inp0['dose columns'], own is not None, 'none' if not untreated else
        'first' if untreated == ids[:1] else 'later', 'unique' if df.index.is_unique else 'repeat'), sample=inp0)
    # the model: regimens of the frame, then the state of the working copy individual by individual
    mregs = None
    if dose_info:
        mregs = model_regimens(ctx.model('C10.frame', 0.01, frame_rows(df, with_duration)))

    def model_applied(request):
        mv = ctx.model('C10.likelihoods', mregs, own_events, request)
        if mv[0] != 'ok':
            return mv[0]
        return [[lab, None if evs is None else [[float(rat(a)), float(rat(b)), float(rat(c)), float(rat(d)), int(k_)]
                                                   for a, b, c, d, k_ in evs]] for lab, evs in mv[1]]

    def prior(k):
        return pints.ComposedLogPrior(*[pints.UniformLogPrior(-100, 100) for _ in range(k)])
    controller.set_log_prior(prior(len(names)))
    # --- one log-posterior per requested individual; all are built first and evaluated afterwards
    request = [ids[int(k)] for k in rng.permutation(len(ids))]
    if len(ids) > 1 and rng.random() < 0.5:
        request.append(ids[int(rng.integers(len(ids)))])
    posts = [(i, controller.get_log_posterior(individual=i)) for i in request]
    ref = {}
    for k_, (i, post) in enumerate(posts):
        inp = dict(inp0, individual=i, requested=request)
        ll = post.get_log_likelihood()
        refsim.clear_record()
        score = float(ll(theta))
        runs = [r_[2] for r_ in refsim.RECORD if r_[1] == 'run']
        applied = [protocol_events(r_['protocol']) for r_ in runs]
        sub = ll.get_submodels()['Mechanistic model'].dosing_regimen()
        said = [] if sub is None else [ev_tuple(e) for e in sub.events()]
        ma = model_applied([i])
        ctx.agree('C10.likelihood_regimen', [[i, applied[-1] if applied else None]],
                  [[lab, evs or []] for lab, evs in ma] if isinstance(ma, list) else ma, inp, rtol=1e-12)
        if not dose_info:
            continue                      # the property speaks about regimens derived from the dataset
        ok = bool(applied) and all(core.close(a, want[i], 1e-12) for a in applied) and core.close(said, want[i], 1e-12)
        ctx.spec('C10.dataset_rows/in_log_posterior', ok, inp,
                 {'dose events the likelihood simulates with': applied[-1] if applied else None,
                  'regimen of its mechanistic model': said, 'dose rows of the individual': want[i],
                  'regimen the controller model came with': own_events})
        if rows_overlap(rows[i]):
            continue                      # (known finding: overlapping rows lose input)
        if i not in ref:
            ref[i] = gaussian_reference_score(direct, rows[i], obs[i][0], obs[i][1], vals)
        ctx.spec('C10.dataset_delivery/log_posterior_value', abs(score - ref[i]) <= TOL * max(1.0, abs(ref[i])),
                 inp, {'log-likelihood': score, 'with the dose rows of the individual (closed form)': ref[i]})
    # --- all individuals in one hierarchical log-posterior
    controller.set_population_model(chi.PooledModel(n_dim=len(names)))
    controller.set_log_prior(prior(len(names)))
    ll = controller.get_log_posterior().get_log_likelihood()
    refsim.clear_record()
    score = float(ll(theta))
    runs = [r_[2] for r_ in refsim.RECORD if r_[1] == 'run']
    applied = sorted(protocol_events(r_['protocol']) for r_ in runs)
    ma = model_applied(ids)
    inp = dict(inp0, population_model='PooledModel')
    ctx.agree('C10.likelihood_regimens_hierarchical', applied,
              sorted(evs or [] for _, evs in ma) if isinstance(ma, list) else ma, inp, rtol=1e-12)
    if not dose_info:
        return
    wanted = sorted(want[i] for i in ids)
    ctx.spec('C10.dataset_rows/in_hierarchical_log_posterior',
             len(applied) == len(wanted) and core.close(applied, wanted, 1e-12), inp,
             {'dose events the likelihoods simulate with (sorted)': applied,
              'dose rows of the individuals (sorted)': wanted, 'regimen the controller model came with': own_events})
    if any(rows_overlap(rows[i]) for i in ids):
        return
    for i in ids:
        if i not in ref:
            ref[i] = gaussian_reference_score(direct, rows[i], obs[i][0], obs[i][1], vals)
    total = sum(ref[i] for i in ids)
    ctx.spec('C10.dataset_delivery/hierarchical_log_posterior_value',
             abs(score - total) <= TOL * max(1.0, abs(total)), inp,
             {'log-likelihood': score, 'sum over the individuals, each with its own dose rows (closed form)': total,
              'per individual': ref})


def build_wrappers(chi, lib):
    """every predictive-model class that forwards set_dosing_regimen, with the predictive models it wraps
    (reached through the public get_predictive_model accessors)"""
    import pints
    import xarray as xr

    def pred(direct):
        m = lib.one_compartment_pk_model()
        m.set_administration('central', direct=direct)
        return chi.PredictiveModel(m, [chi.GaussianErrorModel()])

    def posterior(pm):
        names = pm.get_parameter_names()
        return xr.Dataset({n: (('chain', 'draw'), np.full((1, 3), 1.0)) for n in names})
    out = []
    pm = pred(True)
    out.append(('PosteriorPredictiveModel', chi.PosteriorPredictiveModel(pm, posterior(pm)), [pm]))
    pm = pred(False)
    prior = pints.ComposedLogPrior(*[pints.UniformLogPrior(0.5, 1.5) for _ in range(pm.n_parameters())])
    out.append(('PriorPredictiveModel', chi.PriorPredictiveModel(pm, prior), [pm]))
    pm = pred(True)
    out.append(('PopulationPredictiveModel',
                chi.PopulationPredictiveModel(pm, chi.PooledModel(n_dim=pm.n_parameters())), [pm]))
    pms = [pred(True), pred(False), pred(True)]
    ppms = [chi.PosteriorPredictiveModel(x, posterior(x)) for x in pms]
    out.append(('PAMPredictiveModel', chi.PAMPredictiveModel(ppms, [1.0, 2.0, 1.0]), pms))
    return out


def check_wrappers(ctx, wrappers, reg, ev, kind, rng):
    """a regimen chosen through an averaging / population / model-averaging predictive model must be the
    regimen of every predictive model behind it: the table each of them reports lists the doses of `reg`"""
    for name, wrapper, leaves in wrappers:
        for k_, leaf in enumerate(leaves):
            leaf.set_dosing_regimen(dose=1.0 + k_, start=0.125)        # something else first, different per model
        inp = {'regimen': reg, 'set_through': name}
        try:
            wrapper.set_dosing_regimen(**reg)
        except Exception as e:  # noqa
            ctx.spec('C10.table/through_wrapper', False, inp, {'raised': repr(e)[:200]})
            continue
        ctx.case('wrapper/' + name, nontrivial='wrapper/%s/%s' % (name, kind))
        for T in final_times(reg, rng)[:4]:
            want = expected_table([reg], T)
            mt = model_table(ctx.model('C10.table', False, [ev], T))
            tables = [('the wrapper', wrapper)] + [('wrapped model %d' % k_, leaf) for k_, leaf in enumerate(leaves)]
            for who, obj in tables:
                try:
                    ct = table_of(obj.get_dosing_regimen(T))
                except Exception as e:  # noqa
                    ct = errk(e)
                ctx.agree('C10.table_through_wrapper', ct, mt, dict(inp, final_time=T, table_of=who), rtol=1e-12)
                ok = core.close(ct, want, 1e-12) if (ct is not None and want is not None) else \
                    (ct is None and want is None)
                ctx.spec('C10.table/through_wrapper', ok, dict(inp, final_time=T, table_of=who),
                         {'table': ct, 'doses of the regimen up to final_time': want})


# ------------------------------------------------------------------------------------------------
# G: several objects derived from ONE model object, each with the regimen chosen for it
# ------------------------------------------------------------------------------------------------
def averaging_wrapper(chi, pm, which):
    """a population / posterior / prior predictive model around `pm` (a further handle onto pm's model)"""
    import pints
    import xarray as xr
    k = pm.n_parameters()
    if which == 'PopulationPredictiveModel':
        return chi.PopulationPredictiveModel(pm, chi.PooledModel(n_dim=k))
    if which == 'PosteriorPredictiveModel':
        post = xr.Dataset({n: (('chain', 'draw'), np.full((1, 3), 1.0)) for n in pm.get_parameter_names()})
        return chi.PosteriorPredictiveModel(pm, post)
    prior = pints.ComposedLogPrior(*[pints.UniformLogPrior(0.5, 1.5) for _ in range(k)])
    return chi.PriorPredictiveModel(pm, prior)


def check_derived(ctx, chi, lib, rng):
    """a random program of derivations (`copy`, `PredictiveModel(m, …)` with and without `outputs`, the problem
    controller and its predictive model, wrappers) and regimen choices, all starting from ONE mechanistic model
    object.  Afterwards EVERY object — the source included — must report and deliver the regimen that was chosen
    for it (none, if none was; what its source held when it was derived, if nothing was chosen since).  The
    expected regimens are kept by the harness from the numbers it passed: cells own a regimen, copies get a new
    cell, wrappers point at the cell of what they wrap (the Lean model `Heap` does the same bookkeeping)."""
    direct = bool(rng.random() < 0.5)
    route = 'direct' if direct else 'indirect'
    src = lib.one_compartment_pk_model()
    src.set_administration('central', direct=direct)
    outs = ['central.drug_amount'] if direct else ['central.drug_amount', 'dose.drug_amount']
    src.set_outputs(outs)

    def errs():
        return [chi.GaussianErrorModel() for _ in outs]
    handles = [{'kind': 'mech', 'obj': src, 'cell': 0, 'how': 'the source model'}]
    cells = [None]                  # cell -> the regimen chosen for the model in it (numbers), None = never dosed
    ops, program = [], []

    def new_cell(h, kind, obj, how):
        cells.append(cells[handles[h]['cell']])
        handles.append({'kind': kind, 'obj': obj, 'cell': len(cells) - 1, 'how': how})
        ops.append(['copy', h])
        program.append('h%d = %s' % (len(handles) - 1, how))

    def alias(h, kind, obj, how):
        handles.append({'kind': kind, 'obj': obj, 'cell': handles[h]['cell'], 'how': how})
        ops.append(['wrap', h])
        program.append('h%d = %s' % (len(handles) - 1, how))

    def choose(h):
        reg, _ = gen_regimen(rng, valid_only=True)
        handles[h]['obj'].set_dosing_regimen(**reg)
        cells[handles[h]['cell']] = reg
        ops.append(['set', h, reg['dose'], reg['start'], reg['duration'], reg['period'], reg['num']])
        program.append('h%d.set_dosing_regimen(%s)' % (h, ', '.join('%s=%r' % kv for kv in reg.items())))

    def derive(h):
        hd = handles[h]
        obj, kind = hd['obj'], hd['kind']
        r = rng.random()
        if kind in ('mech', 'reduced'):
            if r < 0.3:
                new_cell(h, 'pred', chi.PredictiveModel(obj, errs()), 'PredictiveModel(h%d, errs)' % h)
            elif r < 0.45:
                o = list(outs) if rng.random() < 0.5 else list(reversed(outs))
                new_cell(h, 'pred', chi.PredictiveModel(obj, errs(), outputs=o),
                         'PredictiveModel(h%d, errs, outputs=%r)' % (h, o))
            elif r < 0.58:
                pm = chi.PredictiveModel(obj, errs())
                if kind == 'mech':
                    pm.fix_parameters({'central.size': 1.5})
                new_cell(h, 'pred', pm, 'PredictiveModel(h%d, errs); fix_parameters' % h)
            elif r < 0.73:
                new_cell(h, kind, obj.copy(), 'h%d.copy()' % h)
            elif r < 0.86 and kind == 'mech':
                red = chi.ReducedMechanisticModel(obj)
                if rng.random() < 0.5:
                    red.fix_parameters({'central.size': 1.5})
                alias(h, 'reduced', red, 'ReducedMechanisticModel(h%d)' % h)
            elif kind == 'mech':
                new_cell(h, 'controller', chi.ProblemModellingController(obj, errs()),
                         'ProblemModellingController(h%d, errs)' % h)
            else:
                new_cell(h, 'pred', chi.PredictiveModel(obj, errs()), 'PredictiveModel(h%d, errs)' % h)
        elif kind == 'pred':
            if r < 0.6:
                which = ['PopulationPredictiveModel', 'PosteriorPredictiveModel',
                         'PriorPredictiveModel'][int(rng.integers(3))]
                alias(h, 'wrap', averaging_wrapper(chi, obj, which), '%s(h%d, …)' % (which, h))
            else:
                sub = obj.get_submodels()['Mechanistic model']
                new_cell(h, 'pred', chi.PredictiveModel(sub, [chi.GaussianErrorModel() for _ in sub.outputs()]),
                         "PredictiveModel(h%d.get_submodels()['Mechanistic model'], errs)" % h)
        elif kind == 'controller':
            new_cell(h, 'pred', obj.get_predictive_model(), 'h%d.get_predictive_model()' % h)
        else:
            derive(0)

    if rng.random() < 0.3:
        choose(0)                                                   # the source comes with a regimen of its own
    n_steps = int(rng.integers(4, 9))
    for step in range(n_steps):
        settable = [k for k, hd in enumerate(handles) if hd['kind'] != 'controller']
        if len(handles) < 3 or rng.random() < 0.45:
            # mostly from the source (siblings), else from anything derived so far
            derive(0 if rng.random() < 0.55 else int(rng.integers(len(handles))))
        else:
            choose(settable[int(rng.integers(len(settable)))])
    for k, hd in enumerate(list(handles)):
        if hd['kind'] == 'controller' and not any(o[0] == 'copy' and o[1] == k for o in ops):
            derive(k)                                               # a controller is observed through its model
    inp0 = {'route': route, 'program': program}
    used = [c for c in cells if c is not None]
    n_distinct = len({tuple(sorted((k, str(v)) for k, v in c.items())) for c in used})
    ctx.case('derived/' + route, nontrivial='derived/%s/%s/regimens=%d' % (
        route, '+'.join(sorted({hd['how'].split('(')[0].split(' = ')[-1].split('.')[-1] for hd in handles[1:]})),
        min(n_distinct, 3)), sample=inp0)
    # --- the model's bookkeeping
    mv = ctx.model('C10.derived', ops)
    mregs = [None if evs is None else [[float(rat(a)), float(rat(b)), float(rat(c)), float(rat(d)), int(m)]
                                       for a, b, c, d, m in evs] for evs in mv[1]] if mv[0] == 'ok' else mv[0]
    # --- times / final times at which every regimen of the program shows
    pts, t_hi = {0.0}, 1.0
    for reg in used:
        p = reg['period'] or 0.0
        pts.update([reg['start'] + reg['duration'] / 2, reg['start'] + reg['duration'],
                    reg['start'] + p + reg['duration'] / 4])
        t_hi = max(t_hi, reg['start'] + p + reg['duration'] + 0.25)
    pts = sorted(pts)
    if len(pts) > 5:
        pts = [pts[int(k)] for k in sorted(rng.choice(len(pts), 5, replace=False))]
    times = [float(t) for t in sorted(set(pts + [t_hi]))]
    Ts = [None]
    if used:
        cands = [t for t in final_times(used[int(rng.integers(len(used)))], rng) if t is not None]
        Ts.append(cands[int(rng.integers(len(cands)))])
    vals = {'central.drug_amount': 0.0, 'dose.drug_amount': 0.0, 'central.size': 1.5,
            'dose.absorption_rate': float(rng.uniform(0.5, 2.0)), 'global.elimination_rate': 0.0}
    reported = []
    for k, hd in enumerate(handles):
        reg = cells[hd['cell']]
        obj, kind = hd['obj'], hd['kind']
        inp = dict(inp0, observed='h%d' % k, regimen_chosen_for_it=reg)
        want_ev = None if reg is None else [expected_event(reg)]
        sched = [] if reg is None else cf.schedule(reg['dose'], reg['start'], reg['duration'], reg['period'],
                                                   reg['num'], times[-1] + 1)
        want_in = [cf.delivered(sched, t) for t in times]
        mech = None
        if kind == 'controller':
            reported.append(None if not isinstance(mregs, list) else mregs[k])      # (no accessor of its own)
            continue
        if kind in ('mech', 'reduced'):
            proto = obj.dosing_regimen()
            got = None if proto is None else [ev_tuple(e) for e in proto.events()]
            reported.append(got)
            ok = (got is None and want_ev is None) or \
                (got is not None and want_ev is not None and core.close(got, want_ev, 1e-12))
            ctx.spec('C10.derived_objects/dosing_regimen', ok, inp,
                     {'dosing_regimen()': got, 'chosen for this object': want_ev})
            mech = obj
        else:
            tabs = []
            for T in Ts:
                try:
                    ct = table_of(obj.get_dosing_regimen(T))
                except Exception as e:  # noqa
                    ct = errk(e)
                tabs.append(ct)
                want = None if reg is None else expected_table([reg], T)
                ok = core.close(ct, want, 1e-12) if (ct is not None and want is not None) else \
                    (ct is None and want is None)
                ctx.spec('C10.derived_objects/table', ok, dict(inp, final_time=T),
                         {'table': ct, 'doses of the regimen chosen for this object up to final_time': want})
            reported.append(tabs[0])
            if isinstance(mregs, list) and mregs[k] is not None:
                mregs[k] = model_table(ctx.model('C10.table', False, mregs[k], None))
            if kind == 'pred':
                # the system this predictive model simulates when it is sampled from
                refsim.clear_record()
                obj.sample(np.ones(obj.n_parameters()), [0.0625, 0.125], seed=int(rng.integers(1 << 30)),
                           return_df=False)
                runs = [r_[2] for r_ in refsim.RECORD if r_[1] == 'run']
                applied = protocol_events(runs[-1]['protocol']) if runs else None
                ctx.spec('C10.derived_objects/simulated_with',
                         applied is not None and core.close(applied, want_ev or [], 1e-12), inp,
                         {'dose events at the run behind sample()': applied, 'chosen for this object': want_ev})
                mech = obj.get_submodels()['Mechanistic model']          # (read only)
        if mech is not None and set(mech.outputs()) == set(outs):
            res = np.asarray(mech.simulate([vals[n] for n in mech.parameters()], times))
            total = res.sum(axis=0)
            ctx.spec('C10.derived_objects/cumulative_input', core.close(list(total), want_in, TOL, 1e-9),
                     dict(inp, times=times), {'simulated': total, 'sum of doses of its regimen delivered': want_in})
    ctx.agree('C10.derived_regimens', reported, mregs, inp0, rtol=1e-12)


# ------------------------------------------------------------------------------------------------
# H: one object, a SEQUENCE of regimens, the same parameters and the same time grid after each
# ------------------------------------------------------------------------------------------------
def gen_regimen_step(rng):
    """one regimen choice: the five numbers, or an explicit protocol of two events one after the other"""
    if rng.random() < 0.3:
        regs, t0 = [], 0.0
        for _ in range(2):
            reg, _ = gen_regimen(rng, valid_only=True)
            if reg['period'] and not reg['num']:
                reg['num'] = int(rng.integers(1, 4))
            reg['start'] = t0 + float(rng.integers(0, 8)) / 4
            span = reg['duration'] if not reg['period'] else reg['period'] * reg['num']
            t0 = reg['start'] + span + 0.25
            regs.append(reg)
        return 'protocol', regs
    reg, kind = gen_regimen(rng, valid_only=True)
    return kind, [reg]


def check_resimulated(ctx, chi, lib, rng):
    """the usual way of comparing regimens at fixed parameters: ONE object is simulated, given another regimen
    (numbers or an explicit protocol), and simulated again with exactly the same parameters and time grid, several
    times over.  Every simulation must be the trajectory of the regimen that is in force THEN: cumulative input
    (elimination off) = initial amounts + the doses scheduled up to each time, concentrations (elimination on)
    = the documented equations driven by that regimen, the reported regimen / table = that regimen; results
    returned earlier stay what they were.  The expectation comes from the numbers the harness passed
    (harness/closedform.py), never from chi."""
    import myokit
    which = 'erlotinib' if rng.random() < 0.3 else 'one-compartment'
    direct = bool(rng.random() < 0.5)
    route = 'direct' if direct else 'indirect'
    door = ['model', 'reduced', 'set through reduced, simulated on the model', 'predictive'][int(rng.integers(4))]
    m = lib.erlotinib_tumour_growth_inhibition_model() if which == 'erlotinib' else lib.one_compartment_pk_model()
    if rng.random() < 0.25:
        m.set_administration('central', direct=not direct)      # the route is chosen twice: the last one counts
    m.set_administration('central', direct=direct)
    drug = ['central.drug_amount'] if direct else ['central.drug_amount', 'dose.drug_amount']
    other = ['global.tumour_volume'] if which == 'erlotinib' else []
    m.set_outputs(drug + other)
    V = float(rng.choice([0.5, 1.0, 2.0]))
    a0 = {'central.drug_amount': float(rng.choice([0.0, 0.5])), 'dose.drug_amount': float(rng.choice([0.0, 0.25]))}
    tv0 = float(rng.choice([0.75, 1.5]))
    ka = float(rng.uniform(0.5, 2.0))
    kes = [0.0] + ([float(rng.uniform(0.3, 1.5))] if which == 'one-compartment' and rng.random() < 0.5 else [])

    def vals(ke):
        return {'central.drug_amount': a0['central.drug_amount'], 'dose.drug_amount': a0['dose.drug_amount'],
                'global.tumour_volume': tv0, 'central.size': V, 'dose.absorption_rate': ka,
                'global.critical_volume': 1.0, 'global.elimination_rate': ke, 'global.kappa': 0.0,
                'global.lambda': 0.0}
    steps = []
    for _ in range(int(rng.integers(2, 5))):
        if steps and rng.random() < 0.12:
            steps.append(('again:' + steps[-1][0], [dict(r) for r in steps[-1][1]]))     # the same regimen again
        else:
            steps.append(gen_regimen_step(rng))
    # ONE grid for all steps, on which every regimen of the sequence shows
    pts, t_hi = set(), 1.0
    for _, regs in steps:
        for reg in regs:
            p = reg['period'] or 0.0
            pts.update([reg['start'] + reg['duration'] / 2, reg['start'] + reg['duration'],
                        reg['start'] + p + reg['duration'] / 4])
            t_hi = max(t_hi, reg['start'] + p + reg['duration'] + 0.25)
    t_hi = min(t_hi, 8.0)
    pts = sorted(t for t in pts if t < t_hi)
    if len(pts) > 6:
        pts = [pts[int(k)] for k in sorted(rng.choice(len(pts), 6, replace=False))]
    times = [float(t) for t in sorted(set([0.0] + pts + [t_hi]))]
    # the objects
    setter, sim = m, m
    if door != 'model' and door != 'predictive':
        red = chi.ReducedMechanisticModel(m)
        red.fix_parameters({'central.size': V})
        setter = red
        sim = red if door == 'reduced' else m
    if door == 'predictive':
        pm = chi.PredictiveModel(m, [chi.GaussianErrorModel() for _ in drug + other])
        setter = sim = pm
    n_drug = len(drug)
    own_a0 = sum(a0[n] for n in drug)           # (a depot amount exists only with the indirect route)
    lm = cf.one_compartment_documented(depot=not direct)
    inp0 = {'model': which, 'route': route, 'door': door, 'times': times, 'initial amounts': a0,
            'sequence': [(k, regs) for k, regs in steps]}
    ctx.case('resimulate/' + route, nontrivial='resimulate/%s/%s/%s/%s' % (
        which, route, door.split(',')[0], '>'.join(k.split(':')[0][:3] for k, _ in steps)), sample=inp0)

    def simulate(ke, seed):
        v = vals(ke)
        if door == 'predictive':
            psi = [v[n] for n in m.parameters()] + [1e-9] * (n_drug + len(other))
            return np.asarray(pm.sample(psi, times, seed=seed, return_df=False))[:, :, 0]
        vec = [v[n] for n in sim.parameters()]
        out = sim.simulate(vec, times)
        return np.asarray(out[0] if isinstance(out, tuple) else out)
    held = []
    calls, chi_inputs = [], []          # the same history for the Lean state machine (`simTrace`)
    seed = int(rng.integers(1 << 30))
    for k, (kind, regs) in enumerate(steps):
        inp = dict(inp0, step=k, regimen_in_force=regs)
        try:
            if kind.endswith('protocol'):
                p = myokit.Protocol()
                for reg in regs:
                    p.schedule(reg['dose'] / reg['duration'], reg['start'], reg['duration'],
                               reg['period'] or 0, reg['num'] or 0 if reg['period'] else 0)
                setter.set_dosing_regimen(p)
                calls.append(['protocol', [ev_tuple(e) for e in p.events()]])
            else:
                setter.set_dosing_regimen(**regs[0])
                r0 = regs[0]
                calls.append(['set', r0['dose'], r0['start'], r0['duration'], r0['period'], r0['num']])
            sched = []
            for reg in regs:
                sched += cf.schedule(reg['dose'], reg['start'], reg['duration'], reg['period'], reg['num'],
                                     times[-1] + 1)
            want_ev = [expected_event(reg) for reg in regs]
            # what the object reports
            if door == 'predictive':
                for T in (None, times[-1]):
                    ct = table_of(pm.get_dosing_regimen(T))
                    want = expected_table(regs, T)
                    ctx.spec('C10.table/after_regimen_change',
                             core.close(ct, want, 1e-12) if (ct is not None and want is not None) else
                             (ct is None and want is None), dict(inp, final_time=T),
                             {'table': ct, 'doses of the regimen in force up to final_time': want})
            else:
                proto = m.dosing_regimen()
                got = None if proto is None else [ev_tuple(e) for e in proto.events()]
                ctx.spec('C10.protocol_attached/after_regimen_change',
                         got is not None and core.close(got, want_ev, 1e-12), inp,
                         {'dosing_regimen()': got, 'regimen in force': want_ev})
            # what the simulated system receives: same parameters, same times as for the regimens before
            for ke in kes:
                res = simulate(ke, seed)
                held.append((k, ke, res, np.array(res, copy=True)))
                calls.append(['solve', kes.index(ke)])          # the same request every time
                chi_inputs.append(None if ke else [float(x) - own_a0 for x in res[:n_drug].sum(axis=0)])
                if ke == 0.0:
                    total = res[:n_drug].sum(axis=0)
                    want = [own_a0 + cf.delivered(sched, t) for t in times]
                    ok = core.close(list(total), want, TOL, 1e-7)
                    detail = {'drug in the system': total, 'initial amounts + doses scheduled up to then': want}
                    if other:
                        ok = ok and core.close(list(res[n_drug]), [tv0] * len(times), TOL, 1e-7)
                        detail['tumour volume (no growth, no effect)'] = res[n_drug]
                        detail['its initial value'] = tv0
                    tag = 'C10.cumulative_input/after_regimen_change' + ('/sample' if door == 'predictive' else '')
                    ctx.spec(tag, ok, inp, detail)
                else:
                    ov, _ = lm.solve({'A': a0['central.drug_amount'], 'Ad': a0['dose.drug_amount'] if not direct else 0.0},
                                     {'ke': ke, 'V': V, 'ka': ka}, times, [], ['A'] if direct else ['A', 'Ad'], sched)
                    err = cf.rel_err(res[:n_drug], ov, 1e-3)
                    # (sampled values carry measurement noise of the order 1e-9)
                    ok = core.close(np.asarray(res[:n_drug]).tolist(), np.asarray(ov).tolist(), TOL, 1e-7) \
                        if door == 'predictive' else err <= TOL
                    ctx.spec('C10.simulated_values/after_regimen_change', ok,
                             dict(inp, ke=ke, V=V, ka=ka), {'chi': res, 'oracle': ov, 'rel_err': err})
        except Exception as e:  # noqa
            ctx.spec('C10.cumulative_input/after_regimen_change', False, inp, {'raised': repr(e)[:300]})
            return
    # correspondence: the Lean state machine says which regimen each solve is run with; what that regimen has
    # delivered by each time (model) against what chi's system has received (beyond the initial amounts)
    mv = ctx.model('C10.resim', calls)
    if mv[0] == 'ok':
        model_inputs = []
        for (q, evs), got in zip(mv[1], chi_inputs):
            if got is None:
                model_inputs.append(None)
                continue
            evs = [] if evs is None else [[float(rat(a)), float(rat(b)), float(rat(c)), float(rat(d)), int(mu)]
                                          for a, b, c, d, mu in evs]
            model_inputs.append([float(rat(x)) for x in ctx.model('C10.pacemulti', evs, times)[1]])
        ctx.agree('C10.resimulated_input', chi_inputs, model_inputs, inp0, rtol=TOL, atol=1e-7)
        if door != 'predictive':
            proto = m.dosing_regimen()
            ctx.agree('C10.resimulated_regimen', None if proto is None else [ev_tuple(e) for e in proto.events()],
                      None if mv[2] is None else [[float(rat(a)), float(rat(b)), float(rat(c)), float(rat(d)), int(mu)]
                                                  for a, b, c, d, mu in mv[2]], inp0, rtol=1e-12)
    else:
        ctx.agree('C10.resimulated_input', 'ok', mv[0], inp0)
    # results handed out earlier are not touched by the later calls
    bad = [(k, ke) for k, ke, res, snap in held if not np.array_equal(res, snap)]
    ctx.spec('C10.cumulative_input/result_held_across_regimen_change', not bad, inp0,
             {'(step, elimination rate) of results that changed after they were returned': bad})


def integrate_pacing(protocol, t_end):
    import myokit
    ps = myokit.PacingSystem(protocol)
    total, t = 0.0, 0.0
    while t < t_end:
        tn = min(ps.next_time(), t_end)
        total += ps.pace() * (tn - t)
        t = tn
        ps.advance(t)
    return total


def check_overlap(ctx, protocol, want, inp):
    t_end = max(r[1] + r[2] for r in want) + 1.0
    got = integrate_pacing(protocol, t_end)
    scheduled = sum(r[0] * r[2] for r in want)
    evs = [ev_tuple(e) for e in protocol.events()]
    mm = ctx.model('C10.pacemulti', evs, [t_end])
    ctx.branches.add('dataset:overlapping-rows')
    ctx.spec('C10.cumulative_input/overlapping_rows', abs(got - scheduled) <= 1e-9 * max(1.0, scheduled),
             inp, {'input received': got, 'sum of the dose rows': scheduled,
                   'model deliveredMulti': float(rat(mm[1][0]))})


def witness_overlap(ctx, chi, controller, model_direct, output):
    """C10_overlap_counterexample replayed on chi: two 2-unit infusions of 10 starting at 0 and 1"""
    df = pd.DataFrame({'ID': [1, 1, 1], 'Time': [0.0, 1.0, 4.0], 'Observable': [np.nan, np.nan, output],
                       'Value': [np.nan, np.nan, 1.0], 'Dose': [10.0, 10.0, np.nan],
                       'Duration': [2.0, 2.0, np.nan]})
    inp = {'dataset': df.to_dict('list'), 'witness': 'C10_overlap_counterexample'}
    controller.set_data(df)
    proto = controller.get_dosing_regimens()['1']
    evs = [ev_tuple(e) for e in proto.events()]
    grid = [0.5, 1.5, 2.5, 3.0]
    mm = ctx.model('C10.pacemulti', evs, grid)
    ctx.agree('C10.pacemulti', pacing_trace(proto, grid), [float(rat(x)) for x in mm[0]], inp, rtol=0.0)
    # what the simulated system receives (elimination off)
    model_direct.set_dosing_regimen(proto)
    vals = {'central.drug_amount': 0.0, 'central.size': 1.0, 'global.elimination_rate': 0.0}
    res = np.asarray(model_direct.simulate(lib_vector(model_direct, vals), [3.0, 4.0]))
    ctx.case('dataset/overlap-witness', nontrivial='dataset/overlap-witness', sample=inp)
    # chi does exactly what the model's pacing semantics predicts: rate 5 on [0,3), i.e. 15 units
    ctx.agree('C10.overlap_received', [float(res[0, 0]), float(res[0, 1])], [15.0, 15.0], inp, rtol=TOL)
    ctx.spec('C10.cumulative_input/overlapping_rows', abs(float(res[0, 1]) - 20.0) <= 1e-6, inp,
             {'amount received by t=4': float(res[0, 1]), 'sum of the dose rows': 20.0})


# ------------------------------------------------------------------------------------------------
def run(ctx):
    chi = core.import_chi()
    import chi.library
    import myokit
    refsim.install()
    threadpool_limits(limits=1)
    ctx.extra['refsim_validation'] = {'oracle': 'harness/closedform.py', 'max_rel_err': 0.0, 'comparisons': 0,
                                      'tolerance': TOL}
    quick = ctx.tier == 'quick'
    lib = chi.library.ModelLibrary()
    try:
        # --- models: library one-compartment model, both routes (also the surgery check)
        models = {}
        for direct in (True, False):
            refsim.clear_record()
            m = lib.one_compartment_pk_model()
            vanilla = refsim.MODELS[[r for r in refsim.RECORD if r[1] == 'new'][0][0]]
            check_surgery(ctx, m, vanilla, 'central', 'drug_amount', direct,
                          {'model': 'library:one_compartment_pk_model', 'direct': direct})
            m.set_outputs(['central.drug_amount'] if direct else ['central.drug_amount', 'dose.drug_amount'])
            models[direct] = m
        # erlotinib model: dosing the second published state
        refsim.clear_record()
        m = lib.erlotinib_tumour_growth_inhibition_model()
        vanilla = refsim.MODELS[[r for r in refsim.RECORD if r[1] == 'new'][0][0]]
        check_surgery(ctx, m, vanilla, 'central', 'drug_amount', False,
                      {'model': 'library:erlotinib', 'direct': False})
        # not dosed before a route is chosen
        m0 = lib.one_compartment_pk_model()
        try:
            m0.set_dosing_regimen(1.0)
            r0 = 'ok'
        except ValueError:
            r0 = 'err:valueError'
        ctx.spec('C10.protocol_attached', r0 == 'err:valueError' and m0.dosing_regimen() is None, {}, r0)

        pm_model = lib.one_compartment_pk_model()
        pm_model.set_administration('central')
        pm = chi.PredictiveModel(pm_model, [chi.GaussianErrorModel()])
        pm_fixed = chi.PredictiveModel(pm_model, [chi.GaussianErrorModel()])
        wrappers = build_wrappers(chi, lib)
        pm_fixed.fix_parameters({'central.size': 2.0, 'Sigma': 0.5})
        out = 'central.drug_concentration'
        ctl_model = lib.one_compartment_pk_model()
        ctl_model.set_administration('central', direct=False)
        controller = chi.ProblemModellingController(ctl_model, [chi.GaussianErrorModel()])

        # --- corpus: witnesses of the counterexample theorems and hand-picked boundaries
        corpus = [
            (dict(dose=1.0, start=0.0, duration=0.25, period=1.0, num=None), [2.5, 0.5, 1.0, 2.0, None, 0.0]),
            (dict(dose=1.0, start=0.5, duration=0.25, period=1.0, num=None), [0.5, 0.25, 1.5, 1.0, 3.5]),
            (dict(dose=2.0, start=2.0, duration=0.5, period=1.0, num=None), [2.5, 2.0, 3.0, 1.5, 7.0]),
            (dict(dose=2.0, start=1.0, duration=0.5, period=2.0, num=3), [None, 1.0, 5.0, 4.5, 100.0, 0.5]),
            (dict(dose=2.0, start=1.0, duration=0.5, period=None, num=None), [None, 1.0, 0.5, 9.0]),
        ]
        for reg, Ts in corpus:
            pm.set_dosing_regimen(**reg)
            evs = [ev_tuple(e) for e in pm_model_events(pm, reg, models)]
            for T in Ts:
                inp = {'regimen': reg, 'final_time': T, 'corpus': True}
                ctx.case('table/corpus', nontrivial='table/corpus/%s/%s' % (boundary_class(reg, T), reg['start']),
                         sample=inp)
                ct = table_of(pm.get_dosing_regimen(T))
                mt = model_table(ctx.model('C10.table', False, evs, T))
                ctx.agree('C10.table', ct, mt, inp, rtol=1e-12)
                want = expected_table([reg], T)
                ok = core.close(ct, want, 1e-12) if (ct is not None and want is not None) else (ct is None and want is None)
                detail = {'table': ct, 'doses applied up to final_time': want}
                if not ok:
                    detail['matches_legacy_count'] = model_table(ctx.model('C10.table', True, evs, T)) == ct
                ctx.spec('C10.table', ok, inp, detail)
        witness_overlap(ctx, chi, controller, models[True], out)

        # --- generated regimens
        n = 300 if quick else 6000
        n_sim = 70 if quick else 1500
        for i in range(n):
            rng = ctx.sub_rng(i)
            reg, kind = gen_regimen(rng)
            direct = bool(i % 2 == 0)
            door = ['model', 'reduced-fixed', 'reduced'][int(rng.integers(3))]
            got = ctx.guard(check_regimen, ctx, models[direct], reg, kind, 'direct' if direct else 'indirect', i,
                            chi, door)
            if got is None:
                continue
            ev, proto = got
            if reg['duration'] != 0.01:
                # the table of a predictive model, also one whose parameters were fixed before the regimen
                pmx = pm if i % 2 == 0 else pm_fixed
                pmx.set_dosing_regimen(**reg)
                ctx.guard(check_table, ctx, pmx, [ev], [reg], kind, rng,
                          {'regimen': reg, 'predictive_model': 'plain' if pmx is pm else 'parameters fixed first'})
            if i < n_sim and reg['duration'] != 0.01:
                ctx.guard(check_simulated, ctx, chi, models, reg, kind, direct, rng, door)
            if i % (6 if quick else 12) == 0 and reg['duration'] != 0.01:
                ctx.guard(check_wrappers, ctx, wrappers, reg, ev, kind, rng)
        # --- explicit protocols with several events
        for i in range(20 if quick else 300):
            rng = ctx.sub_rng(10 ** 5 + i)
            regs = []
            t0 = 0.0
            for _ in range(int(rng.integers(2, 4))):
                reg, kind = gen_regimen(rng, valid_only=True)
                if reg['period'] and not reg['num']:
                    reg['num'] = int(rng.integers(1, 4))
                reg['start'] = t0 + float(rng.integers(0, 8)) / 4
                span = reg['duration'] if not reg['period'] else reg['period'] * reg['num']
                t0 = reg['start'] + span + 0.25
                regs.append(reg)
            p = myokit.Protocol()
            for reg in regs:
                p.schedule(reg['dose'] / reg['duration'], reg['start'], reg['duration'],
                           reg['period'] or 0, reg['num'] or 0 if reg['period'] else 0)
            pm.set_dosing_regimen(p)
            evs = [ev_tuple(e) for e in p.events()]
            ctx.guard(check_table, ctx, pm, evs, regs, 'protocol', rng, {'protocol': regs})
            grid = [k_ / 8.0 for k_ in range(int((t0 + 1.0) * 8) + 1)]
            mm = ctx.model('C10.pacemulti', evs, grid)
            ctx.agree('C10.pacemulti', pacing_trace(p, grid), [float(rat(x)) for x in mm[0]],
                      {'protocol': regs}, rtol=0.0)
            if i < (6 if quick else 60):
                # an explicit protocol reaches the simulated system: cumulative input, elimination off
                md = models[True]
                md.set_dosing_regimen(p)
                ctx.spec('C10.protocol_attached', md.dosing_regimen() is not None and
                         md.dosing_regimen().code() == p.code(), {'protocol': regs})
                times = [regs[0]['start'] + regs[0]['duration'] / 2, regs[1]['start'], t0, t0 + 1.0]
                vals = {'central.drug_amount': 0.0, 'central.size': 1.0, 'global.elimination_rate': 0.0}
                res = np.asarray(md.simulate(lib_vector(md, vals), times))[0]
                sched = []
                for reg in regs:
                    sched += cf.schedule(reg['dose'], reg['start'], reg['duration'], reg['period'], reg['num'],
                                         times[-1] + 1)
                want = [cf.delivered(sched, t) for t in times]
                mm = ctx.model('C10.pacemulti', evs, times)
                ctx.agree('C10.cumulative_input_protocol', list(res), [float(rat(x)) for x in mm[1]],
                          {'protocol': regs, 'times': times}, rtol=TOL, atol=1e-9)
                ctx.spec('C10.cumulative_input/protocol', core.close(list(res), want, TOL, 1e-9),
                         {'protocol': regs, 'times': times}, {'simulated': res, 'sum of doses delivered': want})
                ctx.case('simulate/protocol', nontrivial='simulate/protocol/%d' % len(regs))
        # --- datasets
        for i in range(80 if quick else 800):
            rng = ctx.sub_rng(2 * 10 ** 5 + i)
            df, with_duration = gen_dataset(rng, out)
            ctx.guard(check_dataset, ctx, chi, controller, df, with_duration, frame_inp(df))
        for i in range(25 if quick else 300):
            ctx.guard(check_dataset_sequence, ctx, chi, lib, ctx.sub_rng(4 * 10 ** 5 + i), out)
        for i in range(48 if quick else 500):
            ctx.guard(check_dataset_likelihoods, ctx, chi, lib, ctx.sub_rng(5 * 10 ** 5 + i), out)
        # --- objects derived from one model object
        for i in range(40 if quick else 600):
            ctx.guard(check_derived, ctx, chi, lib, ctx.sub_rng(6 * 10 ** 5 + i))
        # --- one object, several regimens in turn, same parameters and time grid
        for i in range(40 if quick else 500):
            ctx.guard(check_resimulated, ctx, chi, lib, ctx.sub_rng(7 * 10 ** 5 + i))
        # --- generated compartment models, dosed
        for i in range(24 if quick else 400):
            ctx.guard(check_generated_dosing, ctx, chi, i, ctx.sub_rng(3 * 10 ** 5 + i))
    finally:
        for d in c09._TMP:
            shutil.rmtree(d, True)
        del c09._TMP[:]
    ctx.extra['refsim_validation']['models'] = 'library one-compartment (direct, depot) + generated'


def pm_model_events(pm, reg, models):
    """the protocol events of a regimen as chi builds them (the predictive model keeps a private copy of the
    mechanistic model, so the same regimen is set on a model we can read the protocol from)"""
    models[True].set_dosing_regimen(**reg)
    return models[True].dosing_regimen().events()


def replay(ctx, data):
    print('re-running the quick stream of seed %s and reporting the recorded tag' % data.get('seed'))
    rctx = core.Ctx('C10', data.get('tier', 'quick'), data.get('seed', 0))
    run(rctx)
    if rctx.lean is not None:
        rctx.lean.close()
    tag = data['failing']['tag']
    bad = [b for b in rctx.spec_bad if b['tag'] == tag]
    print('%d property failures with tag %s' % (len(bad), tag))
    for b in bad[:2]:
        print('  input:', str(b['input'])[:300])
        print('  detail:', str(b['detail'])[:300])
    known = {f['tag'] for f in rctx.findings if f.get('status') == 'known'}
    return 1 if (bad and tag not in known) else 0
