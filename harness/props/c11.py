"""C11 — mechanistic model behaviour depends only on its final configuration; copies are independent

Three comparisons on every generated history of configuration calls (library + generated SBML models):

(a) correspondence  chi  vs  the Lean state machine `MechConfig.step` (the code as it is, /repo at bcb3fc2
    or later; the machine before that commit survives only in the counterexample theorems): outcome of every
    call (ok / exception kind) and, after every call, `parameters()`, `n_parameters()`, `outputs()`, reported regimen, `has_sensitivities()`; at the end (and at random
    intermediate points) the *call record* of a `simulate` on the reference integrator: the states of the
    model the solver integrates, the variable bound to `pace`, the protocol attached at run time, the
    sensitivities requested, which named state / constant received which position of the argument
    vector (or which fixed value), the logged variables; and the shapes `simulate` returns for an empty
    time grid (they come from the hidden counter `_n_sensitivity_parameters`).
(b) the property on the real code (`ctx.spec`): chi after the history  vs  a freshly constructed chi
    object to which only the net configuration (Lean `MechConfig.net`, the formal definition of "net")
    is applied — names, counts, outputs, regimen, simulated values and sensitivities; and the reported
    regimen vs the protocol attached when `simulate` runs.
    The same after EVERY call of the history (`C11.net_config/after_call`, against the observables of
    `fresh (net prefix)`; the first deviating prefix is then run as a history of its own), and the laws of the
    sensitivity setting on chi alone (`C11.sens_setting/*`: on after an accepted enable, off after an accepted
    disable, kept by fix_parameters, never switched on by another call; `simulate` returns sensitivities
    exactly when `has_sensitivities()`).  A share of the histories lives around the wrapper with NO free
    parameter (every parameter fixed, in one call or several, before / after sensitivities were requested;
    there: on / off / release one / release all / re-fix / every other call).
(c) copies: same behaviour at the moment of copying (up to the documented reset of the sensitivity
    setting), and later calls on either object leave the other unchanged.
"""
import os
import sys
import tempfile

import numpy as np
import myokit
import myokit.formats.sbml as sbml

import core
import refsim

REQUIRED_THEOREMS = [
    'C11_refines', 'C11_net_config', 'C11_net_config_state', 'C11_reported_regimen_applied',
    'C11_simulate_never_raises', 'C11_admin_rejects_missing_outputs',
    'C11_sens_count_matches_solver', 'C11_empty_grid_shape',
    'C11_canonical_reaches', 'C11_fresh_by_canonical_calls', 'C11_net_config_by_calls', 'C11_canon_structural',
    'C11_copy_same', 'C11_copy_same_history', 'C11_copy_independent', 'C11_flag_matches_solver',
    'C11_only_enable_switches_on', 'C11_stays_off', 'C11_disable_switches_off', 'C11_enable_switches_on',
    'C11_fix_keeps_sens_setting', 'C11_disable_then_stays_off',
    'C11_legacy_eq_now', 'C11_legacy_net_config_partial', 'C11_flag_matches_solver_legacy',
    'C11_direct_after_indirect_counterexample', 'C11_readmin_after_regimen_counterexample',
    'C11_rename_then_indirect_counterexample',
    'C11_outputs_after_empty_sens_counterexample_before_4fca413']
RULE = ('histories of set_administration / set_dosing_regimen / set_outputs / set_parameter_names / '
        'set_output_names / enable_sensitivities / wrap in ReducedMechanisticModel / fix_parameters / copy '
        '(valid and invalid arguments) on 4 library and 3 generated SBML models; quick: random, length <= 8; '
        'thorough: exhaustive to length 4 over a reduced alphabet on the one-compartment model and to length 3 '
        'over a second alphabet (wrap / fix / rename) on the erlotinib model and a third (two dosable '
        'compartments, depot outputs) on a generated two-compartment model and a fourth (re-selection of '
        'sensitivities: same-size subsets, on / off, fix-swap through the wrapper) and to length 4 over a fifth '
        '(wrapper with every parameter fixed: fix all / release / on / off / outputs), then random to length '
        '20; in both tiers a share of the random histories is drawn around the wrapper with no free parameter; non-trivial = history with >= 2 successful calls of different kinds; distinct = '
        'distinct (model, sequence of call kinds with their outcome)')
ASSUMPTIONS = [
    'the ODE solution is a function of the solver call record (refsim stands in for CVODES); C09/C10 are '
    'about that function',
    'regimens and fixed values are opaque tokens in the model; myokit model surgery is modelled by name '
    'lists (states, constants, pace variable)',
    'histories wrap a model at most once and do not reach through mechanistic_model() to reconfigure '
    'the wrapped model',
    'every exception raised inside simulate is one outcome (`raises`)',
]

TIMES = [0.6, 1.3, 2.7]
REGIMENS = [
    dict(dose=2.0, start=0.5, duration=0.25, period=1.0, num=3),
    dict(dose=1.0, start=1.0, duration=0.5),
    dict(dose=3.0, start=0.0, duration=0.125, period=0.5),
    'protocol',
]


# ----------------------------------------------------------------------------------------
# solver substitute with the pace variable in the call record
# ----------------------------------------------------------------------------------------
class RecSim(refsim.RefSimulation):
    def __init__(self, model, protocol=None, sensitivities=None, **kw):
        super().__init__(model, protocol, sensitivities, **kw)
        pv = self._model.binding('pace')
        refsim.RECORD.append((self.sim_id, 'pace', None if pv is None else pv.qname()))


class QuietStdout:
    """LSODA (Fortran) writes its warnings — with NUL bytes — straight to file descriptor 1 when a history
    hands it nan parameters; keep them out of the check's output"""

    def __enter__(self):
        sys.stdout.flush()
        self.saved = os.dup(1)
        null = os.open(os.devnull, os.O_WRONLY)
        os.dup2(null, 1)
        os.close(null)

    def __exit__(self, *a):
        os.dup2(self.saved, 1)
        os.close(self.saved)
        return False


SIMS = {}


def drain():
    """consume refsim.RECORD; remember what every solver object was built with"""
    out = list(refsim.RECORD)
    refsim.clear_record()
    for sid, call, payload in out:
        if call == 'new':
            SIMS[sid] = {'states': payload['states'], 'pace': None}
        elif call == 'pace':
            SIMS[sid]['pace'] = payload
    return out


# ----------------------------------------------------------------------------------------
# models
# ----------------------------------------------------------------------------------------
def sbml_text(comps, transfers, elim, name='gen'):
    """linear compartment model; species id `drug_<c>` → variables `<c>.drug_<c>_amount / _concentration`"""
    L = ['<?xml version="1.0" encoding="UTF-8"?>',
         '<sbml xmlns="http://www.sbml.org/sbml/level3/version2/core" level="3" version="2">',
         '<model id="%s" timeUnits="day">' % name,
         '<listOfUnitDefinitions><unitDefinition id="day"><listOfUnits>'
         '<unit kind="second" exponent="1" scale="0" multiplier="86400"/></listOfUnits></unitDefinition>'
         '<unitDefinition id="per_day"><listOfUnits><unit kind="second" exponent="-1" scale="0" '
         'multiplier="86400"/></listOfUnits></unitDefinition><unitDefinition id="mg"><listOfUnits>'
         '<unit kind="gram" exponent="1" scale="-3" multiplier="1"/></listOfUnits></unitDefinition>'
         '</listOfUnitDefinitions>', '<listOfCompartments>']
    for c in comps:
        L.append('<compartment id="%s" name="%s" size="1" units="liter"/>' % (c, c))
    L += ['</listOfCompartments>', '<listOfSpecies>']
    for c in comps:
        L.append('<species id="drug_%s" name="drug" compartment="%s" initialAmount="0" '
                 'hasSubstanceUnits="false" substanceUnits="mg"/>' % (c, c))
    L += ['</listOfSpecies>', '<listOfParameters>']
    for p in [t[2] for t in transfers] + [e[1] for e in elim]:
        L.append('<parameter id="%s" value="1" constant="true" units="per_day"/>' % p)
    L += ['</listOfParameters>', '<listOfReactions>']
    k = 0
    for (s, d, p) in transfers:
        k += 1
        L.append('<reaction id="r%d" reversible="false" fast="false"><listOfReactants>'
                 '<speciesReference species="drug_%s"/></listOfReactants><listOfProducts>'
                 '<speciesReference species="drug_%s"/></listOfProducts><kineticLaw>'
                 '<math xmlns="http://www.w3.org/1998/Math/MathML"><apply><times/><ci> %s </ci><ci> %s </ci>'
                 '<ci> drug_%s </ci></apply></math></kineticLaw></reaction>' % (k, s, d, s, p, s))
    for (c, p) in elim:
        k += 1
        L.append('<reaction id="r%d" reversible="false" fast="false"><listOfReactants>'
                 '<speciesReference species="drug_%s"/></listOfReactants><kineticLaw>'
                 '<math xmlns="http://www.w3.org/1998/Math/MathML"><apply><times/><ci> %s </ci><ci> %s </ci>'
                 '<ci> drug_%s </ci></apply></math></kineticLaw></reaction>' % (k, c, c, p, c))
    L += ['</listOfReactions>', '</model>', '</sbml>']
    return '\n'.join(L)


GENERATED = {
    # declaration order of the states differs from the alphabetical one
    'gen_two_comp': (['peripheral', 'central'],
                     [('central', 'peripheral', 'k_cp'), ('peripheral', 'central', 'k_pc')],
                     [('central', 'elimination_rate')]),
    # a component that is already called `dose` (and one `dose_1`): add_component_allow_renaming
    'gen_dose_clash': (['dose', 'central', 'dose_1'],
                       [('dose', 'central', 'k_a'), ('central', 'dose_1', 'k_x')],
                       [('central', 'k_e')]),
    'gen_three_comp': (['zeta', 'alpha', 'mid'],
                       [('alpha', 'mid', 'k_am'), ('mid', 'zeta', 'k_mz'), ('zeta', 'alpha', 'k_za')],
                       [('mid', 'k_e'), ('alpha', 'a_e')]),
}


class ModelKit:
    """a model family: how to construct it and what myokit says about its SBML file (independent of chi)"""

    def __init__(self, chi, name, path, cls):
        self.chi = chi
        self.name = name
        self.path = path
        self.cls = cls
        self.pkpd = cls is chi.PKPDModel
        mm = sbml.SBMLImporter().model(path)
        self.comps = [c.name() for c in mm.components()]
        self.states = [v.qname() for v in mm.states()]
        self.consts = [v.qname() for v in mm.variables(const=True, deep=True) if v.is_literal()]
        self.inters = [v.qname() for v in mm.variables(inter=True, deep=True)]
        known = set(self.states + self.consts + self.inters)
        self.others = [v.qname() for v in mm.variables(deep=True) if v.qname() not in known]
        self.doseable = [tuple(s.split('.', 1)) for s in self.states]
        # hypothesis `Base.WF` of the partial theorems: every variable is declared once
        assert len(set(self.states + self.consts)) == len(self.states + self.consts), name
        dose = 'dose'
        i = 0
        while dose in self.comps:
            i += 1
            dose = 'dose_%d' % i
        self.dose_state = dose + '.drug_amount'
        self.dose_const = dose + '.absorption_rate'

    def base(self):
        return [self.pkpd, self.comps, self.states, self.consts, self.inters, self.others]

    def new(self):
        return self.cls(self.path)


def make_kits(chi, workdir):
    lib = os.path.join(os.path.dirname(os.path.abspath(chi.__file__)), 'library', 'model_library')
    kits = [
        ModelKit(chi, 'one_comp', os.path.join(lib, 'pk_one_comp.xml'), chi.PKPDModel),
        ModelKit(chi, 'erlotinib', os.path.join(lib, 'temporary_full_pkpd_model.xml'), chi.PKPDModel),
        ModelKit(chi, 'koch', os.path.join(lib, 'tgi_Koch_2009.xml'), chi.SBMLModel),
        ModelKit(chi, 'koch_reparam', os.path.join(lib, 'tgi_Koch_2009_reparametrised.xml'), chi.SBMLModel),
    ]
    for name, (comps, tr, el) in GENERATED.items():
        path = os.path.join(workdir, name + '.xml')
        with open(path, 'w') as fh:
            fh.write(sbml_text(comps, tr, el, name))
        kits.append(ModelKit(chi, name, path, chi.PKPDModel))
    return {k.name: k for k in kits}


# ----------------------------------------------------------------------------------------
# regimens, values
# ----------------------------------------------------------------------------------------
def regimen_protocol(i):
    r = REGIMENS[i]
    if r == 'protocol':
        p = myokit.Protocol()
        p.schedule(level=4.0, start=0.25, duration=0.5)
        return p
    period = r.get('period')
    num = r.get('num')
    if num is None:
        num = 0
    if period is None:
        period, num = 0, 0
    return myokit.pacing.blocktrain(period=period, duration=r['duration'], offset=r['start'],
                                    level=r['dose'] / r['duration'], limit=num)


REG_CODE = {}


def reg_id(protocol_or_code):
    if not REG_CODE:
        for i in range(len(REGIMENS)):
            REG_CODE[regimen_protocol(i).code()] = i
    if protocol_or_code is None:
        return None
    code = protocol_or_code if isinstance(protocol_or_code, str) else protocol_or_code.code()
    return REG_CODE.get(code, 'unknown-protocol')


def arg_value(i):
    return 0.5 + 0.125 * i            # distinct dyadic values


def fixed_value(v):
    return 0.3125 + 0.0625 * (v % 3) + 4.0 * (v // 3 + 1)   # distinct from every arg value


def src_of(x, n_args, fixed_ids):
    for i in range(n_args):
        if x == arg_value(i):
            return 'a%d' % i
    for v in fixed_ids:
        if x == fixed_value(v):
            return 'f%d' % v
    return 'g'


# ----------------------------------------------------------------------------------------
# running ops on chi
# ----------------------------------------------------------------------------------------
class Live:
    """a chi object under a history"""

    def __init__(self, kit):
        self.kit = kit
        self.m = kit.new()
        self.wrapped = False
        self.fixed_ids = []

    def inner(self):
        return self.m.mechanistic_model() if self.wrapped else self.m

    def clone(self):
        c = Live.__new__(Live)
        c.kit = self.kit
        c.m = self.m.copy()
        c.wrapped = self.wrapped
        c.fixed_ids = list(self.fixed_ids)
        return c


def first_wins(pairs):
    """the dictionary a list of pairs denotes in the model (association list: the first entry of a key counts)"""
    d = {}
    for a, b in pairs:
        d.setdefault(a, b)
    return d


def apply_op(live, op):
    """returns 'ok' or the exception kind"""
    chi = live.kit.chi
    m = live.m
    try:
        k = op[0]
        if k == 'adm':
            m.set_administration(op[1], amount_var=op[2], direct=op[3])
        elif k == 'reg':
            r = REGIMENS[op[1]]
            if r == 'protocol':
                m.set_dosing_regimen(regimen_protocol(op[1]))
            else:
                m.set_dosing_regimen(**r)
        elif k == 'out':
            m.set_outputs(list(op[1]))
        elif k == 'pn':
            m.set_parameter_names(first_wins(op[1]))
        elif k == 'on':
            m.set_output_names(first_wins(op[1]))
        elif k == 'sens':
            if op[2] is None:
                m.enable_sensitivities(op[1])
            else:
                m.enable_sensitivities(op[1], list(op[2]))
        elif k == 'wrap':
            if not live.wrapped:
                live.m = chi.ReducedMechanisticModel(m)
                live.wrapped = True
        elif k == 'fix':
            for _, v in op[1]:
                if v is not None and v not in live.fixed_ids:
                    live.fixed_ids.append(v)
            m.fix_parameters({a: (None if v is None else fixed_value(v)) for a, v in first_wins(op[1]).items()})
        elif k == 'copy':
            live.m = m.copy()
        else:
            raise RuntimeError('unknown op ' + str(op))
    except Exception as e:  # noqa   (any exception is an outcome; unknown kinds show up as a disagreement)
        return core.errkind(e)
    return 'ok'


def observe(live, simulate=True):
    """public observables + the solver call record of one simulate"""
    m = live.m
    o = {}
    try:
        o['params'] = [str(x) for x in m.parameters()]
    except Exception as e:  # noqa
        o['params'] = None
    o['n'] = int(m.n_parameters())
    try:
        o['outputs'] = [str(x) for x in m.outputs()]
    except Exception as e:  # noqa
        o['outputs'] = None
    try:
        reg = m.dosing_regimen()
    except AttributeError:
        reg = None
    o['regimen'] = reg_id(reg)
    o['hasSens'] = bool(m.has_sensitivities())
    if not simulate:
        return o
    n = o['n']
    drain()
    p = [arg_value(i) for i in range(n)]
    try:
        with np.errstate(all='ignore'), QuietStdout():
            res = m.simulate(np.array(p), list(TIMES))
        raised = None
    except Exception as e:  # noqa
        res = None
        raised = type(e).__name__ + ': ' + str(e)[:80]
    rec = drain()
    o['raised'] = raised
    if res is None:
        o['sim'] = None
        o['values'] = None
        o['sens_values'] = None
        o['applied'] = 'raises'
        o['emptyGrid'] = empty_grid(m, p)
        return o
    if isinstance(res, tuple):
        o['values'] = np.asarray(res[0], float).tolist()
        o['sens_values'] = np.asarray(res[1], float).tolist()
    else:
        o['values'] = np.asarray(res, float).tolist()
        o['sens_values'] = None
    sid = rec[-1][0]
    info = SIMS.get(sid, {'states': None, 'pace': None})
    state_assign, const_assign, run = [], [], None
    for s, call, payload in rec:
        if s != sid:
            continue
        if call == 'set_state':
            state_assign = [[k_, src_of(v_, n, live.fixed_ids)] for k_, v_ in payload.items()]
        elif call == 'set_constant':
            const_assign.append([payload[0], src_of(payload[1], n, live.fixed_ids)])
        elif call == 'run':
            run = payload
    sens = run['sensitivities']
    o['applied'] = reg_id(run['protocol'])
    o['sim'] = [info['states'], info['pace'], o['applied'],
                None if sens is None else [list(sens[0]), list(sens[1])],
                state_assign, const_assign, list(run['log'])]
    o['emptyGrid'] = empty_grid(m, p)
    return o


def empty_grid(m, p):
    """`simulate` on an empty time grid: [rows of the output block, columns of the sensitivity block or None];
    'bad-shape:…' if the blocks do not have the documented shapes; None if it raises"""
    try:
        with np.errstate(all='ignore'), QuietStdout():
            res = m.simulate(np.array(p), [])
    except Exception:  # noqa
        drain()
        return None
    drain()
    if isinstance(res, tuple):
        out, sens = np.asarray(res[0]), np.asarray(res[1])
        if out.ndim != 2 or out.shape[1] != 0 or sens.ndim != 3 or sens.shape[0] != 0 \
                or sens.shape[1] != out.shape[0]:
            return 'bad-shape:%s/%s' % (out.shape, sens.shape)
        return [int(out.shape[0]), int(sens.shape[2])]
    out = np.asarray(res)
    if out.ndim != 2 or out.shape[1] != 0:
        return 'bad-shape:%s' % (out.shape,)
    return [int(out.shape[0]), None]


def lean_obs(v, with_sim=True):
    """Lean `Obs` → the same shape as `observe`"""
    d = {'params': v[0], 'n': v[1], 'outputs': v[2], 'regimen': v[3], 'hasSens': v[4]}
    if with_sim:
        d['sim'] = v[5]
        d['emptyGrid'] = v[6]
    return d


def public_part(o):
    return {k: o[k] for k in ('params', 'n', 'outputs', 'regimen', 'hasSens')}


# ----------------------------------------------------------------------------------------
# op generation (looks at the live object so that names are current)
# ----------------------------------------------------------------------------------------
class Gen:
    def __init__(self, rng, kit, focus=None):
        self.rng = rng
        self.kit = kit
        self.counter = 0
        self.fix_counter = 0
        self.last_sens = None
        self.focus = focus          # None | 'all_fixed' (histories around the wrapper with NO free parameter)

    def fresh_name(self, stem):
        self.counter += 1
        return '%s%d' % (stem, self.counter)

    def pick(self, seq):
        return seq[int(self.rng.integers(len(seq)))]

    def subset(self, seq, lo=1, hi=3):
        k = int(self.rng.integers(lo, min(hi, len(seq)) + 1)) if seq else 0
        idx = self.rng.choice(len(seq), size=k, replace=False) if k else []
        return [seq[int(i)] for i in idx]

    def new_fixed(self):
        self.fix_counter += 1
        return self.fix_counter - 1

    def op_all_fixed(self, live):
        """the boundary of `fix_parameters`: a wrapper whose parameters are ALL fixed (n_parameters() == 0, the
        sensitivities are an empty block, the wrapped model's are off) — reached in one call or several, before or
        after sensitivities were requested; there: on / off, release one / all, re-fix, and every other call.
        None = draw from the general alphabet"""
        rng = self.rng
        m = live.m
        u = rng.random()
        if not live.wrapped:
            if u < 0.45:
                return ['wrap']
            if u < 0.65:
                return ['sens', bool(rng.random() < 0.7), None]
            return None
        cur = list(dict.fromkeys(str(x) for x in live.inner().parameters()))
        free = list(dict.fromkeys(str(x) for x in m.parameters()))
        fixed = [x for x in cur if x not in free]
        if free:
            if u < 0.4:
                return ['fix', [[nme, self.new_fixed()] for nme in free]]          # fix whatever is still free
            if u < 0.5 and len(free) >= 2:
                k = int(rng.integers(1, len(free)))                                # ... in two calls
                return ['fix', [[nme, self.new_fixed()] for nme in free[:k]]]
            if u < 0.7:
                return ['sens', bool(rng.random() < 0.6), None]
            return None
        if u < 0.36:
            return ['sens', bool(rng.random() < 0.5), None]
        if u < 0.54:
            return ['fix', [[self.pick(fixed), None]]]                             # release one
        if u < 0.6:
            return ['fix', [[nme, None] for nme in fixed]]                         # release all
        if u < 0.68:
            return ['fix', [[self.pick(fixed), self.new_fixed()]]]                 # another value, still all fixed
        return None

    def op(self, live):
        rng, kit = self.rng, self.kit
        if self.focus == 'all_fixed':
            op = self.op_all_fixed(live)
            if op is not None:
                return op
        kinds = ['out', 'pn', 'on', 'sens', 'sens', 'copy']
        if kit.pkpd:
            kinds += ['reg', 'reg']
        if not live.wrapped:
            kinds += ['adm', 'adm', 'adm'] if kit.pkpd else []
            kinds += ['wrap'] if rng.random() < 0.5 else []
        else:
            kinds += ['fix', 'fix', 'fix']
        if rng.random() < 0.04:                      # calls the object does not support
            kinds = ['adm', 'reg', 'fix']
        k = self.pick(kinds)
        m = live.m
        if k == 'adm':
            u = rng.random()
            if u < 0.88 and kit.doseable:
                c, v = self.pick(kit.doseable)
            elif u < 0.92:
                c, v = 'nowhere', 'drug_amount'
            elif u < 0.96 and kit.consts:
                c, v = self.pick(kit.consts).split('.', 1)     # exists, not a state
            else:
                c, v = (kit.doseable[0][0] if kit.doseable else kit.comps[0]), 'no_such_variable'
            return ['adm', c, v, bool(rng.random() < 0.5)]
        if k == 'reg':
            return ['reg', int(rng.integers(len(REGIMENS)))]
        if k == 'out':
            pool = list(kit.states) + list(kit.inters) + [kit.dose_state]
            cur = m.outputs()
            if cur:
                pool += [str(x) for x in cur]
            outs = self.subset(pool, 1, 3)
            u = rng.random()
            if u < 0.05:
                outs.append(self.pick(kit.consts))               # ValueError
            elif u < 0.1:
                outs.append('no.such_variable')                   # KeyError
            elif u < 0.18:
                outs.append(outs[0])                              # duplicate
            elif u < 0.22 and kit.doseable:
                outs.append(kit.doseable[0][0] + '.dose_rate')    # bound to pace once dosed: ValueError
            return ['out', outs]
        if k in ('pn', 'on'):
            cur = [str(x) for x in (live.inner().parameters() if k == 'pn' else m.outputs())]
            stem = 'P' if k == 'pn' else 'O'
            olds = self.subset(list(dict.fromkeys(cur)), 1, 2)
            pairs = [[o_, self.fresh_name(stem)] for o_ in olds]
            u = rng.random()
            if u < 0.06 and len(pairs) == 2:
                pairs[1][1] = pairs[0][1]                         # not unique
            elif u < 0.12 and len(cur) >= 2:
                pairs[0][1] = self.pick([c for c in cur])         # coincides with an existing name
            elif u < 0.2:
                pairs.append(['not_a_name', self.fresh_name(stem)])   # ignored
            elif u < 0.26:
                # a default name that is not displayed at the moment (its owner was renamed, or it belongs to
                # the depot of the other route): accepted; the net configuration may then need two calls
                free_defaults = [n for n in kit.states + kit.consts + [kit.dose_state, kit.dose_const]
                                 if n not in cur]
                if free_defaults:
                    pairs[0][1] = self.pick(free_defaults)
            return [k, pairs]
        if k == 'sens' and not live.wrapped and self.last_sens and m.has_sensitivities() and rng.random() < 0.45:
            # a second request for a DIFFERENT selection of the SAME size (round-3 seed C11-5: anything cached
            # per "shape" of a request — counts, lengths — is stale exactly here)
            cur = list(dict.fromkeys(str(x) for x in m.parameters()))
            if len(cur) > len(self.last_sens):
                for _ in range(6):
                    names = self.subset(cur, len(self.last_sens), len(self.last_sens))
                    if set(names) != set(self.last_sens):
                        self.last_sens = names
                        return ['sens', True, names]
        if k == 'sens':
            on = bool(rng.random() < 0.7)
            u = rng.random()
            if live.wrapped:
                if u < 0.05:
                    return ['sens', on, ['x']]                    # TypeError
                return ['sens', on, None]
            if u < 0.55:
                return ['sens', on, None]
            if u < 0.62:
                return ['sens', on, ['no_such_parameter']]
            names = self.subset([str(x) for x in m.parameters()], 1, 3)
            if on:
                self.last_sens = names
            return ['sens', on, names]
        if k == 'fix':
            if not live.wrapped:
                return ['fix', [['x', 0]]]                        # AttributeError
            # (a Python dict cannot repeat a key: two parameters may display the same name after renaming one
            # to the default name of a depot parameter and then selecting the indirect route)
            cur = list(dict.fromkeys(str(x) for x in live.inner().parameters()))
            free = [str(x) for x in m.parameters()]
            fixed = [x for x in cur if x not in free]
            if fixed and free and rng.random() < 0.35:
                # one call that releases a fixed parameter and fixes a free one: the number of free parameters
                # (and of sensitivity columns) stays, their identity changes
                self.fix_counter += 1
                return ['fix', [[self.pick(fixed), None], [self.pick(free), self.fix_counter - 1]]]
            names = self.subset(cur, 1, 2)
            pairs = []
            for nme in names:
                if rng.random() < 0.3:
                    pairs.append([nme, None])
                else:
                    pairs.append([nme, self.fix_counter])
                    self.fix_counter += 1
            if rng.random() < 0.03:                               # fix everything
                pairs = []
                for nme in cur:
                    pairs.append([nme, self.fix_counter])
                    self.fix_counter += 1
            return ['fix', pairs]
        return [k]


# ----------------------------------------------------------------------------------------
# history classes (signatures of the known findings)
# ----------------------------------------------------------------------------------------
def history_classes(ops, outcomes):
    """predicates on the history (successful calls only)"""
    cls = []
    seen_indirect = seen_reg = seen_rename = False
    for op, oc in zip(ops, outcomes):
        if oc != 'ok':
            continue
        if op[0] == 'adm':
            if op[3] and seen_indirect and 'direct_after_indirect' not in cls:
                cls.append('direct_after_indirect')
            if seen_reg and 'readmin_after_regimen' not in cls:
                cls.append('readmin_after_regimen')
            if (not op[3]) and seen_rename and 'rename_then_indirect' not in cls:
                cls.append('rename_then_indirect')
            if not op[3]:
                seen_indirect = True
        elif op[0] == 'reg':
            seen_reg = True
        elif op[0] in ('pn', 'on'):
            seen_rename = True
    order = ['direct_after_indirect', 'readmin_after_regimen', 'rename_then_indirect']
    return [c for c in order if c in cls]


# ----------------------------------------------------------------------------------------
# fresh object with the net configuration
# ----------------------------------------------------------------------------------------
def python_canonical(cfg):
    """the calls that apply the configuration `cfg` (Lean `Config`) to a new object, computed here
    independently of Lean's `canonical` (compared with it on every case)"""
    admin, regimen, outputs, pmap, omap, sens, red = cfg
    steps = []
    if admin is not None:
        steps.append(['adm', admin[0], admin[1], admin[2]])
    ren = [[k, v] for k, v in pmap if k != v]
    if ren:
        steps.append(['pn', ren])
    steps.append(['out', list(outputs)])
    oren = [[k, v] for k, v in omap if k != v]
    if oren:
        steps.append(['on', oren])
    if regimen is not None:
        steps.append(['reg', regimen])
    if sens is not None:
        pm = dict((k, v) for k, v in pmap)
        names = []
        for e in sens:
            key = e[5:-1] if e.startswith('init(') else e
            names.append(pm.get(key, key))
        steps.append(['sens', True, names])
    if red is not None:
        steps.append(['wrap'])
        mask, values, empty_sens = red
        if mask is not None:
            public = [v for _, v in pmap]
            pairs = []
            for i, fx in enumerate(mask):
                if fx:
                    pairs.append([public[i], int(values[i][1:])])
            steps.append(['fix', pairs])
        if empty_sens:
            steps.append(['sens', True, None])
    return steps


def build_fresh(kit, steps):
    """a new chi object to which only the given calls are applied"""
    live = Live(kit)
    outcomes = [apply_op(live, s) for s in steps]
    return live, outcomes


def drop_empty_renames(steps):
    return [s for s in steps if not (s[0] in ('pn', 'on') and not s[1])]


def same_behaviour(a, b, ignore_sens=False):
    """compare two `observe` results of chi objects: names, counts, outputs, regimen, simulation"""
    diffs = []
    for k in ('params', 'n', 'outputs', 'regimen'):
        if a[k] != b[k]:
            diffs.append(k)
    if not ignore_sens and a['hasSens'] != b['hasSens']:
        diffs.append('hasSens')
    if (a.get('values') is None) != (b.get('values') is None):
        diffs.append('simulate-raises')
    elif a.get('values') is not None:
        if not core.close(a['values'], b['values'], rtol=1e-7, atol=1e-10):
            diffs.append('values')
        if not ignore_sens:
            if (a['sens_values'] is None) != (b['sens_values'] is None):
                diffs.append('sens-presence')
            elif a['sens_values'] is not None and not core.close(a['sens_values'], b['sens_values'],
                                                                 rtol=1e-6, atol=1e-9):
                diffs.append('sens-values')
        sa, sb = a['sim'], b['sim']
        rec_a = [sa[0], sa[1], sa[2], sa[4], sa[5], sa[6]] + ([] if ignore_sens else [sa[3]])
        rec_b = [sb[0], sb[1], sb[2], sb[4], sb[5], sb[6]] + ([] if ignore_sens else [sb[3]])
        if rec_a != rec_b:
            diffs.append('call-record')
    ea, eb = a.get('emptyGrid'), b.get('emptyGrid')
    if isinstance(ea, str) or isinstance(eb, str):
        diffs.append('empty-grid-shape')
    elif ignore_sens:
        if (ea is None) != (eb is None) or (ea is not None and ea[0] != eb[0]):
            diffs.append('empty-grid')
    elif ea != eb:
        diffs.append('empty-grid')
    return diffs


# ----------------------------------------------------------------------------------------
# one history
# ----------------------------------------------------------------------------------------
def run_history(ctx, kit, source, length, label, sim_prob=0.15, copy_check=False, rng=None):
    """`source` is a Gen (ops are drawn while the history runs) or an explicit list of ops"""
    live = Live(kit)
    ops, outcomes, public, mid_sims = [], [], [], {}
    explicit = isinstance(source, list)
    n = len(source) if explicit else length
    for i in range(n):
        op = source[i] if explicit else source.op(live)
        oc = apply_op(live, op)
        ops.append(op)
        outcomes.append(oc)
        if oc != 'ok':
            ctx.errkinds.add(oc)
        simulate_here = (not explicit) and rng is not None and rng.random() < sim_prob and i < n - 1
        o = observe(live, simulate=simulate_here)
        public.append(public_part(o))
        if simulate_here:
            mid_sims[i] = o
    final = observe(live, simulate=True)
    inp = {'model': kit.name, 'ops': ops, 'label': label}
    kinds = [o[0] + ('' if oc == 'ok' else '!') for o, oc in zip(ops, outcomes)]
    n_ok_kinds = len(set(o[0] for o, oc in zip(ops, outcomes) if oc == 'ok'))
    ctx.case('%s/len%d' % (kit.name, min(len(ops), 9)),
             nontrivial=('%s/%s' % (kit.name, ','.join(kinds))) if n_ok_kinds >= 2 else False, sample=inp)

    # ---- (a) correspondence with the Lean state machine (the code as it is)
    ref = ctx.model('C11.run', kit.base(), False, ops)
    spec = ctx.model('C11.spec', kit.base(), ops)
    spec_final = lean_obs(spec[1][-1])
    ctx.agree('C11.step_outcomes', outcomes, ref[0], inp)
    for i in range(len(ops)):
        ctx.agree('C11.observe_public', public[i], lean_obs(ref[1][i + 1], False), dict(inp, after_step=i))
    for i, o in mid_sims.items():
        ctx.agree('C11.simulate_record', o['sim'], lean_obs(ref[1][i + 1])['sim'], dict(inp, after_step=i))
        ctx.agree('C11.empty_grid', o['emptyGrid'], lean_obs(ref[1][i + 1])['emptyGrid'], dict(inp, after_step=i))
    ctx.agree('C11.simulate_record', final['sim'], lean_obs(ref[1][-1])['sim'], inp)
    ctx.agree('C11.empty_grid', final['emptyGrid'], lean_obs(ref[1][-1])['emptyGrid'], inp)
    # the object machine is the configuration machine (theorem C11_net_config, re-checked on this input)
    ctx.agree('C11.model_eq_spec', [ref[0], ref[1]], [spec[0], spec[1]], inp)
    classes = history_classes(ops, outcomes)
    for c in classes:
        ctx.branches.add('class:' + c)          # formerly defective history classes, now plain coverage

    # ---- (b) the property on chi: fresh object + net configuration
    cfg = spec[2]
    steps = spec[4]                     # Lean `canonical (net ops)`: theorem C11_canonical_reaches is about these
    ctx.agree('C11.canonical_calls', drop_empty_renames(steps), python_canonical(cfg), inp)
    # hypothesis `Canon` of C11_canonical_reaches / C11_net_config_by_calls, evaluated on this net configuration.
    # It fails only when displayed names collide with default names / each other across several renamings; the
    # one-call-per-setting construction of the fresh object is then not available and (b) is skipped
    canon_ok = bool(spec[5])
    ctx.branches.add('canon:' + str(canon_ok))
    if canon_ok:
        fresh, fouts = build_fresh(kit, steps)
        fm = ctx.model('C11.run', kit.base(), False, steps)
        ctx.agree('C11.canonical_calls_reach_net_config', lean_obs(fm[1][-1]), spec_final, dict(inp, steps=steps))
        ok_fresh = (fouts == fm[0])
        ctx.spec('C11.fresh_constructible', ok_fresh and all(x == 'ok' for x in fouts), inp,
                 {'steps': steps, 'outcomes': fouts, 'model': fm[0]})
        if ok_fresh:
            fobs = observe(fresh, simulate=True)
            diffs = same_behaviour(final, fobs)
            ctx.spec('C11.net_config', not diffs, inp,
                     {'differs_in': diffs, 'classes': classes, 'net': cfg,
                      'history': {k: final.get(k) for k in ('params', 'n', 'outputs', 'regimen', 'hasSens', 'raised')},
                      'fresh': {k: fobs.get(k) for k in ('params', 'n', 'outputs', 'regimen', 'hasSens', 'raised')}})
            # the fresh object itself must be what the model says a fresh object is
            ctx.agree('C11.fresh_object', dict(public_part(fobs), sim=fobs['sim'], emptyGrid=fobs['emptyGrid']), spec_final, inp)
    # ---- (b') the property after EVERY call, not only at the end of the history: a deviation that a later call
    # repairs (set_outputs / copy reset the sensitivity setting, set_administration rebuilds the tables) is a
    # deviation.  Reference: the observables of `fresh (net prefix)` (Lean, spec side).  The first deviating
    # prefix is then run as a history of its own, which compares chi with a freshly built chi object.
    first_bad = None
    for i in range(len(ops)):
        want = public_part(lean_obs(spec[1][i + 1], False))
        ok = (public[i] == want)
        if i in mid_sims:
            want_full = lean_obs(spec[1][i + 1])
            ok = ok and mid_sims[i]['sim'] == want_full['sim'] and mid_sims[i]['emptyGrid'] == want_full['emptyGrid']
        ctx.spec('C11.net_config/after_call', ok, dict(inp, after_step=i),
                 {'history': public[i], 'fresh_object_of_the_net_configuration': want})
        if not ok and first_bad is None:
            first_bad = i
    if first_bad is not None and first_bad < len(ops) - 1 and label != 'prefix':
        run_history(ctx, kit, [list(o) for o in ops[:first_bad + 1]], first_bad + 1, 'prefix')
    # the sensitivity setting is changed by enable_sensitivities only (theorems C11_only_enable_switches_on,
    # C11_disable_switches_off, C11_enable_switches_on, C11_fix_keeps_sens_setting), on chi alone:
    # has_sensitivities() after each successful call vs the call and has_sensitivities() before it
    prev = False
    for i, (op, oc) in enumerate(zip(ops, outcomes)):
        now = public[i]['hasSens']
        if oc == 'ok':
            at = dict(inp, after_step=i)
            if op[0] == 'sens':
                ctx.spec('C11.sens_setting/as_requested', now == bool(op[1]), at, {'requested': op[1], 'reported': now})
            elif op[0] == 'fix':
                ctx.spec('C11.sens_setting/kept_by_fix', now == prev, at, {'before': prev, 'after': now})
            elif not prev:
                ctx.spec('C11.sens_setting/stays_off', not now, at, {'call': op[0], 'reported': now})
        prev = now
    # simulate returns the sensitivities exactly when has_sensitivities() says so, and the empty time grid returns
    # the shapes of a regular simulate (theorem C11_empty_grid_shape), on chi alone
    for after, o in [(None, final)] + sorted(mid_sims.items()):
        if o.get('values') is not None:
            at = inp if after is None else dict(inp, after_step=after)
            ctx.spec('C11.simulate_returns_sens_iff_enabled', (o['sens_values'] is not None) == o['hasSens'], at,
                     {'has_sensitivities': o['hasSens'], 'tuple_returned': o['sens_values'] is not None})
            cols = None if o['sens_values'] is None else len(o['sens_values'][0][0])
            ctx.spec('C11.empty_grid_shape', o['emptyGrid'] == [len(o['values']), cols], at,
                     {'empty_grid': o['emptyGrid'], 'regular': [len(o['values']), cols]})
    # simulate never raises after a history of configuration calls (theorem C11_simulate_never_raises)
    ctx.spec('C11.simulate_runs', final['applied'] != 'raises', inp, {'raised': final.get('raised')})
    # reported regimen = applied protocol
    if final['applied'] != 'raises':
        ctx.spec('C11.regimen_applied', final['applied'] == final['regimen'], inp,
                 {'reported': final['regimen'], 'applied': final['applied']})
    for i, o in mid_sims.items():
        ctx.spec('C11.simulate_runs', o['applied'] != 'raises', dict(inp, after_step=i), {'raised': o.get('raised')})
        if o['applied'] != 'raises':
            ctx.spec('C11.regimen_applied', o['applied'] == o['regimen'], dict(inp, after_step=i),
                     {'reported': o['regimen'], 'applied': o['applied']})

    # ---- (c) copies
    if copy_check and rng is not None:
        copy_checks(ctx, kit, live, final, ops, rng, minimal=label.startswith('witness'))
    return live, ops, outcomes


def strip_sens(sim):
    return None if sim is None else [sim[0], sim[1], sim[2], None, sim[4], sim[5], sim[6]]


def minimal_mutations(live):
    """the smallest in-place changes: one more fixed parameter (mask / value buffer), one renamed parameter and
    output (name dictionaries), a regimen (solver object)"""
    m = live.m
    muts = []
    free = [str(x) for x in m.parameters()]
    if live.wrapped and free:
        muts.append(['fix', [[free[0], 900]]])
    inner = [str(x) for x in live.inner().parameters()]
    if inner:
        muts.append(['pn', [[inner[-1], 'Z900']]])
    outs = [str(x) for x in m.outputs()]
    if outs:
        muts.append(['on', [[outs[0], 'Y900']]])
    if live.kit.pkpd:
        muts.append(['reg', 1])
    return muts


def copy_checks(ctx, kit, live, before, ops, rng, explicit=None, minimal=False):
    inp = {'model': kit.name, 'ops': ops, 'label': 'copy'}
    try:
        cp = live.clone()
    except Exception as e:  # noqa
        ctx.spec('C11.copy/same', False, inp, {'copy raised': repr(e)[:200]})
        return
    cobs = observe(cp, simulate=True)
    # the model's copy
    mc = ctx.model('C11.run', kit.base(), False, ops + [['copy']])
    m_orig, m_copy = lean_obs(mc[1][-2]), lean_obs(mc[1][-1])
    ctx.agree('C11.copy_observe', dict(public_part(cobs), sim=cobs['sim'], emptyGrid=cobs['emptyGrid']), m_copy, inp)
    diffs = same_behaviour(before, cobs, ignore_sens=True)
    if cobs['hasSens']:
        diffs.append('copy has sensitivities enabled')      # documented: copying resets them
    if cobs['sens_values'] is not None:
        diffs.append('copy returns sensitivities')
    # C11_copy_same on this input: the model's copy makes the original's solver calls
    ctx.agree('C11.model_copy_same', [strip_sens(m_copy['sim'])] + [m_copy[k] for k in ('params', 'n', 'outputs', 'regimen')],
              [strip_sens(m_orig['sim'])] + [m_orig[k] for k in ('params', 'n', 'outputs', 'regimen')], inp)
    ctx.spec('C11.copy/same', not diffs, inp, {'differs_in': diffs})
    orig_after_copy = observe(live, simulate=True)
    ctx.spec('C11.copy/original_unchanged_by_copying', not same_behaviour(before, orig_after_copy), inp,
             {'differs_in': same_behaviour(before, orig_after_copy)})
    # mutate one, the other must not move
    for who in ('original', 'copy'):
        if explicit is not None and explicit['mutated'] != who:
            continue
        target, other, other_before = (live, cp, cobs) if who == 'original' else (cp, live, None)
        if other_before is None:
            other_before = observe(other, simulate=True)
        g = Gen(rng, kit)
        g.counter = 1000 + (0 if who == 'original' else 500)
        g.fix_counter = 300 + (0 if who == 'original' else 50)
        muts = []
        if explicit is not None:
            for op in explicit['mutations']:
                apply_op(target, op)
                muts.append(op)
        elif minimal:
            for op in minimal_mutations(target):
                apply_op(target, op)
                muts.append(op)
        else:
            for _ in range(3):
                op = g.op(target)
                if op[0] == 'copy':
                    continue
                apply_op(target, op)
                muts.append(op)
        # a simulate on the mutated object (writes into the wrapper's value buffer)
        observe(target, simulate=True)
        other_after = observe(other, simulate=True)
        d = same_behaviour(other_before, other_after)
        ctx.spec('C11.copy/independent', not d, dict(inp, mutated=who, mutations=muts), {'differs_in': d})


# ----------------------------------------------------------------------------------------
# witnesses of the counterexample theorems, replayed on chi
# ----------------------------------------------------------------------------------------
WITNESSES = [
    ('direct_after_indirect', [['adm', 'central', 'drug_amount', False], ['adm', 'central', 'drug_amount', True]]),
    ('readmin_after_regimen', [['adm', 'central', 'drug_amount', True], ['reg', 0],
                               ['adm', 'central', 'drug_amount', True]]),
    ('rename_then_indirect', [['pn', [['central.size', 'V']]], ['adm', 'central', 'drug_amount', False]]),
    ('copy_with_sens', [['adm', 'central', 'drug_amount', True], ['reg', 0], ['sens', True, None], ['copy']]),
    ('well_ordered', [['adm', 'central', 'drug_amount', False], ['pn', [['dose.absorption_rate', 'ka']]],
                      ['out', ['central.drug_amount', 'dose.drug_amount']], ['reg', 1],
                      ['sens', True, ['ka']], ['wrap'], ['fix', [['central.size', 0]]]]),
    ('regimen', [['adm', 'central', 'drug_amount', True], ['reg', 0]]),
    ('regimen_protocol_object', [['adm', 'central', 'drug_amount', False], ['reg', 3]]),
    ('sens_on_off', [['adm', 'central', 'drug_amount', True], ['reg', 2], ['sens', True, None],
                     ['sens', False, None]]),
    ('sens_then_admin', [['sens', True, None], ['adm', 'central', 'drug_amount', True]]),
    ('rename_reselect', [['on', [['central.drug_amount', 'amt']]],
                         ['out', ['central.drug_concentration', 'amt']], ['out', ['amt']]]),
    ('fix_unfix', [['wrap'], ['fix', [['central.size', 0], ['global.elimination_rate', 1]]],
                   ['fix', [['central.size', None]]]]),
    ('wrapped_rename', [['wrap'], ['pn', [['central.size', 'V']]], ['fix', [['V', 0]]],
                        ['pn', [['V', 'W']]], ['sens', True, None]]),
    ('outputs_after_empty_sens', [['wrap'], ['fix', [['central.drug_amount', 0], ['central.size', 1],
                                                      ['global.elimination_rate', 2]]],
                                  ['sens', True, None], ['out', ['central.drug_concentration']]]),
    ('all_fixed_then_unfix', [['sens', True, None], ['wrap'],
                              ['fix', [['central.drug_amount', 0], ['central.size', 1],
                                       ['global.elimination_rate', 2]]],
                              ['copy'], ['sens', True, None], ['fix', [['central.size', None]]]]),
    ('copy_with_empty_sens', [['wrap'], ['fix', [['central.drug_amount', 0], ['central.size', 1],
                                                  ['global.elimination_rate', 2]]],
                              ['sens', True, None], ['copy']]),
    # the wrapper with NO free parameter: sensitivities on / off / release / re-fix in every order
    ('all_fixed_on_off', [['wrap'], ['fix', [['central.drug_amount', 0], ['central.size', 1],
                                              ['global.elimination_rate', 2]]],
                          ['sens', True, None], ['sens', False, None]]),
    ('on_all_fixed_off', [['wrap'], ['sens', True, None],
                          ['fix', [['central.drug_amount', 0], ['central.size', 1], ['global.elimination_rate', 2]]],
                          ['sens', False, None]]),
    ('all_fixed_on_off_release', [['wrap'], ['fix', [['central.drug_amount', 0], ['central.size', 1],
                                                      ['global.elimination_rate', 2]]],
                                  ['sens', True, None], ['sens', False, None],
                                  ['fix', [['global.elimination_rate', None]]]]),
    ('all_fixed_on_release_off', [['wrap'], ['fix', [['central.drug_amount', 0], ['central.size', 1],
                                                      ['global.elimination_rate', 2]]],
                                  ['sens', True, None], ['fix', [['central.size', None]]], ['sens', False, None],
                                  ['fix', [['central.size', 3]]]]),
    ('all_fixed_in_two_calls_on_refix_off', [['sens', True, ['central.size']], ['wrap'],
                                             ['fix', [['central.drug_amount', 0]]],
                                             ['fix', [['central.size', 1], ['global.elimination_rate', 2]]],
                                             ['fix', [['central.size', 3]]], ['sens', False, None],
                                             ['fix', [['central.drug_amount', None], ['central.size', None],
                                                      ['global.elimination_rate', None]]]]),
    ('all_fixed_on_off_on_regimen', [['adm', 'central', 'drug_amount', False], ['reg', 0], ['wrap'],
                                     ['fix', [['central.drug_amount', 0], ['dose.drug_amount', 1],
                                              ['central.size', 2], ['dose.absorption_rate', 3],
                                              ['global.elimination_rate', 4]]],
                                     ['sens', True, None], ['sens', False, None], ['sens', True, None], ['reg', 1],
                                     ['fix', [['dose.absorption_rate', None]]]]),
    ('names_swapped_across_two_calls', [['pn', [['central.size', 'V']]],
                                        ['pn', [['global.elimination_rate', 'central.size']]],
                                        ['adm', 'central', 'drug_amount', False], ['sens', True, ['central.size']]]),
    ('sens_reselect_same_size', [['sens', True, ['central.size']], ['sens', True, ['global.elimination_rate']]]),
    ('sens_reselect_same_size_dosed', [['adm', 'central', 'drug_amount', False], ['reg', 1],
                                       ['sens', True, ['dose.absorption_rate', 'central.size']],
                                       ['sens', True, ['central.drug_amount', 'global.elimination_rate']]]),
    ('sens_reselect_after_rename', [['sens', True, ['central.size']], ['pn', [['central.size', 'V']]],
                                    ['sens', True, ['central.drug_amount']]]),
    ('sens_reselect_via_fix_swap', [['wrap'], ['fix', [['central.size', 0]]], ['sens', True, None],
                                    ['fix', [['central.size', None], ['global.elimination_rate', 1]]]]),
    ('sens_all_then_all_after_outputs', [['sens', True, None], ['out', ['central.drug_concentration']],
                                         ['sens', True, None]]),
    ('rename_to_a_displayed_name', [['pn', [['central.size', 'V']]], ['pn', [['global.elimination_rate', 'V']]]]),
    ('rename_back_to_default', [['pn', [['central.size', 'V']]], ['pn', [['V', 'central.size']]],
                                ['pn', [['global.elimination_rate', 'V']]]]),
    ('rename_to_former_depot_name', [['adm', 'central', 'drug_amount', False], ['adm', 'central', 'drug_amount', True],
                                     ['pn', [['central.size', 'dose.absorption_rate']]],
                                     ['sens', True, ['dose.absorption_rate']]]),
    ('stale_output_then_indirect', [['adm', 'central', 'drug_amount', False], ['out', ['dose.drug_amount']],
                                    ['adm', 'central', 'drug_amount', True],
                                    ['adm', 'central', 'drug_amount', False]]),
]


def exhaustive_alphabet():
    return [['adm', 'central', 'drug_amount', True], ['adm', 'central', 'drug_amount', False], ['reg', 0],
            ['out', ['central.drug_amount']], ['pn', [['central.size', 'V']]], ['sens', True, None], ['copy']]


def exhaustive_alphabet_sens():
    """re-selection of sensitivities: same-size selections, on / off, through the wrapper by fixing"""
    return [['adm', 'central', 'drug_amount', True], ['sens', True, None], ['sens', False, None],
            ['sens', True, ['central.drug_amount']], ['sens', True, ['global.elimination_rate']],
            ['out', ['central.drug_concentration']], ['wrap'], ['fix', [['central.size', 0]]],
            ['fix', [['central.size', None], ['global.elimination_rate', 1]]]]


def exhaustive_alphabet_all_fixed():
    """after `wrap`: the wrapper with every parameter fixed — sensitivities on / off, release, outputs"""
    return [['fix', [['central.drug_amount', 0], ['central.size', 1], ['global.elimination_rate', 2]]],
            ['fix', [['global.elimination_rate', None]]], ['sens', True, None], ['sens', False, None],
            ['out', ['central.drug_concentration']]]


def exhaustive_alphabet_wrapped():
    return [['adm', 'central', 'drug_amount', False], ['reg', 2],
            ['pn', [['central.size', 'V'], ['global.lambda', 'lam']]], ['wrap'],
            ['fix', [['V', 0], ['central.size', 1], ['global.kappa', 2]]], ['sens', True, None],
            ['out', ['global.tumour_volume', 'central.drug_concentration']]]


def exhaustive_alphabet_two_comp():
    return [['adm', 'central', 'drug_central_amount', True], ['adm', 'peripheral', 'drug_peripheral_amount', False],
            ['reg', 1], ['out', ['dose.drug_amount', 'central.drug_central_concentration']],
            ['pn', [['dose.absorption_rate', 'ka'], ['global.k_cp', 'kcp']]], ['sens', True, ['ka', 'kcp']],
            ['copy'], ['wrap'], ['fix', [['ka', 0], ['peripheral.size', 1]]]]


def run(ctx):
    chi = core.import_chi()
    myokit.Simulation = RecSim
    refsim.clear_record()
    with tempfile.TemporaryDirectory(prefix='c11_models_') as wd:
        kits = make_kits(chi, wd)
        names = list(kits)
        for label, ops in WITNESSES:
            ctx.guard(run_history, ctx, kits['one_comp'], [list(o) for o in ops], len(ops), 'witness:' + label,
                      copy_check=True, rng=ctx.sub_rng(10 ** 6))
        if ctx.tier == 'quick':
            n_cases, max_len, n_focus = 200, 8, 30
        else:
            n_cases, max_len, n_focus = 1000, 20, 120
            alpha = exhaustive_alphabet()
            idx = [[]]
            for depth in range(4):
                idx = [s + [a] for s in idx for a in range(len(alpha))]
                for s in idx:
                    ctx.guard(run_history, ctx, kits['one_comp'], [list(alpha[a]) for a in s], len(s), 'exhaustive')
            alpha = exhaustive_alphabet_sens()
            idx = [[]]
            for depth in range(3):
                idx = [s + [a] for s in idx for a in range(len(alpha))]
                for s in idx:
                    ctx.guard(run_history, ctx, kits['one_comp'], [list(alpha[a]) for a in s], len(s),
                              'exhaustive-sens')
            alpha = exhaustive_alphabet_all_fixed()
            for prefix, max_depth in (([['wrap']], 4), ([['sens', True, None], ['wrap']], 3)):
                idx = [[]]
                for depth in range(max_depth):
                    idx = [s + [a] for s in idx for a in range(len(alpha))]
                    for s in idx:
                        ctx.guard(run_history, ctx, kits['one_comp'],
                                  [list(o) for o in prefix] + [list(alpha[a]) for a in s], len(prefix) + len(s),
                                  'exhaustive-all-fixed')
            alpha = exhaustive_alphabet_wrapped()
            idx = [[]]
            for depth in range(3):
                idx = [s + [a] for s in idx for a in range(len(alpha))]
                for s in idx:
                    ctx.guard(run_history, ctx, kits['erlotinib'], [list(alpha[a]) for a in s], len(s),
                              'exhaustive-wrapped')
            alpha = exhaustive_alphabet_two_comp()
            idx = [[]]
            for depth in range(3):
                idx = [s + [a] for s in idx for a in range(len(alpha))]
                for s in idx:
                    ctx.guard(run_history, ctx, kits['gen_two_comp'], [list(alpha[a]) for a in s], len(s),
                              'exhaustive-two-comp')
        weights = np.array([3.0 if kits[n].pkpd else 1.0 for n in names])
        weights /= weights.sum()
        for i in range(n_cases):
            rng = ctx.sub_rng(i)
            kit = kits[names[int(rng.choice(len(names), p=weights))]]
            length = int(rng.integers(1, max_len + 1))
            ctx.guard(run_history, ctx, kit, Gen(rng, kit), length, 'random', copy_check=(i % 3 == 0), rng=rng)
        # histories around the wrapper with no free parameter (every parameter fixed)
        for i in range(n_focus):
            rng = ctx.sub_rng(2 * 10 ** 6 + i)
            kit = kits[names[int(rng.choice(len(names), p=weights))]]
            length = int(rng.integers(3, max_len + 1))
            ctx.guard(run_history, ctx, kit, Gen(rng, kit, focus='all_fixed'), length, 'random-all-fixed',
                      sim_prob=0.3, copy_check=(i % 4 == 0), rng=rng)
    ctx.extra['models'] = names
    ctx.extra['refsim'] = 'reference integrator harness/refsim.py installed as myokit.Simulation'


def replay(ctx, data):
    chi = core.import_chi()
    myokit.Simulation = RecSim
    refsim.clear_record()
    inp = data['failing']['input'] if 'failing' in data else data['broken_correspondence'][0]['input']
    with tempfile.TemporaryDirectory(prefix='c11_models_') as wd:
        kits = make_kits(chi, wd)
        kit = kits[inp['model']]
        if inp.get('label') == 'copy':
            live, ops, outs = run_history(ctx, kit, [list(o) for o in inp['ops']], len(inp['ops']), 'replay')
            explicit = {'mutated': inp['mutated'], 'mutations': inp['mutations']} if 'mutations' in inp else None
            copy_checks(ctx, kit, live, observe(live), ops, np.random.default_rng(0), explicit=explicit)
        else:
            run_history(ctx, kit, [list(o) for o in inp['ops']], len(inp['ops']), 'replay')
    print('spec failures on replay:', [(b['tag'], b['detail']) for b in ctx.spec_bad[:3]])
    print('disagreements on replay:', ctx.corr_bad[:2])
    if ctx.lean is not None:
        ctx.lean.close()
    return 1 if ctx.spec_bad else 0
