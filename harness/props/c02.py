"""C02 — hierarchical log-likelihood = individual likelihoods + population density"""
import math
import numpy as np
import pints
from scipy import stats

import core
import toy

REQUIRED_THEOREMS = [
    'C02_shapeEta_routing', 'C02_call_offsets', 'C02_kinds', 'C02_every_kind_usable',
    'C02_truncGauss_counterexample', 'C02_ids', 'C02_names_length', 'C02_name_of_position',
    'cutSpecial_routing', 'cutSpecial_length',
    'C02_default_top_name_of_position', 'C02_default_cov_name_of_position', 'C02_hetero_name_matches_value',
    'C02_reset_forgets_naming_history', 'C02_rename_name_of_position', 'C02_setNIds_names']
RULE = ('random compositions of 1-4 population sub-models (Gaussian / log-normal centred and non-centred, '
        'truncated Gaussian, pooled, heterogeneous; 1-3 dims each; covariate wrappers with 1-2 covariates and '
        'random selections; optional ReducedPopulationModel with fixed subsets; bare or composed), 1-4 '
        'individuals with real chi.LogLikelihoods on a toy mechanistic model; in ~40% of the cases a naming '
        'history on the population model (set_parameter_names with a list / None / no argument, set_dim_names, '
        'reset of one sub-model) before or after it learns the number of individuals, and a rename / reset '
        'while the hierarchical likelihood is in use, replayed by the Lean name model; thorough adds every composition '
        'of <=3 sub-models with dims <=2; non-trivial = a pooled/heterogeneous block that is not last, or a '
        'covariate / reduced wrapper, or >=3 sub-models; distinct = distinct (kinds, dims, wrappers)')
ASSUMPTIONS = ['individual likelihoods are arbitrary functions of their parameter row (chi.LogLikelihood on the '
               'toy model in the harness; C01 covers them)',
               'population sub-model densities are those of C05; here only their placement is at stake',
               'fixed population parameters enter through the substitution proved in C08']

KINDS = ['Gc', 'Gnc', 'LNc', 'LNnc', 'TG', 'P', 'H']


def make_sub(chi, code, nd, nc, sel, n_ids=None):
    cls = {0: (chi.GaussianModel, {}), 1: (chi.GaussianModel, {'centered': False}),
           2: (chi.LogNormalModel, {}), 3: (chi.LogNormalModel, {'centered': False}),
           4: (chi.TruncatedGaussianModel, {}), 5: (chi.PooledModel, {}), 6: (chi.HeterogeneousModel, {})}[code]
    base = cls[0](n_dim=nd, **cls[1])
    if nc == 0:
        return base
    if code == 6 and n_ids is not None:
        # a heterogeneous model has one parameter per individual and dimension only once it knows them
        base.set_n_ids(n_ids)
    m = chi.CovariatePopulationModel(base, chi.LinearCovariateModel(nc))
    if sel is not None:
        m.set_population_parameters(sel)
    return m


def per_dim(code, n_ids):
    return {5: 1, 6: n_ids}.get(code, 2)


def gen_case(rng, force=None):
    n_ids = int(rng.integers(1, 5))
    nsub = int(rng.integers(1, 5))
    subs = []
    for k in range(nsub):
        code = int(rng.integers(7))
        nd = int(rng.integers(1, 4))
        nc = 0
        sel = None
        if rng.random() < 0.3:
            nc = int(rng.integers(1, 3))
            if rng.random() < 0.5:
                allp = [[p, d] for p in range(per_dim(code, n_ids)) for d in range(nd)]
                m = int(rng.integers(1, len(allp) + 1))
                idx = rng.choice(len(allp), size=m, replace=False)
                sel = [allp[j] for j in idx]
        subs.append((code, nd, nc, sel))
    if force is not None:
        subs = force
    return n_ids, subs


def stored_selection(code, nd, nc, sel, n_ids):
    if nc == 0:
        return []
    if sel is None:
        return [[p, d] for p in range(per_dim(code, n_ids)) for d in range(nd)]
    return sorted({(int(p), int(d)) for p, d in sel})


class NameHistory:
    """the calls that change which names the population model publishes (construction, set_parameter_names
    with a list / with None, set_dim_names, set_n_ids), logged in the order in which they are made on the chi
    object and replayed by the Lean model (ChiModel/TopNames.lean, op `C02.names`); `names()` is what the
    population model has to publish now — the reference that is independent of chi"""

    def __init__(self, ctx, subs, n_ids, bare):
        self.ctx = ctx
        self.composed = not bare
        self.msubs = [[c, nd, nc, [list(p) for p in stored_selection(c, nd, nc, sel, n_ids)]]
                      for c, nd, nc, sel in subs]
        # make_sub sizes a heterogeneous model before it is wrapped in a covariate model; all others start
        # with the constructor's single individual
        self.n0 = [n_ids if (c == 6 and nc) else 1 for c, _, nc, _ in subs]
        self.ops = []
        self._cache = None

    def log(self, *op):
        self.ops.append(list(op))
        self._cache = None

    def names(self, then=None):
        """names after the logged history (and, not logged, after the further call `then`)"""
        if then is None and self._cache is not None:
            return list(self._cache)
        ops = self.ops + ([list(then)] if then is not None else [])
        out = self.ctx.model('C02.names', self.composed, self.msubs, self.n0, ops)[0][-1]
        if isinstance(out, str):
            raise RuntimeError('name history not accepted by the model: %r' % (ops,))
        if then is None:
            self._cache = list(out)
        return list(out)


def name_history_step(ctx, rng, pm, nh, inp, composed, tag):
    """one call of the naming API on the population model `pm` (any wrapper), logged in `nh`"""
    r = rng.random()
    n_par = pm.n_parameters()
    if r < 0.35:
        new = ['%s%d' % (tag, j) for j in range(n_par)]
        pm.set_parameter_names(new)
        nh.log(1, new)
    elif r < 0.70 or (r >= 0.85 and not composed):
        if rng.random() < 0.5:
            pm.set_parameter_names(None)
        else:
            pm.set_parameter_names()
        nh.log(0)
    elif r < 0.85:
        dims = ['%sx%d' % (tag, j) for j in range(pm.n_dim())]
        pm.set_dim_names(dims)
        nh.log(2, dims)
    else:
        subs_c = pm.get_population_models()
        k = int(rng.integers(len(subs_c)))
        subs_c[k].set_parameter_names(None)
        nh.log(4, k)
    inp['name_history'] = [list(o) for o in nh.ops]
    ref = nh.names()
    got = list(pm.get_parameter_names())
    ctx.agree('C02.population_names', got, ref, inp)
    ctx.spec('C02.population_names_describe_positions/' + tag, got == ref, inp, {'chi': got, 'expected': ref})


def spec_hier(subs, n_ids, bottom, top_full, cov, lls):
    """documented meaning, with the spec's own bookkeeping; returns (total, psi) or None if a scale is
    outside the support (the statement is silent there)"""
    D = sum(nd for _, nd, _, _ in subs)
    nH = sum(nd for c, nd, _, _ in subs if c not in (5, 6))
    eta = np.asarray(bottom, float).reshape(n_ids, nH) if nH else np.zeros((n_ids, 0))
    psi = np.zeros((n_ids, D))
    pop = 0.0
    t = c0 = h = dcol = 0
    for code, nd, nc, sel in subs:
        P = per_dim(code, n_ids)
        npop = P * nd
        base = np.asarray(top_full[t:t + npop], float).reshape(P, nd)
        th = np.repeat(base[None, :, :], n_ids, axis=0)
        if nc:
            ss = stored_selection(code, nd, nc, sel, n_ids)
            beta = np.asarray(top_full[t + npop:t + npop + len(ss) * nc], float).reshape(len(ss), nc)
            chi_cov = cov[:, c0:c0 + nc]
            for s, (p, d) in enumerate(ss):
                th[:, p, d] += chi_cov @ beta[s]
            t += len(ss) * nc
            c0 += nc
        t += npop
        if code in (5, 6):
            for i in range(n_ids):
                psi[i, dcol:dcol + nd] = th[i, 0] if code == 5 else th[i, i]
        else:
            e = eta[:, h:h + nd]
            h += nd
            mu, sg = th[:, 0, :], th[:, 1, :]
            if np.any(sg <= 0):
                return None
            if code == 0:
                pop += float(np.sum(stats.norm.logpdf(e, mu, sg)))
                psi[:, dcol:dcol + nd] = e
            elif code == 1:
                pop += float(np.sum(stats.norm.logpdf(e)))
                psi[:, dcol:dcol + nd] = mu + sg * e
            elif code == 2:
                if np.any(e <= 0):
                    return None
                pop += float(np.sum(stats.norm.logpdf(np.log(e), mu, sg) - np.log(e)))
                psi[:, dcol:dcol + nd] = e
            elif code == 3:
                pop += float(np.sum(stats.norm.logpdf(e)))
                psi[:, dcol:dcol + nd] = np.exp(mu + sg * e)
            else:
                if np.any(e < 0):
                    return None
                pop += float(np.sum(stats.truncnorm.logpdf(e, (0 - mu) / sg, np.inf, loc=mu, scale=sg)))
                psi[:, dcol:dcol + nd] = e
        dcol += nd
    total = pop
    with np.errstate(all='ignore'):
        for i, ll in enumerate(lls):
            total += float(ll(psi[i]))
    return total, psi


def run_case(ctx, chi, rng, n_ids, subs, tag='gen'):
    D = sum(nd for _, nd, _, _ in subs)
    seed = int(rng.integers(10 ** 6))
    bare = len(subs) == 1 and rng.random() < 0.5
    reduced = rng.random() < 0.25
    custom_ids = rng.random() < 0.3
    inp = {'n_ids': n_ids, 'subs': [[KINDS[c], nd, nc, sel] for c, nd, nc, sel in subs], 'bare': bare,
           'reduced': reduced, 'seed': seed}
    codes = [c for c, _, _, _ in subs]
    special_not_last = any(c in (5, 6) for c in codes[:-1])
    wrapped = any(nc for _, _, nc, _ in subs) or reduced
    key = '%s|%s' % ([(KINDS[c], nd, nc, None if s is None else len(s)) for c, nd, nc, s in subs],
                     'R' if reduced else '')
    ctx.case('nsub%d%s%s%s' % (len(subs), '+special-not-last' if special_not_last else '',
                               '+cov' if any(nc for _, _, nc, _ in subs) else '', '+reduced' if reduced else ''),
             nontrivial=key if (special_not_last or wrapped or len(subs) >= 3) else False, sample=inp)
    # --- build chi objects
    models = [make_sub(chi, *s, n_ids=n_ids) for s in subs]
    pm = models[0] if bare else chi.ComposedPopulationModel(models)
    lls = []
    for i in range(n_ids):
        nt = int(rng.integers(1, 4))
        times = np.sort(rng.choice(np.arange(1, 20) * 0.5, nt, replace=False))
        obs = rng.uniform(0.5, 3.0, nt)
        ll = chi.LogLikelihood(toy.ToyModel(1, D - 1, seed), chi.GaussianErrorModel(), list(obs), list(times))
        if custom_ids:
            ll.set_id('id%d' % (10 - i))
        lls.append(ll)
    n_cov = sum(nc for _, _, nc, _ in subs)
    cov = rng.normal(size=(n_ids, n_cov)) * 0.3 if n_cov else None
    # the number of individuals is normally announced by the hierarchical likelihood itself; in half of
    # the reduced cases the user wraps and fixes BEFORE the model has seen it (a heterogeneous model then
    # still has its one-individual parameter table)
    late_n_ids = reduced and not any(nc for c, _, nc, _ in subs if c == 6) and rng.random() < 0.5
    # the names the population model publishes are state: the user may rename the parameters / the
    # dimensions and go back to the defaults at any time, before or after the model learns the number of
    # individuals. `nh` replays every such call in the Lean model; its names are the reference from here on
    nh = NameHistory(ctx, subs, n_ids, bare)
    history = rng.random() < 0.4
    hist_early = rng.random() < 0.5
    if history and (hist_early or late_n_ids):
        for _ in range(int(rng.integers(1, 4))):
            name_history_step(ctx, rng, pm, nh, inp, not bare, 'early')
    if late_n_ids:
        names_before = nh.names()
        full_top_names = nh.names(then=(3, n_ids))
    else:
        pm.set_n_ids(n_ids)
        nh.log(3, n_ids)
        if history and not hist_early:
            for _ in range(int(rng.integers(1, 4))):
                name_history_step(ctx, rng, pm, nh, inp, not bare, 'sized')
        full_top_names = nh.names()
    n_top_full = len(full_top_names)
    top_full = rng.uniform(0.4, 1.6, n_top_full)
    # covariate coefficients small
    t = 0
    for code, nd, nc, sel in subs:
        npop = per_dim(code, n_ids) * nd
        ncovp = len(stored_selection(code, nd, nc, sel, n_ids)) * nc
        top_full[t + npop:t + npop + ncovp] = rng.normal(size=ncovp) * 0.2
        t += npop + ncovp
    if rng.random() < 0.1:
        top_full[int(rng.integers(n_top_full))] *= -1
    fixed = {}
    if reduced:
        pm = chi.ReducedPopulationModel(pm)
        k = int(rng.integers(1, n_top_full + 1))
        for j in rng.choice(n_top_full, size=k, replace=False):
            fixed[full_top_names[j]] = float(top_full[j])
        if len(set(full_top_names)) != len(full_top_names):
            fixed = {}
        if late_n_ids:
            # only names that exist before AND after the number of individuals is set can be fixed early
            fixed = {n: v for n, v in fixed.items() if n in names_before}
        pm.fix_parameters(fixed)
        inp['fixed_before_n_ids_known'] = bool(late_n_ids)
    free_mask = np.array([n not in fixed for n in full_top_names])
    try:
        hll = chi.HierarchicalLogLikelihood(lls, pm, covariates=cov)
    except Exception as e:  # noqa
        ctx.spec('C02.every_kind_usable/construct', False, inp, {'raised': repr(e)[:200]})
        return
    if late_n_ids:
        nh.log(3, n_ids)        # the hierarchical likelihood has announced the number of individuals
    nH = sum(nd for c, nd, _, _ in subs if c not in (5, 6))
    bottom = rng.uniform(0.4, 1.6, n_ids * nH)
    params = np.concatenate([bottom, top_full[free_mask]])
    inp['params'] = params
    inp['cov'] = cov
    # --- chi
    try:
        with np.errstate(all='ignore'):
            v = float(hll(params))
        out = v
    except NotImplementedError:
        out = 'err:notImplemented'
    except Exception as e:  # noqa
        out = core.errkind(e)
        inp['raised'] = repr(e)[:200]
    # --- model
    ids = [ll.get_id() for ll in lls]
    msubs = [[c, nd, nc, [list(p) for p in stored_selection(c, nd, nc, sel, n_ids)]] for c, nd, nc, sel in subs]
    ref_top = [n for n, free in zip(nh.names(), free_mask) if free]
    mo = ctx.model('C02.call', False, n_ids, msubs, list(np.concatenate([bottom, top_full])),
                   [] if cov is None else [list(r) for r in cov], lls[0].get_parameter_names(),
                   ref_top, ids)
    ctx.spec('C02.every_kind_usable', not isinstance(out, str), inp, {'chi': out})
    if isinstance(out, str):
        ctx.errkinds.add(out)
        ctx.agree('C02.call', out, mo[0] if len(mo) == 1 else 'ok', inp)
        return
    if len(mo) == 1:
        ctx.agree('C02.call', out, mo[0], inp)
        return
    pop_m, psi_m, names_m, ids_m, nb_m, nt_m, shaped = mo
    # individual likelihoods at the model's psi → total as the model accumulates it
    nan_psi = any(x in ('nan',) for r in psi_m for x in r)
    if nan_psi:
        ctx.branches.add('psi-nan')
        ctx.agree('C02.call-nonfinite', bool(np.isfinite(v)), False, inp)
    else:
        with np.errstate(all='ignore'):
            Ls = [float(ll(np.array(psi_m[i], float))) for i, ll in enumerate(lls)]
        tot = ctx.model('C02.total', pop_m if isinstance(pop_m, str) else float(pop_m), Ls)[0]
        ctx.branches.add('pop:' + core.fclass(pop_m))
        ctx.agree('C02.call', v, tot, inp)
        # individual parameters chi hands to the likelihoods (public API of the population model)
        with np.errstate(all='ignore'):
            eta = pm.compute_individual_parameters(top_full[free_mask], bottom, covariates=cov, return_eta=True) \
                if n_cov else pm.compute_individual_parameters(top_full[free_mask], bottom, return_eta=True)
            psi_c = pm.compute_individual_parameters(top_full[free_mask], eta, covariates=cov) \
                if n_cov else pm.compute_individual_parameters(top_full[free_mask], eta)
        ctx.agree('C02.individual_parameters', np.asarray(psi_c, float), psi_m, inp)
        # `_shape_eta` itself: the reshaped individual-level entries (model: ShapeEta.shapeRow); the
        # special columns are uninitialised in the model and filled by the pooled / heterogeneous
        # sub-models in chi, so only the routed cells are compared
        eta_c = np.asarray(eta, float)
        routed_c = [[eta_c[i][d] for d in range(eta_c.shape[1]) if shaped[i][d] is not None]
                    for i in range(n_ids)]
        routed_m = [[x for x in row if x is not None] for row in shaped]
        ctx.agree('C02.shape_eta_routing', routed_c, routed_m, inp)
    llnames = lls[0].get_parameter_names()
    dcol = 0
    keep = []
    for c, nd, _, _ in subs:
        if c not in (5, 6):
            keep += list(range(dcol, dcol + nd))
        dcol += nd
    n_free = int(np.sum(free_mask))

    def expected_names():
        ref_free = [n for n, free in zip(nh.names(), free_mask) if free]
        return ([llnames[d] for d in keep] * n_ids + ref_free, [i for i in ids for _ in keep] + [None] * n_free,
                ref_free)

    def observe_names(stage, names_m=None):
        """names / IDs / counts at the property's observation points, against the reference: the individual
        likelihood's names of the dimensions that are neither pooled nor heterogeneous once per individual,
        then the names the population model has to publish after the history so far (Lean model)"""
        try:
            exp_names, exp_ids, ref_free = expected_names()
            names_c = hll.get_parameter_names()
            if names_m is not None:
                ctx.agree('C02.names', names_c, names_m, inp)
                # (with fixed population parameters the model's None-block is cut to the free ones: C08)
                ctx.agree('C02.ids', hll.get_id(), ids_m[:nb_m] + [None] * n_free, inp)
                ctx.agree('C02.n_parameters', hll.n_parameters(), nb_m + n_free, inp)
                ctx.agree('C02.n_bottom', hll.n_parameters() - hll.n_parameters(exclude_bottom_level=True), nb_m,
                          inp)
            ctx.agree('C02.population_names', list(pm.get_parameter_names()), ref_free, inp)
            # --- the property on the real code
            ctx.spec('C02.names_describe_positions' + stage, names_c == exp_names, inp,
                     {'chi': names_c, 'expected': exp_names})
            ctx.spec('C02.ids_describe_positions' + stage, list(hll.get_id()) == exp_ids, inp,
                     {'chi': list(hll.get_id()), 'expected': exp_ids})
            with_ids = hll.get_parameter_names(include_ids=True)
            want = [(i + ' ' + n) if i else n for i, n in zip(exp_ids, exp_names)]
            ctx.spec('C02.names_with_ids' + stage, with_ids == want, inp, {'chi': with_ids, 'expected': want})
            top_only = hll.get_parameter_names(exclude_bottom_level=True)
            ctx.spec('C02.names_describe_positions' + stage, top_only == ref_free, inp,
                     {'chi_exclude_bottom_level': top_only, 'expected': ref_free})
            ctx.spec('C02.n_parameters' + stage, hll.n_parameters() == len(exp_names) == len(params) and
                     hll.n_parameters(exclude_bottom_level=True) == n_free, inp)
        except Exception as e:  # noqa
            ctx.spec('C02.names_ids_raise' + stage, False, inp, {'raised': repr(e)[:300]})

    observe_names('', names_m)
    sp = spec_hier(subs, n_ids, bottom, top_full, cov, lls)
    if sp is not None:
        total, psi_s = sp
        if not math.isnan(total):
            ctx.spec('C02.value_is_sum_of_individuals_plus_population', core.close(v, total), inp,
                     {'chi': v, 'spec': total})
    pcopy = params.copy()
    ccopy = None if cov is None else cov.copy()
    with np.errstate(all='ignore'):
        again = float(hll(params))
    ctx.spec('C02.arguments_unchanged', np.array_equal(params, pcopy, equal_nan=True) and
             (cov is None or np.array_equal(cov, ccopy)) and (again == v or (math.isnan(again) and math.isnan(v))),
             inp, {'first': v, 'second': again})
    # a sibling built from the SAME population-model object (another cohort: other covariates, other data),
    # evaluated in between at the same parameters, and the first one again
    if ctx.cases % 2 == 1:
        try:
            cov2 = None if cov is None else cov + rng.normal(size=cov.shape) * 0.3
            lls2 = []
            for i in range(n_ids):
                nt = int(rng.integers(1, 4))
                times = np.sort(rng.choice(np.arange(1, 20) * 0.5, nt, replace=False))
                lls2.append(chi.LogLikelihood(toy.ToyModel(1, D - 1, seed), chi.GaussianErrorModel(),
                                              list(rng.uniform(0.5, 3.0, nt)), list(times)))
            hll2 = chi.HierarchicalLogLikelihood(lls2, pm, covariates=cov2)
            with np.errstate(all='ignore'):
                v2 = float(hll2(params))
                v1again = float(hll(params))
            sp2 = spec_hier(subs, n_ids, bottom, top_full, cov2, lls2)
            if sp2 is not None and not math.isnan(sp2[0]):
                ctx.spec('C02.sibling_with_same_population_model', core.close(v2, sp2[0]),
                         dict(inp, cov_of_sibling=cov2), {'sibling': v2, 'spec': sp2[0]})
            ctx.spec('C02.sibling_with_same_population_model', core.close(v1again, v) or
                     (math.isnan(v) and math.isnan(v1again)), dict(inp, cov_of_sibling=cov2),
                     {'before_sibling': v, 'after_sibling': v1again})
        except Exception as e:  # noqa
            ctx.spec('C02.sibling_with_same_population_model', False, inp, {'raised': repr(e)[:200]})
    if ctx.cases % 3 == 0:
        ctx.inplace_reuse('C02.array_changed_in_place_between_calls', lambda a: float(hll(a)), params,
                          params * np.linspace(1.05, 1.25, len(params)), inp)
    # the same whole numbers as floats, as integers and as a list of Python ints are the same parameters
    whole = np.where(np.abs(params) < 0.3, 0.0, np.where(params < 1.0, 1.0, 2.0))
    wv = ctx.number_types('C02.whole_number_parameters', lambda p: float(hll(p)), whole, inp)
    if wv is not None and ctx.cases % 2 == 0:
        bw, tw = whole[:len(bottom)], top_full.copy()
        tw[free_mask] = whole[len(bottom):]
        spw = spec_hier(subs, n_ids, bw, tw, cov, lls)
        if spw is not None and not math.isnan(spw[0]):
            ctx.spec('C02.value_is_sum_of_individuals_plus_population', core.close(wv, spw[0]),
                     dict(inp, params=whole), {'chi': wv, 'spec': spw[0]})
    # posterior = prior + hierarchical likelihood
    if ctx.cases % 4 == 0 and int(np.sum(free_mask)) > 0:
        prior = pints.ComposedLogPrior(*[pints.GaussianLogPrior(1.0, 3.0) for _ in range(int(np.sum(free_mask)))])
        post = chi.HierarchicalLogPosterior(hll, prior)
        with np.errstate(all='ignore'):
            pv = float(post(params))
        want = float(prior(top_full[free_mask])) + v
        ctx.spec('C02.posterior', core.close(pv, want) or (math.isinf(v) and pv == v), inp, {'post': pv, 'want': want})
        try:
            exp_names, exp_ids, ref_free = expected_names()
            got = (list(post.get_parameter_names()), list(post.get_id()),
                   list(post.get_parameter_names(exclude_bottom_level=True)),
                   list(post.get_parameter_names(include_ids=True)))
            want_n = (exp_names, exp_ids, ref_free, [(i + ' ' + n) if i else n for i, n in zip(exp_ids, exp_names)])
            ctx.spec('C02.posterior_names_and_ids', got == want_n and post.n_parameters() == len(exp_names), inp,
                     {'chi': got, 'expected': want_n})
        except Exception as e:  # noqa
            ctx.spec('C02.posterior_names_and_ids', False, inp, {'raised': repr(e)[:300]})
    # --- renaming and going back to the defaults while the hierarchical likelihood is in use: the names move
    # with the calls, the positions (and so the value at `params`) do not
    if history or ctx.cases % 5 == 0:
        target = hll.get_population_model() if rng.random() < 0.5 else pm
        steps = [['rename', 'reset'], ['reset'], ['rename'], ['dims', 'reset'], ['rename', 'dims']][
            int(rng.choice(5, p=[0.45, 0.2, 0.15, 0.1, 0.1]))]
        for step in steps:
            try:
                if step == 'rename':
                    new = ['late%d' % j for j in range(n_free)]
                    target.set_parameter_names(new)
                    if reduced:
                        nh.log(5, [not bool(f) for f in free_mask], new)
                    else:
                        nh.log(1, new)
                elif step == 'dims':
                    dims = ['latex%d' % j for j in range(D)]
                    target.set_dim_names(dims)
                    nh.log(2, dims)
                else:
                    if rng.random() < 0.5:
                        target.set_parameter_names(None)
                    else:
                        target.set_parameter_names()
                    nh.log(0)
                inp['name_history'] = [list(o) for o in nh.ops]
                with np.errstate(all='ignore'):
                    v_after = float(hll(params))
            except Exception as e:  # noqa
                ctx.spec('C02.names_ids_raise/after_' + step, False, inp, {'raised': repr(e)[:300]})
                break
            observe_names('/after_' + step)
            ctx.spec('C02.value_independent_of_names/after_' + step,
                     v_after == v or (math.isnan(v_after) and math.isnan(v)) or core.close(v_after, v), inp,
                     {'before': v, 'after': v_after})


def exhaustive(ctx, chi):
    import itertools
    opts = [(c, nd, 0, None) for c in range(7) for nd in (1, 2)]
    k = 0
    for n in (1, 2, 3):
        for combo in itertools.product(opts, repeat=n):
            if n == 3 and (k % 7):       # every 7th of the 2744 triples (quota), all singles and pairs
                k += 1
                continue
            k += 1
            rng = np.random.default_rng([ctx.seed, 2, k])
            ctx.guard(run_case, ctx, chi, rng, int(rng.integers(1, 4)), list(combo), tag='exhaustive')


def corpus(ctx, chi):
    cases = [
        (3, [(4, 2, 0, None)]),                                   # truncated Gaussian (was NotImplementedError)
        (3, [(0, 2, 1, None)]),                                   # covariate model (was reshape error when bare)
        (2, [(5, 1, 0, None), (0, 1, 0, None), (6, 2, 0, None), (3, 1, 0, None)]),
        (3, [(6, 1, 0, None), (5, 2, 1, None), (1, 2, 2, [[1, 0], [0, 1], [1, 0]])]),
        (1, [(2, 1, 0, None)]),
    ]
    for j, (n_ids, subs) in enumerate(cases):
        for rep in range(2):
            ctx.guard(run_case, ctx, chi, np.random.default_rng([ctx.seed, 1, j, rep]), n_ids, subs, tag='corpus')


def run(ctx):
    chi = core.import_chi()
    corpus(ctx, chi)
    n = 1000 if ctx.tier == 'quick' else 9000
    for i in range(n):
        rng = ctx.sub_rng(i)
        n_ids, subs = gen_case(rng)
        ctx.guard(run_case, ctx, chi, rng, n_ids, subs)
    if ctx.tier == 'thorough':
        exhaustive(ctx, chi)


def replay(ctx, data):
    chi = core.import_chi()
    inp = data['failing']['input']
    print('failing case:', str(inp)[:1500])
    ctx.seed = int(data.get('seed', 0))
    run(ctx)
    bad = [b for b in ctx.spec_bad if b['tag'] == data['failing']['tag']]
    print('reproduced' if bad else 'not reproduced', str(bad[:1])[:800])
    return 1 if bad else 0
