"""C09 — simulation returns the ODE solution and its derivatives in parameter order"""
import atexit
import os
import shutil
import tempfile

import numpy as np
from threadpoolctl import threadpool_limits

import core
import closedform as cf
import refsim
import sbmlgen

REQUIRED_THEOREMS = [
    'C09_published_order', 'C09_state_assignment', 'C09_const_assignment', 'C09_simulate_eq_spec',
    'C09_empty_grid_counterexample_before_3790485', 'C09_name_map_aligned', 'C09_sens_restricted_map',
    'C09_sens_order', 'C09_sens_restricted', 'C09_sens_reduced', 'C09_sens_is_derivative',
    'C09_sens_all_fixed_counterexample_before_f18d571', 'C09_sens_step_indep', 'C09_sens_reselect',
    'C09_sens_history', 'C09_reduced_history', 'C09_simulate_keeps_fixed',
    'C09_reduced_vector', 'C09_reduced_fullVector', 'C09_reduced_vector_cast', 'C09_output_order', 'C09_output_rows',
    'argsortBy_isArgsort', 'C09_dose_step', 'C09_dose_history', 'C09_dose_sens_keeps_regimen',
    'C09_dose_last_regimen', 'C09_dose_solver_last']
RULE = ('generated SBML compartment models (2-6 states as species in 1-3 compartments or rate-rule '
        'parameters, random identifiers so that alphabetical != declaration order, 2-5 literal constants, '
        'derived constants, intermediary variables, concentration/amount species) and the four library '
        'models; random output selections, public renames, sensitivity restrictions (shuffled), fixed '
        'subsets; non-trivial = the sorting permutation of the states is not the identity; distinct = '
        'distinct (n_states, permutation, n_consts, n_derived, n_inter)')
ASSUMPTIONS = [
    'the native solver is absent: harness/refsim.py (dual-number forward sensitivities + LSODA) stands in '
    'for myokit.Simulation and is validated in this run against harness/closedform.py (matrix exponentials '
    '/ DOP853 with hand-derived sensitivity equations), see coverage.refsim_validation',
    'the solution of the initial-value problem and its parameter derivatives are parameters/hypotheses of '
    'the Lean theorems (sol, HasDerivAt hypotheses), not conclusions',
    'np.argsort is assumed to return a sorting permutation (no stability, no algorithm); Python sorted / '
    'numpy / Lean String order agree on the generated ASCII identifiers',
    'myokit SBML import (names <comp>.<species>_amount, global.<parameter>, <comp>.size; state order) is '
    'trusted; the declaration the model is compared on is read from the solver stand-in at construction']

TOL = 1e-6
_TMP = []


def tmpdir():
    if not _TMP:
        d = tempfile.mkdtemp(prefix='chi_c09_')
        _TMP.append(d)
        atexit.register(shutil.rmtree, d, True)
    return _TMP[0]


def last_new():
    for rec in reversed(refsim.RECORD):
        if rec[1] == 'new':
            return rec[2]
    return None


def decl_args(new):
    return [list(new['states']), [[n, bool(b)] for n, b in new['consts']], list(new['inter'])]


def sim_record(model, params, times):
    """run chi's simulate and return (result | exception, set_state dict, set_constant calls, log)"""
    refsim.clear_record()
    try:
        res = model.simulate(params, times)
    except Exception as e:  # noqa
        res = e
    st, cc, log = None, [], None
    for _, call, payload in refsim.RECORD:
        if call == 'set_state':
            st = payload
        elif call == 'set_constant':
            cc.append(list(payload))
        elif call == 'run':
            log = payload['log']
    return res, st, cc, log


def whole_number_routing(ctx, obj, expect_full, myo, n_s, whole, times, inp, tag_suffix):
    """the same whole numbers handed over as a float64 array, an int64 array and a list of Python ints are the
    same parameter vector: the solver must receive the same named values (fixed values included, untruncated)"""
    n_p = len(myo)
    for kind, vec in (('int64_array', np.asarray(whole, np.int64)), ('python_int_list', [int(v) for v in whole])):
        res, st, cc, _ = sim_record(obj, vec, times)
        winp = dict(inp, whole_numbers=list(map(float, whole)), handed_over_as=kind)
        if isinstance(res, Exception) or st is None:
            ctx.spec('C09.state_routing/number_types' + tag_suffix, False, winp, {'raised': repr(res)[:200]})
            continue
        ctx.spec('C09.state_routing/number_types' + tag_suffix,
                 st == {myo[i]: float(expect_full[i]) for i in range(n_s)}, winp,
                 {'set_state': st, 'expected': {myo[i]: float(expect_full[i]) for i in range(n_s)}})
        ctx.spec('C09.const_routing/number_types' + tag_suffix,
                 dict((a, b) for a, b in cc) == {myo[i]: float(expect_full[i]) for i in range(n_s, n_p)}, winp,
                 {'set_constant': cc, 'expected': {myo[i]: float(expect_full[i]) for i in range(n_s, n_p)}})


def gen_regimen(rng):
    """numbers of a dosing regimen whose doses fall into the time grids used here (multiples of 1/8 up to 3)"""
    reg = {'dose': float(rng.uniform(1.0, 10.0)), 'start': float(rng.choice([0.0, 0.125, 0.25, 0.5, 1.0])),
           'duration': float(rng.choice([0.0625, 0.125, 0.5])), 'period': None, 'num': None}
    if rng.random() < 0.5:
        reg['period'] = float(rng.choice([0.75, 1.0, 1.5]))
        reg['num'] = None if rng.random() < 0.4 else int(rng.integers(1, 4))
    return reg


def schedule_of(reg, times):
    """[(on, off, rate)] from the regimen's numbers (never from chi's / myokit's protocol object)"""
    if reg is None:
        return None
    t_end = (float(np.max(times)) if len(times) else 0.0) + 1.0
    return cf.schedule(reg['dose'], reg['start'], reg['duration'], reg['period'], reg['num'], t_end)


def solution_check(ctx, tag, res, oracle, outputs, by_myo, times, wrt, inp):
    """simulate's result against the solution of the initial-value problem (doses included): `res` is the value
    array when wrt is None, (values, sensitivities) otherwise"""
    if isinstance(res, Exception):
        ctx.spec(tag, False, inp, {'raised': repr(res)[:200]})
        return
    if (wrt is not None) != isinstance(res, tuple):
        ctx.spec(tag, False, inp, {'sensitivities expected': wrt is not None, 'returned a tuple': isinstance(res, tuple)})
        return
    ov, os_ = oracle(outputs, by_myo, times, wrt or [])
    vals = np.asarray(res[0] if wrt is not None else res)
    if vals.shape != np.asarray(ov).shape:
        ctx.spec(tag, False, inp, {'shape': vals.shape, 'expected': np.asarray(ov).shape})
        return
    err = cf.rel_err(vals, ov, 1e-3)
    if wrt is not None:
        if np.asarray(res[1]).shape != np.asarray(os_).shape:
            ctx.spec(tag, False, inp, {'sensitivity shape': np.asarray(res[1]).shape, 'expected': np.asarray(os_).shape})
            return
        err = max(err, cf.rel_err(res[1], os_, 1e-3))
    ctx.extra['refsim_validation']['comparisons'] += 1
    ctx.spec(tag, err <= TOL, inp, {'chi': vals, 'oracle': ov, 'rel_err': err})


def perm_class(states):
    order = np.argsort(np.argsort(states))
    return tuple(int(i) for i in order)


def check_model(ctx, chi, model, rng, label, oracle=None, inp=None, budget=None, pre_renamed=None):
    """all call-record correspondences and property checks for one chi model.
    oracle(outputs, params dict by published name, times, wrt names) -> (values, sens)"""
    budget = budget or {}
    inp = dict(inp or {})
    inp['model'] = label
    new = last_new()
    dargs = decl_args(new)
    states = list(new['states'])
    literal = [n for n, b in new['consts'] if b]
    nontrivial = sorted(states) != states
    pc = perm_class(states)
    ctx.case('%s/n_states=%d' % (label.split(':')[0], len(states)),
             nontrivial='%s/%s/c%d/d%d/i%d' % (len(states), pc, len(literal),
                                              len(new['consts']) - len(literal), len(new['inter']))
             if nontrivial else False, sample=inp)
    ctx.branches.add('perm:identity' if not nontrivial else
                     ('perm:involution' if all(pc[pc[i]] == i for i in range(len(pc))) else 'perm:general'))
    # ---- names, counts
    mt = ctx.model('C09.tables', *dargs)
    pre_renamed = dict(pre_renamed or {})
    pub0 = list(model.parameters())
    ctx.agree('C09.parameters', pub0, [pre_renamed.get(n, n) for n in mt[3]], inp)
    ctx.agree('C09.n_parameters', int(model.n_parameters()), mt[2], inp)
    ctx.agree('C09.outputs_default', list(model.outputs()), mt[4], inp) if budget.get('default_outputs', True) else None
    myo = sorted(states) + sorted(literal)          # myokit names in the published order the property states
    ctx.spec('C09.published_order', pub0 == [pre_renamed.get(n, n) for n in myo], inp,
             {'parameters': pub0, 'states': states, 'literal': literal, 'renamed before': pre_renamed})
    n_s = len(states)
    n_p = len(pub0)
    # ---- outputs
    admissible = states + list(new['inter'])
    outs = None
    if rng.random() < 0.7 and budget.get('set_outputs', True):
        k = int(rng.integers(1, min(4, len(admissible)) + 1))
        outs = [admissible[int(i)] for i in rng.choice(len(admissible), size=k, replace=False)]
        mo = ctx.model('C09.setoutputs', *dargs, outs)
        try:
            model.set_outputs(outs)
            co = ['ok', list(model.outputs()), int(model.n_outputs())]
        except Exception as e:  # noqa
            co = [core.errkind(e)]
        ctx.agree('C09.set_outputs', co, mo, inp)
        ctx.spec('C09.output_order', co[0] == 'ok' and co[1] == outs, dict(inp, outputs=outs), co)
        if rng.random() < 0.3:
            # inadmissible outputs: a constant (ValueError) / an unknown name (KeyError)
            bad = [literal[0]] if (literal and rng.random() < 0.5) else ['nowhere.nothing']
            mo = ctx.model('C09.setoutputs', *dargs, outs[:1] + bad)
            try:
                model.set_outputs(outs[:1] + bad)
                co = ['ok']
            except Exception as e:  # noqa
                co = [core.errkind(e)]
                ctx.errkinds.add(co[0])
            ctx.agree('C09.set_outputs_invalid', co, mo[:1], inp)
            model.set_outputs(outs)
    cur_outs = list(model.outputs())
    inp['outputs'] = cur_outs
    if outs is None and cur_outs != sorted(states):
        outs = cur_outs                  # outputs chosen by the library constructor
    # ---- public names
    pub = list(pub0)
    if rng.random() < 0.4 and budget.get('rename', True):
        k = int(rng.integers(1, n_p + 1))
        idx = rng.choice(n_p, size=k, replace=False)
        ren = {pub0[int(i)]: 'P%d_%s' % (int(i), myo[int(i)].split('.')[-1][::-1]) for i in idx}
        model.set_parameter_names(ren)
        pub = list(model.parameters())
        ctx.spec('C09.published_order', pub == [ren.get(n, n) for n in pub0], inp, {'renamed': pub})
        inp['renamed'] = ren
    # ---- simulate: call record
    params = rng.uniform(0.3, 1.5, n_p)
    nt = int(rng.integers(1, 5))
    times = np.sort(rng.choice(np.arange(0, 25) / 8.0, size=nt, replace=False))
    inp['parameters'] = params
    inp['times'] = times
    res, st, cc, log = sim_record(model, params, times)
    ms = ctx.model('C09.simulate', *dargs, outs, list(params))
    if isinstance(res, Exception) or st is None:
        ctx.agree('C09.simulate_record', [core.errkind(res) if isinstance(res, Exception) else 'norecord'],
                  ms[:1], inp)
        ctx.spec('C09.state_routing', False, inp, {'raised': repr(res)})
        return
    chi_rec = ['ok', sorted([k, v] for k, v in st.items()), cc, list(log)]
    mod_rec = [ms[0], sorted(ms[1]), ms[2], ms[3]] if ms[0] == 'ok' else ms
    ctx.agree('C09.simulate_record', chi_rec, mod_rec, inp, rtol=0.0)
    # the property, directly: the i-th entry goes to the i-th published name
    want_state = {myo[i]: float(params[i]) for i in range(n_s)}
    ctx.spec('C09.state_routing', st == want_state, inp, {'set_state': st, 'expected': want_state})
    want_const = {myo[n_s + k]: float(params[n_s + k]) for k in range(n_p - n_s)}
    ctx.spec('C09.const_routing', dict((k, v) for k, v in cc) == want_const and len(cc) == len(want_const),
             inp, {'set_constant': cc, 'expected': want_const})
    ctx.spec('C09.output_order', list(log) == (outs if outs is not None else sorted(states)), inp,
             {'log': log})
    ctx.spec('C09.output_order', np.asarray(res).shape == (len(cur_outs), len(times)), inp,
             {'shape': np.asarray(res).shape})
    # ---- whole-number vectors in every number type
    if budget.get('number_types', True):
        whole = rng.integers(1, 4, n_p)
        whole_number_routing(ctx, model, whole, myo, n_s, whole, [0.0], inp, '')      # t = 0: nothing to integrate
        if rng.random() < 0.12:
            ctx.number_types('C09.number_types/simulate', lambda v: model.simulate(v, times), whole, inp, rtol=1e-9)
    # ---- end to end: values
    by_name = {pub[i]: float(params[i]) for i in range(n_p)}
    log_names = list(log)
    if oracle is not None:
        ov, _ = oracle(log_names, {myo[i]: float(params[i]) for i in range(n_p)}, times, [])
        err = cf.rel_err(res, ov, 1e-3)
        ctx.extra['refsim_validation']['max_rel_err'] = max(ctx.extra['refsim_validation']['max_rel_err'], err
                                                           if err < 1e-3 else 0.0)
        ctx.extra['refsim_validation']['comparisons'] += 1
        ok = err <= TOL
        tag = 'C09.values'
        if not ok and len(log_names) > 1:
            # rows right but in another order?
            rows = [tuple(np.round(r, 6)) for r in np.asarray(res)]
            if sorted(rows) == sorted(tuple(np.round(r, 6)) for r in ov):
                tag = 'C09.output_order'
        if label.startswith('library'):
            tag = 'C09.library_equations' if tag == 'C09.values' else tag
        ctx.spec(tag, ok, inp, {'chi': res, 'oracle': ov, 'rel_err': err})
    # ---- empty time grid (since 3790485: one empty row per output, no integration)
    if budget.get('empty_grid', True):
        try:
            r0 = np.asarray(model.simulate(params, []))
            c0 = ['ok', int(r0.shape[0]), [int(r0.shape[1])] * int(r0.shape[0])] if r0.ndim == 2 else ['shape', list(r0.shape)]
        except Exception as e:  # noqa
            c0 = [core.errkind(e)]
            ctx.errkinds.add(c0[0])
        ctx.agree('C09.empty_grid', c0, ctx.model('C09.grid', False, *dargs, outs, list(params), 0), inp)
        ctx.spec('C09.empty_time_grid', c0 == ['ok', len(log_names), [0] * len(log_names)], dict(inp, times=[]),
                 {'simulate(parameters, [])': c0})
        ctx.agree('C09.grid_shape', ['ok', len(log_names), [len(times)] * len(log_names)],
                  ctx.model('C09.grid', False, *dargs, outs, list(params), len(times)), inp)
    # ---- sensitivities: request record
    given = None
    mode = rng.random()
    if mode < 0.45 and budget.get('restrict', True):
        k = int(rng.integers(1, n_p + 1))
        given = [pub[int(i)] for i in rng.permutation(n_p)[:k]]      # shuffled on purpose
    refsim.clear_record()
    try:
        model.enable_sensitivities(True, given)
        new_s = last_new()
        cs = ['ok', list(new_s['sensitivities'][0]), list(new_s['sensitivities'][1])]
    except Exception as e:  # noqa
        cs = [core.errkind(e)]
    msn = ctx.model('C09.sens', *dargs, outs, pub, given)
    ctx.agree('C09.sens_request', cs, msn, dict(inp, given=given))
    keep = [i for i in range(n_p) if given is None or pub[i] in given]
    want = [('init(%s)' % myo[i]) if i < n_s else myo[i] for i in keep]
    ctx.spec('C09.sens_order', cs[0] == 'ok' and cs[2] == want and cs[1] == log_names, dict(inp, given=given),
             {'requested': cs, 'expected': want})
    if cs[0] == 'ok':
        try:
            e2 = model.simulate(params, [])
            shp = [list(np.asarray(e2[0]).shape), list(np.asarray(e2[1]).shape)] if isinstance(e2, tuple) else 'no tuple'
        except Exception as e:  # noqa
            shp = core.errkind(e)
        ctx.spec('C09.empty_time_grid', shp == [[len(log_names), 0], [0, len(log_names), len(keep)]],
                 dict(inp, given=given, times=[]), {'shapes on the empty grid': shp})
        r2 = sim_record(model, params, times)[0]
        ok_shape = (not isinstance(r2, Exception)) and np.asarray(r2[1]).shape == (len(times), len(log_names), len(keep))
        ctx.spec('C09.sens_order', ok_shape, dict(inp, given=given),
                 {'shape': None if isinstance(r2, Exception) else np.asarray(r2[1]).shape, 'raised': repr(r2)[:200]})
        if oracle is not None and ok_shape:
            ov, os_ = oracle(log_names, {myo[i]: float(params[i]) for i in range(n_p)}, times,
                             [myo[i] for i in keep])
            err = cf.rel_err(r2[1], os_, 1e-3)
            errv = cf.rel_err(r2[0], ov, 1e-3)
            ctx.extra['refsim_validation']['comparisons'] += 1
            if err < 1e-3:
                ctx.extra['refsim_validation']['max_rel_err'] = max(
                    ctx.extra['refsim_validation']['max_rel_err'], err)
            tag = 'C09.library_equations' if label.startswith('library') else 'C09.sens_values'
            if err > TOL and len(keep) > 1:
                a = np.asarray(r2[1])
                cols_c = sorted(tuple(np.round(a[:, :, p].ravel(), 6)) for p in range(a.shape[2]))
                cols_o = sorted(tuple(np.round(os_[:, :, p].ravel(), 6)) for p in range(a.shape[2]))
                if cols_c == cols_o:
                    tag = 'C09.sens_order'
            if errv > TOL and len(log_names) > 1:
                rows = sorted(tuple(np.round(r, 6)) for r in np.asarray(r2[0]))
                if rows == sorted(tuple(np.round(r, 6)) for r in ov):
                    tag = 'C09.output_order'
            ctx.spec(tag, err <= TOL and errv <= TOL, dict(inp, given=given),
                     {'chi': r2[1], 'oracle': os_, 'rel_err': err})
    # ---- re-selection while sensitivities are already enabled (a second enable_sensitivities(True, …)
    # with another selection, as ReducedMechanisticModel.fix_parameters issues it): the solver must
    # be asked for exactly the new selection, and simulate must return that many columns
    if cs[0] == 'ok' and n_p >= 2 and budget.get('restrict', True):
        k2 = int(rng.integers(1, n_p + 1))
        given2 = [pub[int(i)] for i in rng.permutation(n_p)[:k2]]
        if given is not None and sorted(given2) == sorted(given):
            given2 = [g for g in pub if g not in given][:1] or given2
        keep2 = [i for i in range(n_p) if pub[i] in given2]
        want2 = [('init(%s)' % myo[i]) if i < n_s else myo[i] for i in keep2]
        try:
            model.enable_sensitivities(True, given2)
            r3, _, _, _ = sim_record(model, params, times)
            run_rec = [p for _, c, p in refsim.RECORD if c == 'run']
            asked = None if not run_rec or run_rec[-1]['sensitivities'] is None else list(run_rec[-1]['sensitivities'][1])
            shape = None if isinstance(r3, Exception) else np.asarray(r3[1]).shape
            ctx.spec('C09.sens_order', asked == want2 and shape == (len(times), len(log_names), len(keep2)),
                     dict(inp, given=given, then_given=given2),
                     {'solver_asked_for': asked, 'expected': want2, 'shape': shape,
                      'raised': repr(r3)[:200] if isinstance(r3, Exception) else None})
        except Exception as e:  # noqa
            ctx.spec('C09.sens_order', False, dict(inp, given=given, then_given=given2), {'raised': repr(e)[:200]})
    model.enable_sensitivities(False)
    # ---- sensitivities switched off again: simulate is the plain solution again (same equations, same doses)
    if oracle is not None:
        solution_check(ctx, ('C09.library_equations' if label.startswith('library') else 'C09.values') +
                       '/after_disabling_sensitivities', sim_record(model, params, times)[0], oracle, log_names,
                       {myo[i]: float(params[i]) for i in range(n_p)}, times, None,
                       dict(inp, given=given, history='simulate, enable_sensitivities(True, given), '
                                                      'enable_sensitivities(False), simulate'))
    # ---- renamed outputs keep their position (published output order)
    if rng.random() < 0.3 and budget.get('rename', True):
        j = int(rng.integers(len(cur_outs)))
        new_name = 'Y%d' % j
        model.set_output_names({cur_outs[j]: new_name})
        want_outs = [new_name if k == j else o for k, o in enumerate(cur_outs)]
        res3, _, _, log3 = sim_record(model, params, times)
        ctx.spec('C09.output_order', list(model.outputs()) == want_outs and list(log3) == log_names and
                 not isinstance(res3, Exception) and np.array_equal(np.asarray(res3), np.asarray(res)),
                 dict(inp, renamed_output={cur_outs[j]: new_name}), {'outputs': model.outputs(), 'log': log3})
    # ---- reduced model
    if budget.get('reduced', True) and n_p >= 2:
        red = chi.ReducedMechanisticModel(model)
        if rng.random() < 0.5:
            red.enable_sensitivities(True)      # fix_parameters must then refresh the selection
        k = int(rng.integers(1, n_p))
        fidx = sorted(int(i) for i in rng.choice(n_p, size=k, replace=False))
        fvals = {pub[i]: float(rng.uniform(0.3, 1.5)) for i in fidx}
        red.fix_parameters(fvals)
        mask = [i in fidx for i in range(n_p)]
        vals = [fvals.get(pub[i], 0.0) for i in range(n_p)]
        free = [i for i in range(n_p) if i not in fidx]
        pfree = rng.uniform(0.3, 1.5, len(free))
        mr = ctx.model('C09.reduced', pub, mask, vals, list(pfree))
        ctx.agree('C09.reduced_parameters', list(red.parameters()), mr[0], inp)
        rinp = dict(inp, fixed=fvals, free_parameters=pfree)
        res, st, cc, log = sim_record(red, pfree, times)
        full = np.array(vals)
        full[free] = pfree
        if isinstance(res, Exception) or st is None:
            ctx.spec('C09.state_routing', False, rinp, {'raised': repr(res)})
        else:
            ms = ctx.model('C09.simulate', *dargs, outs, mr[1])
            ctx.agree('C09.reduced_simulate_record', ['ok', sorted([a, b] for a, b in st.items()), cc, list(log)],
                      [ms[0], sorted(ms[1]), ms[2], ms[3]], rinp, rtol=0.0)
            ctx.spec('C09.state_routing', st == {myo[i]: float(full[i]) for i in range(n_s)}, rinp,
                     {'set_state': st})
            ctx.spec('C09.const_routing', dict((a, b) for a, b in cc) ==
                     {myo[i]: float(full[i]) for i in range(n_s, n_p)}, rinp, {'set_constant': cc})
        if budget.get('number_types', True):
            whole = rng.integers(1, 4, len(free))
            full_w = np.array(vals, float)
            full_w[free] = whole
            whole_number_routing(ctx, red, full_w, myo, n_s, whole, [0.0], rinp, '/reduced')
            if rng.random() < 0.12:
                ctx.number_types('C09.number_types/reduced_simulate', lambda v: red.simulate(v, times), whole, rinp,
                                 rtol=1e-9)
        cs = red_request(red, pfree, times)
        mrs = ctx.model('C09.reducedsens', False, *dargs, outs, pub, mask, vals)
        ctx.agree('C09.reduced_sens_request', cs, mrs, rinp)
        want = [('init(%s)' % myo[i]) if i < n_s else myo[i] for i in free]
        ctx.spec('C09.sens_order', cs[0] == 'ok' and cs[2] == want and cs[3] == len(free), rinp,
                 {'requested': cs, 'expected': want})
        if cs[0] == 'ok' and oracle is not None and budget.get('reduced_e2e', True):
            r2 = sim_record(red, pfree, times)[0]
            if isinstance(r2, Exception):
                ctx.spec('C09.sens_order', False, rinp, {'raised': repr(r2)})
            else:
                ov, os_ = oracle(log_names, {myo[i]: float(full[i]) for i in range(n_p)}, times,
                                 [myo[i] for i in free])
                err = max(cf.rel_err(r2[1], os_, 1e-3), cf.rel_err(r2[0], ov, 1e-3))
                ctx.extra['refsim_validation']['comparisons'] += 1
                tag = 'C09.library_equations' if label.startswith('library') else 'C09.sens_values'
                ctx.spec(tag, err <= TOL, rinp, {'chi': r2[1], 'oracle': os_, 'rel_err': err})
        red.enable_sensitivities(False)
    if budget.get('histories', True):
        check_histories(ctx, chi, model, rng, dargs, states, list(new['inter']), pub, myo, n_s, times, oracle,
                        dict(inp), label)
    if 'regimen' in inp and getattr(oracle, 'with_regimen', None) is not None and budget.get('histories', True):
        check_dose_history(ctx, chi, model, rng, pub, myo, oracle, dict(inp), label)


def red_request(obj, params, times, enable=True, keep=None):
    """what a simulate of `obj` asks the solver for: ['ok', dependents|None, independents|None, columns];
    the simulation's result is left in keep['res'] when a dict is given"""
    try:
        if enable:
            obj.enable_sensitivities(True)
        res = sim_record(obj, params, times)[0]
        if keep is not None:
            keep['res'] = res
        if isinstance(res, Exception):
            raise res
        run = [p for _, c, p in refsim.RECORD if c == 'run'][-1]
        if run['sensitivities'] is None:
            cols = int(np.asarray(res[1]).shape[2]) if isinstance(res, tuple) else 0
            if isinstance(res, tuple) and np.asarray(res[1]).shape[:2] != (len(times), len(run['log'])):
                return ['badshape', list(np.asarray(res[1]).shape)]
            return ['ok', None, None, cols]
        if not isinstance(res, tuple):
            return ['no-sensitivities-returned']
        return ['ok', list(run['sensitivities'][0]), list(run['sensitivities'][1]),
                int(np.asarray(res[1]).shape[2])]
    except Exception as e:  # noqa
        return [core.errkind(e)]


def check_dose_history(ctx, chi, model, rng, pub, myo, oracle, inp, label):
    """an administered PKPDModel (with or without a regimen) after a history of sensitivities switched on / off
    (directly, by set_outputs, through a reduced wrapper) and regimens set: simulate returns the solution of the
    initial-value problem with the doses of the regimen set last"""
    n_p = len(pub)
    model.enable_sensitivities(False)
    params = rng.uniform(0.3, 1.5, n_p)
    times = np.sort(np.append(rng.choice(np.arange(0, 20) / 8.0, size=2, replace=False), 2.5))
    log_names = sim_record(model, params, [0.0])[3]
    if log_names is None:
        return
    log_names = list(log_names)
    regs = [inp['regimen']]
    codes = [None if model.dosing_regimen() is None else model.dosing_regimen().code()]
    cur, want_sel, ops, told = 0, None, [], []
    red = chi.ReducedMechanisticModel(model)
    try:
        for _ in range(int(rng.integers(2, 7))):
            r = rng.random()
            if r < 0.4:
                if rng.random() < 0.3:
                    red.enable_sensitivities(True)
                    given, how = None, 'reduced.enable_sensitivities(True)'
                else:
                    given = None if rng.random() < 0.5 else [pub[int(i)] for i in
                                                             rng.permutation(n_p)[:int(rng.integers(1, n_p + 1))]]
                    model.enable_sensitivities(True, given)
                    how = 'enable_sensitivities(True, %r)' % (given,)
                want_sel = [i for i in range(n_p) if given is None or pub[i] in given]
                ops.append(['s', True])
            elif r < 0.75:
                k = int(rng.integers(3))
                if k == 0:
                    model.enable_sensitivities(False)
                elif k == 1:
                    model.set_outputs(log_names)
                else:
                    red.enable_sensitivities(False)
                how = ['enable_sensitivities(False)', 'set_outputs(current outputs)',
                       'reduced.enable_sensitivities(False)'][k]
                want_sel = None
                ops.append(['s', False])
            else:
                reg = gen_regimen(rng)
                model.set_dosing_regimen(**reg)
                regs.append(reg)
                codes.append(model.dosing_regimen().code())
                cur = len(regs) - 1
                how = 'set_dosing_regimen(%r)' % (reg,)
                ops.append(['r', cur])
            told.append(how)
        hinp = dict(inp, history=told, parameters=params, times=times, regimen_set_last=regs[cur])
        res = sim_record(model, params, times)[0]
        run = [p_ for _, c, p_ in refsim.RECORD if c == 'run']
    except Exception as e:  # noqa
        ctx.spec('C09.values/after_dose_history', False, dict(inp, history=told), {'raised': repr(e)[:300]})
        return
    ctx.case('history/dosing', nontrivial='history/dosing/%s/%s' % (
        ''.join(o[0] + ('' if o[0] == 'r' else str(int(o[1]))) for o in ops), regs[0] is not None))

    def index_of(code):
        hits = [k for k, c in enumerate(codes) if c == code and c is not None]
        return hits[-1] if hits else None
    now = model.dosing_regimen()
    chi_side = [bool(model.has_sensitivities()), index_of(None if now is None else now.code()),
                index_of(run[-1]['protocol']) if run else 'no run']
    ctx.agree('C09.dose_history', chi_side, ctx.model('C09.dosehistory', regs[0] is not None, ops), hinp)
    solution_check(ctx, ('C09.library_equations' if label.startswith('library') else 'C09.values') +
                   '/after_dose_history', res, oracle.with_regimen(regs[cur]), log_names,
                   {myo[i]: float(params[i]) for i in range(n_p)}, times,
                   None if want_sel is None else [myo[i] for i in want_sel], hinp)
    model.enable_sensitivities(False)


def check_histories(ctx, chi, model, rng, dargs, states, inter, pub, myo, n_s, times, oracle, inp, label):
    """the request the solver sees (and the returned block) after a history of solver-rebuilding calls:
    enabling, re-selecting while enabled, disabling, selecting outputs; on the reduced model also fixing /
    releasing parameters before or after enabling, including fixing all of them"""
    n_p = len(pub)
    admissible = states + inter if not label.startswith('library') else list(model.outputs())
    params = rng.uniform(0.3, 1.5, n_p)

    def tag_of(i):
        return ('init(%s)' % myo[i]) if i < n_s else myo[i]

    def rand_outs():
        k = int(rng.integers(1, min(3, len(admissible)) + 1))
        return [admissible[int(i)] for i in rng.choice(len(admissible), size=k, replace=False)]
    # ---- plain model
    ops, want_sel, cur_outs = [], None, list(model.outputs())
    if not all(o in states + inter for o in cur_outs):
        return                                   # renamed outputs: histories are run on myokit names only
    model.enable_sensitivities(False)
    ops.append(['o', cur_outs])
    for _ in range(int(rng.integers(2, 6))):
        r = rng.random()
        if r < 0.55:
            given = None if rng.random() < 0.3 else [pub[int(i)] for i in
                                                     rng.permutation(n_p)[:int(rng.integers(1, n_p + 1))]]
            model.enable_sensitivities(True, given)
            ops.append(['e', given])
            want_sel = [i for i in range(n_p) if given is None or pub[i] in given]
        elif r < 0.75:
            model.enable_sensitivities(False)
            ops.append(['d'])
            want_sel = None
        else:
            cur_outs = rand_outs()
            model.set_outputs(cur_outs)
            ops.append(['o', cur_outs])
            want_sel = None
    hinp = dict(inp, history=ops)
    kept = {}
    cs = red_request(model, params, times, enable=False, keep=kept)
    vtag = ('C09.library_equations' if label.startswith('library') else 'C09.values') + '/after_history'
    if oracle is not None and 'res' in kept:
        solution_check(ctx, vtag, kept['res'], oracle, cur_outs, {myo[i]: float(params[i]) for i in range(n_p)}, times,
                       None if want_sel is None else [myo[i] for i in want_sel], hinp)
    mh = ctx.model('C09.senshistory', *dargs, pub, ops)
    ctx.agree('C09.sens_history', cs, mh[:4], hinp)
    ctx.case('history/plain', nontrivial='history/plain/%s' % ''.join(o[0] for o in ops))
    want = ['ok', None, None, 0] if want_sel is None else ['ok', cur_outs, [tag_of(i) for i in want_sel],
                                                          len(want_sel)]
    ctx.spec('C09.sens_order/after_history', cs == want and model.has_sensitivities() == (want_sel is not None),
             hinp, {'solver asked for': cs, 'expected': want})
    model.enable_sensitivities(False)
    # ---- reduced model(s): one wrapper and the copies taken of it along the way; operations go to any of them,
    # simulations happen in between, and at the end EVERY object must route the vector by its own settings
    objs = [{'obj': chi.ReducedMechanisticModel(model), 'ops': [['o', cur_outs]], 'fixed': {}, 'on': False,
             'outs': cur_outs, 'name': 'original'}]

    def routing(o, hinp, where):
        free_ = [i for i in range(n_p) if pub[i] not in o['fixed']]
        vec = rng.uniform(0.3, 1.5, len(free_))
        res, st, cc, _ = sim_record(o['obj'], vec, [0.0])
        full_ = np.array([o['fixed'].get(n, 0.0) for n in pub], float)
        full_[free_] = vec
        rinp = dict(hinp, object=o['name'], checked=where, free_parameters=vec)
        if isinstance(res, Exception) or st is None:
            ctx.spec('C09.state_routing/after_history', False, rinp, {'raised': repr(res)[:200]})
        else:
            ctx.spec('C09.state_routing/after_history', st == {myo[i]: float(full_[i]) for i in range(n_s)}, rinp,
                     {'set_state': st, 'expected': {myo[i]: float(full_[i]) for i in range(n_s)}})
            ctx.spec('C09.const_routing/after_history', dict((a_, b_) for a_, b_ in cc) ==
                     {myo[i]: float(full_[i]) for i in range(n_s, n_p)}, rinp,
                     {'set_constant': cc, 'expected': {myo[i]: float(full_[i]) for i in range(n_s, n_p)}})
        o['ops'].append(['s', [float(v) for v in vec]])
    try:
        for _ in range(int(rng.integers(3, 9))):
            o = objs[int(rng.integers(len(objs)))]
            red = o['obj']
            r = rng.random()
            if r < 0.2:
                red.enable_sensitivities(True)
                o['ops'].append(['e'])
                o['on'] = True
            elif r < 0.28:
                red.enable_sensitivities(False)
                o['ops'].append(['d'])
                o['on'] = False
            elif r < 0.62:
                if rng.random() < 0.15:
                    upd = {n: float(rng.uniform(0.3, 1.5)) for n in pub}          # fix every parameter
                else:
                    upd = {}
                    for i in rng.permutation(n_p)[:int(rng.integers(1, n_p + 1))]:
                        upd[pub[int(i)]] = None if rng.random() < 0.35 else float(rng.uniform(0.3, 1.5))
                red.fix_parameters(upd)
                for k_, v_ in upd.items():
                    if v_ is None:
                        o['fixed'].pop(k_, None)
                    else:
                        o['fixed'][k_] = v_
                if o['fixed']:
                    o['ops'].append(['f', [n in o['fixed'] for n in pub], [o['fixed'].get(n, 0.0) for n in pub]])
                else:
                    o['ops'].append(['f', None, []])
            elif r < 0.8:
                routing(o, dict(inp, history=[list(x) for x in o['ops']]), 'in between')
            elif r < 0.9 and len(objs) < 3:
                # a copy is an independent model with the same fixed parameters and outputs, sensitivities off
                objs.append({'obj': red.copy(), 'ops': [list(x) for x in o['ops']] + [['d']],
                             'fixed': dict(o['fixed']), 'on': False, 'outs': list(o['outs']),
                             'name': 'copy of ' + o['name']})
                ctx.branches.add('history:copy')
            else:
                o['outs'] = rand_outs()
                red.set_outputs(o['outs'])
                o['ops'].append(['o', o['outs']])
                o['on'] = False
    except Exception as e:  # noqa
        ctx.spec('C09.sens_order/after_history', False, dict(inp, history=[x['ops'] for x in objs]),
                 {'raised by the next operation': repr(e)[:300]})
        return
    for o in objs:
        red, fixed, on, ops = o['obj'], o['fixed'], o['on'], o['ops']
        free = [i for i in range(n_p) if pub[i] not in fixed]
        hinp = dict(inp, object=o['name'], history=[list(x) for x in ops],
                    all_objects={x['name']: len(x['ops']) for x in objs})
        routing(o, hinp, 'at the end')
        pfree = rng.uniform(0.3, 1.5, len(free))
        kept = {}
        cs = red_request(red, pfree, times, enable=False, keep=kept)
        if oracle is not None and 'res' in kept and not (on and free):
            full = np.array([fixed.get(n, 0.0) for n in pub])
            full[free] = pfree
            solution_check(ctx, vtag, kept['res'][0] if isinstance(kept['res'], tuple) else kept['res'], oracle,
                           o['outs'], {myo[i]: float(full[i]) for i in range(n_p)}, times, None, hinp)
        mh = ctx.model('C09.redhistory', *dargs, pub, ops)
        chi_side = cs + [bool(red.has_sensitivities()), list(red.parameters())] if cs[0] == 'ok' else cs
        ctx.agree('C09.reduced_history', chi_side, mh[:6] if mh[0] == 'ok' else mh, hinp)
        ctx.case('history/reduced', nontrivial='history/reduced/%s/%s/%s' % (
            ''.join(x[0] for x in ops), 'allfixed' if not free else 'some', o['name'][:4]))
        if not on:
            want = ['ok', None, None, 0]
        elif not free:
            want = ['ok', None, None, 0]
            ctx.branches.add('reduced:all-fixed-with-sensitivities')
        else:
            want = ['ok', o['outs'], [tag_of(i) for i in free], len(free)]
        ctx.spec('C09.sens_order/after_history', cs == want and bool(red.has_sensitivities()) == on and
                 list(red.parameters()) == [pub[i] for i in free], hinp,
                 {'solver asked for': cs, 'expected': want, 'has_sensitivities': red.has_sensitivities(),
                  'parameters()': red.parameters()})
        if on and free and oracle is not None and rng.random() < 0.4:
            r2 = sim_record(red, pfree, times)[0]
            full = np.array([fixed.get(n, 0.0) for n in pub])
            full[free] = pfree
            if isinstance(r2, Exception) or not isinstance(r2, tuple):
                ctx.spec('C09.sens_order/after_history', False, hinp, {'raised': repr(r2)[:200]})
            else:
                ov, os_ = oracle(o['outs'], {myo[i]: float(full[i]) for i in range(n_p)}, times,
                                 [myo[i] for i in free])
                err = max(cf.rel_err(r2[1], os_, 1e-3), cf.rel_err(r2[0], ov, 1e-3))
                ctx.extra['refsim_validation']['comparisons'] += 1
                ctx.spec('C09.library_equations' if label.startswith('library') else 'C09.sens_values', err <= TOL,
                         hinp, {'chi': r2[1], 'oracle': os_, 'rel_err': err})


# ------------------------------------------------------------------------------------------------
# generated models
# ------------------------------------------------------------------------------------------------
def gen_oracle(spec, depot_into=None, dosed=None, reg=None):
    """closed form of the generated model; `depot_into` = state id fed by a first-order absorption depot
    (`dose.drug_amount`, `dose.absorption_rate`) as an indirect administration adds it; `dosed` = state id the
    dose rate enters directly; `reg` = the numbers of the dosing regimen (None: no doses)"""
    lm = sbmlgen.closed_form(spec)
    lm.dosed = '__depot' if depot_into is not None else dosed
    st, co, outs = sbmlgen.name_maps(spec)
    if depot_into is not None:
        lm.states.append('__depot')
        lm.rhs['__depot'] = cf.LinForm().add(cf.Mono(-1.0, {'__ka': 1}), '__depot')
        lm.rhs[depot_into].add(cf.Mono(1.0, {'__ka': 1}), '__depot')
        lm.outputs[('state', '__depot')] = cf.LinForm().add(cf.Mono(1.0), '__depot')
        st['dose.drug_amount'] = '__depot'
        co['dose.absorption_rate'] = '__ka'
        outs['dose.drug_amount'] = ('state', '__depot')

    def oracle(outputs, by_name, times, wrt_names):
        x0 = {st[n]: v for n, v in by_name.items() if n in st}
        theta = {co[n]: v for n, v in by_name.items() if n in co}
        wrt = [('init', st[n]) if n in st else ('const', co[n]) for n in wrt_names]
        return lm.solve(x0, theta, times, wrt, [outs[o] for o in outputs], schedule_of(reg, times))
    oracle.with_regimen = lambda r: gen_oracle(spec, depot_into, dosed, r)
    return oracle


def administer(ctx, chi, model, rng, comp, amount_var, label, inp):
    """PKPDModel: rename, choose a route of administration (the name tables and the name map are rebuilt),
    rename again; the sensitivity request read through the rebuilt map is compared with the model.
    Returns (direct, {myokit name: public name})"""
    new0 = last_new()
    names0 = sorted(new0['states']) + sorted(n for n, b in new0['consts'] if b)

    def rand_rename(prefix, names, current):
        if rng.random() < 0.5:
            return {}
        idx = rng.choice(len(names), size=int(rng.integers(1, len(names) + 1)), replace=False)
        return {current.get(names[int(i)], names[int(i)]): '%s%d_%s' % (prefix, int(i), names[int(i)].split('.')[-1])
                for i in idx}
    public = {}
    ren1 = rand_rename('A', names0, public)
    if ren1:
        model.set_parameter_names(ren1)
        public.update({n: ren1[n] for n in names0 if n in ren1})
    direct = bool(rng.random() < 0.4)
    if rng.random() < 0.3:
        model.enable_sensitivities(True)             # the route is chosen while sensitivities are on
    refsim.clear_record()
    model.set_administration(comp, amount_var=amount_var, direct=direct)
    new1 = last_new()
    names1 = sorted(new1['states']) + sorted(n for n, b in new1['consts'] if b)
    public = {n: v for n, v in public.items() if n in names1}
    ren2 = rand_rename('B', names1, public)
    if ren2:
        model.set_parameter_names(ren2)
        for n in names1:
            cur = public.get(n, n)
            if cur in ren2:
                public[n] = ren2[cur]
    pub = list(model.parameters())
    k = int(rng.integers(1, len(names1) + 1))
    given = [pub[int(i)] for i in rng.permutation(len(names1))[:k]]
    ainp = dict(inp, model=label, renamed_before=ren1, direct=direct, renamed_after=ren2, given=given)
    refsim.clear_record()
    try:
        model.enable_sensitivities(True, given)
        ns = last_new()
        cs = [pub, 'ok', list(ns['sensitivities'][0]), list(ns['sensitivities'][1])]
    except Exception as e:  # noqa
        cs = [pub, core.errkind(e)]
    model.enable_sensitivities(False)
    mm = ctx.model('C09.mapsens', names0, [[a, b] for a, b in ren1.items()], True, *decl_args(new1),
                   [[a, b] for a, b in ren2.items()], list(ns['sensitivities'][0]) if cs[1] == 'ok' else None, given)
    ctx.agree('C09.name_map_sens', cs, mm, ainp)
    n_s = len(new1['states'])
    want = [('init(%s)' % names1[i]) if i < n_s else names1[i] for i in range(len(names1))
            if public.get(names1[i], names1[i]) in given]
    ctx.spec('C09.published_order', pub == [public.get(n, n) for n in names1], ainp, {'parameters': pub})
    ctx.spec('C09.sens_order/after_administration', cs[1] == 'ok' and cs[3] == want, ainp,
             {'requested': cs[1:], 'expected': want})
    ctx.branches.add('administration:' + ('direct' if direct else 'indirect'))
    return direct, public


def dose(ctx, model, rng):
    """with probability 0.7 give the administered model a dosing regimen; returns its numbers (or None)"""
    if rng.random() >= 0.7:
        ctx.branches.add('regimen:none')
        return None
    reg = gen_regimen(rng)
    on = rng.random() < 0.25
    if on:
        model.enable_sensitivities(True)         # the regimen is set while sensitivities are on
    model.set_dosing_regimen(**reg)
    if on:
        model.enable_sensitivities(False)
    ctx.branches.add('regimen:' + ('single' if reg['period'] is None else 'periodic'))
    return reg


def run_generated(ctx, chi, i, rng, budget=None, n_states=None, max_states=6):
    spec = sbmlgen.gen_spec(rng, n_states=n_states, max_states=max_states)
    path = os.path.join(tmpdir(), 'm%d.xml' % i)
    sbmlgen.write_sbml(spec, path)
    refsim.clear_record()
    cls = chi.SBMLModel if rng.random() < 0.55 else chi.PKPDModel
    model = cls(path)
    os.remove(path)
    label = 'generated:%d' % i
    oracle, pre, inp_extra = gen_oracle(spec), None, {}
    species = [s_ for s_ in spec['states'] if s_['kind'] == 'species']
    if cls is chi.PKPDModel and species and rng.random() < 0.75:
        s_ = species[int(rng.integers(len(species)))]
        direct, pre = administer(ctx, chi, model, rng, s_['comp'], s_['id'] + '_amount', label, {'spec': spec})
        reg = dose(ctx, model, rng)
        oracle = gen_oracle(spec, None if direct else s_['id'], s_['id'] if direct else None, reg)
        label += ':administered'
        budget = dict(budget or {}, default_outputs=False)      # the outputs selected before are kept
        inp_extra = {'direct': direct, 'regimen': reg}
    check_model(ctx, chi, model, rng, label, oracle, dict({'spec': spec}, **inp_extra), budget, pre_renamed=pre)


# ------------------------------------------------------------------------------------------------
# library models
# ------------------------------------------------------------------------------------------------
def library_cases(chi):
    import chi.library
    lib = chi.library.ModelLibrary()

    def pk_oracle():
        lm = cf.one_compartment_documented()
        names = {'central.drug_amount': ('init', 'A'), 'central.size': ('const', 'V'),
                 'global.elimination_rate': ('const', 'ke')}
        onames = {'central.drug_concentration': 'C', 'central.drug_amount': 'A'}

        def oracle(outputs, by_name, times, wrt_names):
            return lm.solve({'A': by_name['central.drug_amount']},
                            {'V': by_name['central.size'], 'ke': by_name['global.elimination_rate']},
                            times, [names[n] for n in wrt_names], [onames[o] for o in outputs])
        return oracle

    def nl_oracle(nl, smap, cmap):
        def oracle(outputs, by_name, times, wrt_names):
            x0 = {smap[n]: by_name[n] for n in smap}
            th = {cmap[n]: by_name[n] for n in cmap}
            wrt = [('init', smap[n]) if n in smap else ('const', cmap[n]) for n in wrt_names]
            v, s = nl.solve(x0, th, times, wrt)
            rows = [nl.states.index(smap[o]) for o in outputs]
            return v[rows], s[:, rows, :]
        return oracle
    return [
        ('library:one_compartment_pk_model', lib.one_compartment_pk_model, pk_oracle()),
        ('library:tumour_growth_inhibition_model_koch', lib.tumour_growth_inhibition_model_koch,
         nl_oracle(cf.tgi_koch_documented(), {'global.tumour_volume': 'V'},
                   {'global.drug_concentration': 'C', 'global.kappa': 'kappa', 'global.lambda_0': 'l0',
                    'global.lambda_1': 'l1'})),
        ('library:tumour_growth_inhibition_model_koch_reparametrised',
         lib.tumour_growth_inhibition_model_koch_reparametrised,
         nl_oracle(cf.tgi_koch_reparametrised_documented(), {'global.tumour_volume': 'V'},
                   {'global.critical_volume': 'Vcrit', 'global.drug_concentration': 'C',
                    'global.kappa': 'kappa', 'global.lambda': 'lambda'})),
        ('library:erlotinib_tumour_growth_inhibition_model', lib.erlotinib_tumour_growth_inhibition_model,
         nl_oracle(cf.erlotinib_documented(), {'central.drug_amount': 'A', 'global.tumour_volume': 'V'},
                   {'central.size': 'size', 'global.critical_volume': 'Vcrit',
                    'global.elimination_rate': 'ke', 'global.kappa': 'kappa', 'global.lambda': 'lambda'})),
    ]


def run_library(ctx, chi, rng, reps):
    for label, ctor, oracle in library_cases(chi):
        for r in range(reps):
            refsim.clear_record()
            model = ctor()
            # the library models are checked with their own outputs (only states can be compared with the
            # documented equations of the non-linear ones)
            check_model(ctx, chi, model, rng, label, oracle, {'rep': r},
                        {'set_outputs': False, 'default_outputs': False, 'empty_grid': r == 0})
    # library PKPD models with a route of administration (indirect adds dose.* parameters)
    import chi.library
    lib = chi.library.ModelLibrary()
    lm = cf.one_compartment_documented(depot=True)
    names = {'central.drug_amount': ('init', 'A'), 'dose.drug_amount': ('init', 'Ad'), 'central.size': ('const', 'V'),
             'dose.absorption_rate': ('const', 'ka'), 'global.elimination_rate': ('const', 'ke')}
    onames = {'central.drug_concentration': 'C', 'central.drug_amount': 'A', 'dose.drug_amount': 'Ad'}

    lm_direct = cf.one_compartment_documented()

    def make_depot_oracle(reg, direct):
        def oracle(outputs, by_name, times, wrt_names):
            return (lm_direct if direct else lm).solve(
                {'A': by_name['central.drug_amount'], 'Ad': by_name.get('dose.drug_amount', 0.0)},
                {'V': by_name['central.size'], 'ke': by_name['global.elimination_rate'],
                 'ka': by_name.get('dose.absorption_rate', 1.0)},
                times, [names[n] for n in wrt_names], [onames[o] for o in outputs], schedule_of(reg, times))
        oracle.with_regimen = lambda r: make_depot_oracle(r, direct)
        return oracle
    for r in range(reps):
        for ctor, lab, orc in ((lib.one_compartment_pk_model, 'library:one_compartment_pk_model', 'depot'),
                               (lib.erlotinib_tumour_growth_inhibition_model, 'library:erlotinib', None)):
            refsim.clear_record()
            model = ctor()
            direct, pre = administer(ctx, chi, model, rng, 'central', 'drug_amount', lab, {'rep': r})
            reg = None
            if orc == 'depot':
                reg = dose(ctx, model, rng)
                orc = make_depot_oracle(reg, direct)
            if orc is None and direct:
                orc = [c for c in library_cases(chi) if c[0].endswith('erlotinib_tumour_growth_inhibition_model')][0][2]
            check_model(ctx, chi, model, rng, lab + ':administered', orc, {'rep': r, 'direct': direct, 'regimen': reg},
                        {'set_outputs': False, 'default_outputs': False}, pre_renamed=pre)
    # documented published order of the natural non-trivial case
    m = chi.library.ModelLibrary().erlotinib_tumour_growth_inhibition_model()
    ctx.spec('C09.published_order', m.parameters()[:2] == ['central.drug_amount', 'global.tumour_volume'], {},
             m.parameters())


def run(ctx):
    chi = core.import_chi()
    refsim.install()
    ctx.extra['refsim_validation'] = {'oracle': 'harness/closedform.py', 'max_rel_err': 0.0, 'comparisons': 0,
                                      'tolerance': TOL}
    threadpool_limits(limits=1)          # tiny matrices: BLAS threads only burn the shared cores
    try:
        ctx.guard(run_library, ctx, chi, ctx.sub_rng(10 ** 6), 2 if ctx.tier == 'quick' else 10)
        # every permutation class of three states early, then random sizes
        n = 110 if ctx.tier == 'quick' else 1500
        for i in range(n):
            rng = ctx.sub_rng(i)
            ctx.guard(run_generated, ctx, chi, i, rng, n_states=3 if i < 8 else None,
                      max_states=6 if ctx.tier == 'quick' else 8)
    finally:
        for d in _TMP:
            shutil.rmtree(d, True)
        del _TMP[:]
    ctx.extra['refsim_validation']['models'] = ctx.cases


def replay(ctx, data):
    chi = core.import_chi()
    refsim.install()
    ctx.extra['refsim_validation'] = {'max_rel_err': 0.0, 'comparisons': 0}
    inp = data['failing']['input']
    label = inp.get('model', '')
    seed, tier = data.get('seed', 0), data.get('tier', 'quick')
    rctx = core.Ctx('C09', tier, seed)
    rctx.extra = ctx.extra
    if label.startswith('generated:'):
        i = int(label.split(':')[1])
        run_generated(rctx, chi, i, rctx.sub_rng(i), n_states=3 if i < 8 else None,
                      max_states=6 if tier == 'quick' else 8)
    else:
        run_library(rctx, chi, rctx.sub_rng(10 ** 6), 2 if tier == 'quick' else 10)
    if rctx.lean is not None:
        rctx.lean.close()
    bad = [b for b in rctx.spec_bad if b['tag'] == data['failing']['tag']]
    print('replayed %s: %d property failures with tag %s' % (label, len(bad), data['failing']['tag']))
    for b in bad[:2]:
        print('  ', str(b['detail'])[:400])
    print('disagreements on replay:', rctx.corr_bad[:2])
    return 1 if bad else 0
