"""C20 — figures faithfully render the supplied data and prediction bands"""
import base64
import hashlib
import math
import numbers
from fractions import Fraction

import numpy as np
import pandas as pd

import core

REQUIRED_THEOREMS = [
    'C20_row_routing', 'C20_row_routing_pd', 'C20_row_routing_pk', 'C20_row_routing_sound',
    'C20_row_routing_pd_legacy_partial', 'C20_ids_nodup', 'C20_row_in_own_trace',
    'C20_dose_and_measurement_row', 'C20_split_dose_rows_counterexample',
    'C20_pd_nonnumeric_id_counterexample', 'C20_pdpredictive_default_nan_counterexample',
    'C20_falsy_observable_counterexample', 'C20_palette_every_individual', 'C20_palette_zip_counterexample', 'C20_prediction_scatter', 'C20_simulation', 'C20_prediction_dose', 'C20_band_encloses_any',
    'C20_band_encloses', 'C20_band_encloses_robust', 'C20_band_limits_are_samples', 'C20_band_nested',
    'C20_band_ordered', 'C20_polygon_decode', 'C20_prediction_bands', 'C20_band_time_local',
    'C20_band_ignores_other_times', 'C20_band_at_time', 'C20_band_mask_exact',
    'C20_band_pooled_times_counterexample', 'C20_no_mutation',
    'C20_residual_routing', 'C20_residual_completes', 'C20_residual_legacy_partial',
    'C20_residual_readonly_counterexample']
RULE = ('routing: long-format frames with 1-10 or (30 % of the frames) 11-26 individuals, i.e. more than any fixed-size table of chi.plots, (IDs int / float / str, some missing), 1-3 '
        'observables, interleaved rows, dose rows, in 45 % of the frames measurements recorded ON dose rows (some or all of an '
        'observable), missing values in every column, custom column keys, every key column stored as float64 / int64 '
        '(where all entries are whole numbers) / object, '
        'shuffled index, default / explicit / absent observable, all four figure classes + add_simulation; '
        'bands: 1-4 times on a grid, in 60 % of the sample sets with 1-4 further time points nearly coincident with '
        'one of them (1 ulp ... 1e-3 relative, next to zero down to the smallest subnormal; distinct doubles are '
        'distinct time points), location and spread of the samples differing between time points (70 %), '
        '1-48 samples per time on a coarse grid (ties) or continuous, missing samples, time column float64 / int64 '
        '(40 %: whole-number times, fractional samples) / object, value and dose columns float64 / object, '
        '1-7 bulk probabilities (dyadic, customary, random); residuals: measurement + prediction frames (IDs '
        'int / float / str / missing, missing times, integer-valued measurements, unmeasured observables), '
        'all flag combinations, every trace compared with an independent computation. non-trivial = >=2 individuals and >=2 observables (routing) / a tie or a '
        'missing limit (bands); distinct = distinct (class, id kind, shape class)')
ASSUMPTIONS = ['the figure is observed through the public show() with a recording plotly renderer '
               '(the x / y arrays of the traces, their axes, names and hover texts)',
               'pandas masking / unique / rank(pct=True) semantics are modelled; IDs and observables reach '
               'the model as codes of their Python-equality classes',
               'the band theorems are over the reals; C20_band_encloses_robust covers thresholds and '
               'ranks rounded to doubles (n < 2^50)']

NANBITS = core.f2bits(float('nan'))


# ----------------------------------------------------------------------------------------
# observing figures through the public API
# ----------------------------------------------------------------------------------------
_CAP = {'renderer': None}


def _capture():
    if _CAP['renderer'] is None:
        import plotly.io as pio
        from plotly.io.base_renderers import ExternalRenderer

        class Cap(ExternalRenderer):
            def __init__(self):
                self.figs = []

            def render(self, fig_dict):
                self.figs.append(fig_dict)
        r = Cap()
        pio.renderers['verif_capture'] = r
        pio.renderers.default = 'verif_capture'
        _CAP['renderer'] = r
    return _CAP['renderer']


def _arr(v):
    if v is None:
        return []
    if isinstance(v, dict) and 'bdata' in v:
        a = np.frombuffer(base64.b64decode(v['bdata']), dtype=np.dtype(v['dtype']))
        if 'shape' in v:
            a = a.reshape([int(s) for s in str(v['shape']).split(',')])
        return [float(x) for x in a]
    out = []
    for x in list(v):
        out.append(float('nan') if x is None else float(x))
    return out


def traces(fig):
    """the traces of a chi figure as the viewer gets them: fig.show() with a recording renderer"""
    cap = _capture()
    cap.figs.clear()
    fig.show()
    d = cap.figs[-1]
    out = []
    for t in d.get('data', []):
        txt = t.get('text')
        out.append({'x': _arr(t.get('x')), 'y': _arr(t.get('y')), 'yaxis': t.get('yaxis') or 'y',
                    'name': t.get('name'), 'mode': t.get('mode'), 'fill': t.get('fill'),
                    'text': txt if isinstance(txt, str) else None})
    return out


def _plots():
    import importlib
    return importlib.import_module('chi.plots')


def frame_sig(df):
    h = hashlib.sha1()
    h.update(pd.util.hash_pandas_object(df, index=True).values.tobytes())
    h.update(repr(list(df.dtypes)).encode())
    h.update(repr(list(df.columns)).encode())
    h.update(repr(list(df.index)).encode())
    h.update(repr(df.shape).encode())
    return h.hexdigest()


def bits(x):
    x = float(x)
    if math.isnan(x):
        return NANBITS
    return core.f2bits(x + 0.0)


def missing(v):
    return v is None or v is pd.NA or (isinstance(v, float) and math.isnan(v)) or \
        (isinstance(v, np.floating) and np.isnan(v))


def pts_bits(xs, ys):
    return [[bits(a), bits(b)] for a, b in zip(xs, ys)]


def pts_set(xs, ys):
    """a marker trace as a multiset of (x, y) pairs (drawing order of markers is immaterial)"""
    if len(xs) != len(ys):
        return ['length-mismatch', len(xs), len(ys)]
    return sorted(pts_bits(xs, ys))


# ----------------------------------------------------------------------------------------
# generators
# ----------------------------------------------------------------------------------------
KEYSETS = [
    dict(id_key='ID', time_key='Time', obs_key='Observable', value_key='Value', dose_key='Dose',
         dose_duration_key='Duration'),
    dict(id_key='subject', time_key='t [h]', obs_key='what', value_key='y', dose_key='amount',
         dose_duration_key='len'),
    dict(id_key='Value', time_key='ID', obs_key='Time', value_key='Observable', dose_key='Duration',
         dose_duration_key='Dose'),     # permuted default names
]


def label_pool(rng, n):
    """n distinct observable labels of one kind: strings, integer codes or float codes. Falsy labels
    ('' / 0 / 0.0) are ordinary labels and occur regularly, at any position."""
    kind = ['str', 'str', 'str', 'int', 'float'][int(rng.integers(5))]
    if kind == 'str':
        pool = ['conc', 'tumour', 'c(t)', 'bm 2', 'A', '0']
        falsy = ''
    elif kind == 'int':
        pool = [1, 2, 3, 7, 10]
        falsy = 0
    else:
        pool = [1.0, 2.5, 3.0, 7.0]
        falsy = 0.0
    labels = [pool[int(j)] for j in rng.choice(len(pool), n, replace=False)]
    if rng.random() < 0.45:
        labels[int(rng.integers(n))] = falsy
    return kind, labels


def gen_frame(rng, force=None):
    """rows of a long-format PKPD frame in random order"""
    id_kind = force or ['int', 'int', 'float', 'str', 'str'][int(rng.integers(5))]
    # cohort size: mostly a handful; regularly more individuals than any fixed-size table in chi.plots has
    # entries (the qualitative colour palette has 10, the band palette 7)
    many = bool(rng.random() < 0.3)
    n_ids = int(rng.integers(11, 27)) if many else int(rng.integers(1, 11))
    if id_kind == 'int':
        ids = [int(v) for v in rng.choice(np.arange(0, 60), n_ids, replace=False)]
    elif id_kind == 'float':
        ids = [float(v) + float(rng.choice([0.0, 0.5])) for v in rng.choice(np.arange(0, 60), n_ids, replace=False)]
    else:
        pool = ['a', 'b7', 'pat 3', '11', 'x-1', 'Z', '007'] + ['s%02d' % j for j in range(30)]
        ids = [str(v) for v in rng.choice(pool, n_ids, replace=False)]
    # falsy IDs are ordinary IDs
    if rng.random() < 0.3:
        ids[int(rng.integers(len(ids)))] = {'int': 0, 'float': 0.0, 'str': ''}[id_kind]
    n_obs = int(rng.integers(1, 4))
    obs_kind, obs = label_pool(rng, n_obs)
    p_miss = float(rng.choice([0.0, 0.0, 0.1, 0.25]))
    rows = []
    tgrid = np.arange(0, 33) * 0.25
    # rows carrying BOTH a dose and a measurement (45 % of the frames): of some observables, a share or all
    # of the measurements sit on dose rows
    on_dose, q_on_dose = [], 0.0
    if rng.random() < 0.45:
        on_dose = [o for o in obs if rng.random() < 0.6] or [obs[0]]
        q_on_dose = float(rng.choice([0.3, 0.6, 1.0]))
    for i in ids:
        for o in obs:
            if rng.random() < 0.15:
                continue            # this individual has no measurement of this observable
            for t in rng.choice(tgrid, int(rng.integers(1, 4 if n_ids > 6 else 6)), replace=rng.random() < 0.3):
                v = float(np.round(rng.uniform(0.1, 9.0), 3))
                row = [i, float(t), o, v, None, None]
                # a measurement recorded ON the row of a dosing event (trough / pre-dose concentration, the
                # body weight taken when the dose is given): the row is a dose row AND a measurement row
                if o in on_dose and rng.random() < q_on_dose:
                    row[4] = float(rng.integers(1, 9))
                    row[5] = float(rng.choice([0.01, 0.5, 1.0]))
                rows.append(row)
        for _ in range(int(rng.integers(0, 3))):
            rows.append([i, float(rng.choice(tgrid)), None, None, float(rng.integers(1, 9)),
                         float(rng.choice([0.01, 0.5, 1.0]))])
    if not rows:
        rows.append([ids[0], 0.0, obs[0], 1.0, None, None])
    # missing values
    for r in rows:
        if rng.random() < p_miss:
            j = int(rng.choice([0, 1, 2, 3]))
            r[j] = None
    order = rng.permutation(len(rows))
    if rng.random() < 0.3:
        order = np.arange(len(rows))
    rows = [rows[int(k)] for k in order]
    keys = dict(KEYSETS[int(rng.choice([0, 0, 1, 2]))])
    index = None
    r = rng.random()
    if r < 0.3:
        index = [int(v) for v in rng.permutation(len(rows)) + 3]
    time_int = bool(rng.random() < 0.15)
    # storage dtype of every key column: what the values are does not depend on how the column stores them
    dtypes = {'time': 'int' if time_int else pick_dtype(rng, ('float', 'float', 'float', 'object')),
              'value': pick_dtype(rng, ('float', 'float', 'float', 'object', 'int')),
              'dose': pick_dtype(rng, ('float', 'float', 'float', 'object', 'int')),
              'id': pick_dtype(rng, ('auto', 'auto', 'object')),
              'obs': pick_dtype(rng, ('auto', 'auto', 'object'))}
    return {'id_kind': id_kind, 'rows': rows, 'keys': keys, 'index': index, 'time_int': time_int,
            'extra_col': bool(rng.random() < 0.3), 'obs_kind': obs_kind, 'dtypes': dtypes,
            'on_dose': bool(on_dose)}


def pick_dtype(rng, options):
    return str(options[int(rng.integers(len(options)))])


def num_column(values, dtype, scale=1):
    """a numeric column stored as float64 / object (Python floats, NaN for missing) / int64 (only when every
    entry is present and, times `scale`, a whole number; float64 otherwise)"""
    if dtype == 'int' and all(v is not None and abs(v * scale - round(v * scale)) < 1e-6 for v in values):
        return pd.Series([int(round(v * scale)) for v in values], dtype='int64')
    if dtype == 'object':
        return pd.Series([np.nan if v is None else float(v) for v in values], dtype=object)
    return pd.Series([np.nan if v is None else v for v in values], dtype='float64')


def build_frame(fr):
    k = fr['keys']
    rows = fr['rows']
    dt = fr.get('dtypes') or {}
    cols = {}
    idv = [r[0] for r in rows]
    if dt.get('id') == 'object':
        cols[k['id_key']] = pd.Series([np.nan if v is None else v for v in idv], dtype=object)
    elif fr['id_kind'] == 'str':
        cols[k['id_key']] = pd.Series([np.nan if v is None else v for v in idv], dtype='str' if all(
            v is not None for v in idv) else None)
    else:
        cols[k['id_key']] = pd.Series([np.nan if v is None else v for v in idv])
    tv = [r[1] for r in rows]
    cols[k['time_key']] = num_column(tv, 'int' if fr['time_int'] else dt.get('time', 'float'), 4)
    cols[k['obs_key']] = pd.Series([np.nan if r[2] is None else r[2] for r in rows],
                                   dtype=object if dt.get('obs') == 'object' else None)
    # whole-number measurements / doses stored as integers: values times 1000 (mg -> ug), doses as they are
    cols[k['value_key']] = num_column([r[3] for r in rows], dt.get('value', 'float'), 1000)
    cols[k['dose_key']] = num_column([r[4] for r in rows], dt.get('dose', 'float'))
    cols[k['dose_duration_key']] = num_column([r[5] for r in rows],
                                              'object' if dt.get('dose') == 'object' else 'float')
    df = pd.DataFrame(cols)
    if fr['extra_col']:
        df['note'] = ['n%d' % j for j in range(len(rows))]
    if fr['index'] is not None:
        df.index = fr['index']
    return df


def stored_rows(df, keys):
    """the frame as the plotting code will see it (after pandas' dtype coercion)"""
    out = []
    cols = [df[keys[k]].tolist() for k in ('id_key', 'time_key', 'obs_key', 'value_key', 'dose_key',
                                           'dose_duration_key')]
    for i, t, o, v, d, u in zip(*cols):
        out.append([None if missing(i) else i, float('nan') if missing(t) else float(t),
                    None if missing(o) else o, float('nan') if missing(v) else float(v),
                    None if missing(d) else float(d), float('nan') if missing(u) else float(u)])
    return out


def codes(values):
    table = []
    out = []
    for v in values:
        if v is None:
            out.append(None)
            continue
        for j, w in enumerate(table):
            if type(w) is type(v) and w == v or (isinstance(w, numbers.Real) and isinstance(v, numbers.Real)
                                                 and w == v):
                out.append(j)
                break
        else:
            table.append(v)
            out.append(len(table) - 1)
    return out, table


def wire_rows(srows):
    idc, idt = codes([r[0] for r in srows])
    obc, obt = codes([r[2] for r in srows])
    w = [[idc[j], obc[j], bits(r[1]), bits(r[3]), None if r[4] is None else bits(r[4]), bits(r[5])]
         for j, r in enumerate(srows)]
    numeric = [j for j, v in enumerate(idt) if isinstance(v, numbers.Real)]
    return w, idt, obt, numeric


def id_labels(v):
    labs = {'ID: %s' % str(v)}
    if isinstance(v, numbers.Real):
        try:
            labs.add('ID: %d' % v)
        except Exception:
            pass
    return labs


# ----------------------------------------------------------------------------------------
# the property's right-hand side (plain comprehension over the rows)
# ----------------------------------------------------------------------------------------
def same(a, b):
    return type(a) is type(b) and a == b or (isinstance(a, numbers.Real) and isinstance(b, numbers.Real)
                                             and a == b)


def spec_routing(srows, observable):
    if observable is None:
        present = [r[2] for r in srows if r[2] is not None]
        if not present:
            return None
        observable = present[0]
    elif not any(r[2] is not None and r[2] == observable for r in srows):
        return None
    individuals = []
    for r in srows:
        if r[2] is not None and r[2] == observable and r[0] is not None:
            if not any(same(r[0], i) for i in individuals):
                individuals.append(r[0])
    out = []
    for i in individuals:
        pts = [[bits(r[1]), bits(r[3])] for r in srows
               if r[2] is not None and r[2] == observable and r[0] is not None and same(r[0], i)]
        dose = [[bits(r[1]), bits(r[4])] for r in srows
                if r[4] is not None and r[0] is not None and same(r[0], i)]
        out.append((i, sorted(pts), sorted(dose)))
    return observable, out


def assign(trs, individuals):
    """match traces to individuals by their label; None if that is not possible"""
    used = set()
    res = []
    for i in individuals:
        labs = id_labels(i)
        cand = [k for k, t in enumerate(trs) if k not in used and t['name'] in labs]
        if not cand:
            return None
        used.add(cand[0])
        res.append(cand[0])
    rest = [k for k in range(len(trs)) if k not in used]
    return res, rest


# ----------------------------------------------------------------------------------------
# routing
# ----------------------------------------------------------------------------------------
def call_plot(ctx, label, df, fn, inp, others=()):
    """run one plotting call; frames hashed before and after (the property's last sentence)"""
    frames = [df] + list(others)
    before = [frame_sig(f) for f in frames]
    copies = [f.copy(deep=True) for f in frames]
    try:
        res = fn()
        out = ('ok', res)
    except Exception as e:  # noqa
        out = (core.errkind(e), None)
        ctx.errkinds.add(out[0])
    after = [frame_sig(f) for f in frames]
    unchanged = before == after and all(f.equals(c) for f, c in zip(frames, copies))
    ctx.spec('C20.no_mutation/' + label, unchanged, inp, {'call': label})
    return out


_UNSET = object()


def routing_case(ctx, chi, fr, observable_mode, k, observable=_UNSET):
    plots = _plots()
    df = build_frame(fr)
    keys = fr['keys']
    srows = stored_rows(df, keys)
    w, idt, obt, numeric = wire_rows(srows)
    present = [o for o in obt]
    if observable is not _UNSET:
        pass
    elif observable_mode == 'default' or not present:
        observable = None
    elif observable_mode == 'absent':
        observable = 'not-there' if fr.get('obs_kind', 'str') == 'str' else 99
    else:
        later_falsy = [o for o in present[1:] if not o]
        observable = later_falsy[0] if later_falsy and k % 2 == 0 else present[k % len(present)]
    inp = {'kind': 'routing', 'k': k, 'frame': fr, 'observable': observable, 'mode': observable_mode}
    obs_code = None if observable is None else (obt.index(observable) if observable in obt else len(obt))
    spec = spec_routing(srows, observable)
    n_ind = 0 if spec is None else len(spec[1])
    cls = '%s/%s/%s' % (fr['id_kind'], observable_mode,
                        'ids>10' if n_ind > 10 else 'ids%d' % min(n_ind, 3))
    ctx.case('routing:' + cls, nontrivial=('routing:%s/obs%d' % (cls, len(obt))) if n_ind >= 2 and len(obt) >= 2
             else False, sample=inp)
    if spec is not None:
        both = sum(1 for r in srows if r[4] is not None and r[2] is not None and r[2] == spec[0])
        total = sum(1 for r in srows if r[2] is not None and r[2] == spec[0])
        if both:
            ctx.nontrivial.add('routing:measurement-on-dose-row/%s/%s' % (
                fr['id_kind'], 'all' if both == total else 'some'))
        ctx.branches.add('dose+measurement rows:' + ('none' if not both else 'all' if both == total else 'some'))
    for a_ in ('id_key', 'time_key', 'obs_key', 'value_key', 'dose_key', 'dose_duration_key'):
        ctx.branches.add('dtype:%s:%s' % (a_, df[keys[a_]].dtype))
    mspec = ctx.model('C20.spec', w, obs_code)
    pdkeys = {a: keys[a] for a in ('id_key', 'time_key', 'obs_key', 'value_key')}
    for name in ('PDTimeSeriesPlot', 'PDPredictivePlot', 'PKTimeSeriesPlot', 'PKPredictivePlot'):
        pk = name.startswith('PK')
        fig = getattr(plots, name)()
        kw = keys if pk else pdkeys
        status, _ = call_plot(ctx, name + '.add_data', df,
                              lambda: fig.add_data(df, observable=observable, **kw), inp)
        if pk:
            variants = [ctx.model('C20.pk_add_data', w, obs_code)]
        else:
            variants = [ctx.model('C20.pd_add_data', w, obs_code)]
        ctx.branches.add('%s:%s' % (name, status))
        tag = 'C20.row_routing/' + name
        trs = traces(fig) if status == 'ok' else []
        marker = [t for t in trs if t['yaxis'] == ('y2' if pk else 'y')]
        dose = [t for t in trs if pk and t['yaxis'] == 'y']
        individuals = [] if spec is None else [s_[0] for s_ in spec[1]]
        a = assign(marker, individuals) if status == 'ok' else None
        a2 = assign(dose, individuals) if (pk and status == 'ok') else None

        def corr(mo):
            """(label, chi's observable output, the model's) — traces keyed by the individual
            (order-free) when the labels identify the individuals, positional otherwise"""
            lab = 'C20.add_data/' + name
            if status != 'ok' or mo[0] != 'ok' or spec is None:
                return lab, status, mo[0]
            if a is not None and (not pk or a2 is not None):
                idx, rest = a
                got = {}
                for pos, (i, kk) in enumerate(zip(individuals, idx)):
                    code = [j for j, v in enumerate(idt) if same(v, i)][0]
                    entry = [code]
                    if pk:
                        dk = a2[0][pos]
                        entry.append(pts_set(dose[dk]['x'], dose[dk]['y']))
                    entry.append(pts_set(marker[kk]['x'], marker[kk]['y']))
                    got[code] = entry
                chi_out = [got[c] for c in sorted(got)] + [
                    ['extra', pts_set(marker[kk]['x'], marker[kk]['y'])] for kk in rest if len(marker[kk]['x'])]
                model_out = sorted([[t[0]] + [sorted(q) for q in t[1:]] for t in mo[1] if t[0] is not None],
                                   key=lambda t: t[0])
                return lab, chi_out, model_out
            return ('C20.add_data(positional)/' + name, [pts_set(t['x'], t['y']) for t in marker],
                    [sorted(t[-1]) for t in mo[1]])
        pairs = [corr(mo) for mo in variants]
        chosen = next((pr for pr in pairs if core.close(pr[1], pr[2])), pairs[0])
        ctx.agree(chosen[0], chosen[1], chosen[2], inp)
        if spec is None:
            continue       # nothing the property describes (no such observable): model comparison only
        # --- the property on the real figure
        if status != 'ok':
            why = tag
            if not pk and status in ('err:typeError', 'err:valueError') and any(
                    r[0] is None or not isinstance(r[0], numbers.Real) for r in srows
                    if r[2] is not None and r[2] == spec[0]):
                why = 'C20.row_routing/pd_id_format'
            elif name == 'PDPredictivePlot' and observable is None and srows and srows[0][2] is None:
                why = 'C20.row_routing/pdpredictive_default_observable'
            ctx.spec(why, False, inp, {'class': name, 'raised': status})
            continue
        ok = a is not None
        detail = {'class': name, 'traces': [(t['name'], len(t['x'])) for t in trs]}
        if ok:
            idx, rest = a
            for (i, pts, dpts), kk in zip(spec[1], idx):
                if pts_set(marker[kk]['x'], marker[kk]['y']) != pts:
                    ok = False
                    detail['individual'] = i
                    detail['drawn'] = [marker[kk]['x'], marker[kk]['y']]
                    detail['expected_bits'] = pts
            if any(len(marker[kk]['x']) or len(marker[kk]['y']) for kk in rest):
                ok = False
                detail['extra_nonempty_trace'] = True
        why = tag
        if not ok and name == 'PDPredictivePlot' and observable is None and srows and srows[0][2] is None:
            why = 'C20.row_routing/pdpredictive_default_observable'
        ctx.spec(why, ok, inp, detail)
        if pk:
            okd = a2 is not None
            if okd:
                idx, rest = a2
                for (i, pts, dpts), kk in zip(spec[1], idx):
                    if pts_set(dose[kk]['x'], dose[kk]['y']) != dpts:
                        okd = False
                if any(len(dose[kk]['x']) for kk in rest):
                    okd = False
            ctx.spec('C20.dose_routing/' + name, okd, inp, {'class': name})
    # --- the model's spec twin against the Python comprehension (guards the statement itself)
    if spec is not None and mspec[0] is not None:
        want = sorted([[[j for j, v in enumerate(idt) if same(v, i)][0], pts] for i, pts, _ in spec[1]],
                      key=lambda t: t[0])
        have = sorted([[t[0], sorted(t[1])] for t in mspec[1] if t[0] is not None], key=lambda t: t[0])
        ctx.agree('C20.spec_twin', want, have, inp)
    # --- add_simulation (PD time series): one line with every row
    fig = plots.PDTimeSeriesPlot()
    status, _ = call_plot(ctx, 'PDTimeSeriesPlot.add_simulation', df,
                          lambda: fig.add_simulation(df, time_key=keys['time_key'],
                                                     value_key=keys['value_key']), inp)
    if status == 'ok':
        trs = traces(fig)
        want = [[bits(r[1]), bits(r[3])] for r in srows]
        ctx.spec('C20.simulation', len(trs) == 1 and pts_bits(trs[0]['x'], trs[0]['y']) == want, inp)
        ctx.agree('C20.simulation', [pts_bits(t['x'], t['y']) for t in trs],
                  ctx.model('C20.simulation', w), inp)
    else:
        ctx.spec('C20.simulation', False, inp, {'raised': status})


# ----------------------------------------------------------------------------------------
# bands
# ----------------------------------------------------------------------------------------
PROBS_DYADIC = [k / 16 for k in range(1, 16)]
PROBS_USUAL = [0.3, 0.5, 0.6, 0.8, 0.9, 0.95, 0.99, 0.05, 0.1]


def near_time(rng, t):
    """a time point DIFFERENT from t, between one unit in the last place and ~1e-3 (relative; absolute next to
    zero) away from it: a grid that resolves an event with a point just before / after it, times that were
    computed along two routes, a step of a fine solver output. Distinct doubles are distinct time points."""
    sgn = 1.0 if (t == 0.0 or rng.random() < 0.5) else -1.0
    kind = int(rng.integers(4))
    if t == 0.0:
        cand = float(rng.choice([5e-324, 1e-300, 1e-16, 1e-12, 5e-9, 1e-8, 1e-6, 1e-4]))
    elif kind == 0:
        cand = float(np.nextafter(t, t + sgn))
        for _ in range(int(rng.integers(0, 4))):
            cand = float(np.nextafter(cand, cand + sgn))
    elif kind == 1:
        cand = t * (1.0 + sgn * 10.0 ** (-float(rng.uniform(3.0, 15.5))))
    elif kind == 2:
        cand = t + sgn * float(rng.choice([1e-3, 1e-4, 1e-5, 1e-6, 1e-7, 1e-8, 1e-9, 1e-10, 1e-12]))
    else:
        cand = t + sgn * 10.0 ** (-float(rng.uniform(3.0, 13.0)))
    cand = float(cand)
    if cand == t or cand < 0.0:
        cand = float(np.nextafter(t, np.inf))
    return cand


def gen_samples(rng):
    n_times = int(rng.integers(1, 5))
    # storage dtype of the key columns; an integer time column (times from range / np.arange / whole-number
    # times read from a file) has whole-number times and, of course, samples that are not whole numbers
    dtypes = {'time': pick_dtype(rng, ('float', 'float', 'int', 'int', 'object')),
              'value': pick_dtype(rng, ('float', 'float', 'float', 'object')),
              'dose': pick_dtype(rng, ('float', 'float', 'object', 'int')),
              'obs': pick_dtype(rng, ('auto', 'auto', 'object'))}
    if dtypes['time'] == 'int':
        times = [float(t) for t in np.sort(rng.choice(np.arange(0, 40), n_times, replace=False))]
    else:
        times = [float(t) for t in np.sort(rng.choice(np.arange(0, 40) * 0.5, n_times, replace=False))]
    # time axis: well separated grid points, or (regularly) clusters of 2-3 nearly coincident, distinct points
    tmode = ['plain', 'plain', 'near', 'near', 'near'][int(rng.integers(5))]
    if dtypes['time'] == 'int':
        tmode = 'plain'
    if tmode == 'near':
        for t in [times[int(j)] for j in rng.choice(len(times), int(rng.integers(1, min(2, len(times)) + 1)),
                                                     replace=False)]:
            for _ in range(int(rng.choice([1, 1, 1, 2]))):
                c = near_time(rng, t)
                if c not in times:
                    times.append(c)
        if rng.random() < 0.5:
            times = sorted(times)
    mode = ['grid', 'grid', 'cont', 'pow2'][int(rng.integers(4))]
    # the sample distribution differs from time point to time point (location and spread), as that of a
    # response over time does
    vary = bool(rng.random() < 0.7)
    rows = []
    for t in times:
        n = int(rng.integers(1, 49))
        if mode == 'pow2':
            n = int(2 ** rng.integers(0, 6))
        loc = float(rng.choice([0.0, 0.0, 2.5, 6.0, 20.0, -4.0])) if vary else 0.0
        scale = float(rng.choice([1.0, 1.0, 0.0625, 4.0])) if vary else 1.0
        if mode == 'cont':
            xs = [loc + scale * float(v) for v in rng.lognormal(0.0, 1.0, n)]
        else:
            xs = [loc + scale * float(v) * 0.5 for v in rng.integers(0, int(rng.integers(2, 12)), n)]
        for x in xs:
            rows.append([t, 'main', x])
    for _ in range(int(rng.integers(0, 6))):
        rows.append([float(rng.choice(times)), 'other', float(rng.uniform(50, 60))])
    if rng.random() < 0.25:
        for _ in range(int(rng.integers(1, 4))):
            rows.append([float(rng.choice(times)), 'main', None])     # missing sample
    if rng.random() < 0.15:
        rows.append([float(times[0]), None, 3.0])                     # missing observable
    doses = [[float(rng.choice(times)), float(rng.integers(1, 5)), 0.01] for _ in range(int(rng.integers(0, 3)))]
    order = rng.permutation(len(rows)) if rng.random() < 0.6 else np.arange(len(rows))
    rows = [rows[int(j)] for j in order]
    pm = rng.random()
    npb = int(rng.integers(1, 8))
    if pm < 0.35:
        ps = [float(p) for p in rng.choice(PROBS_DYADIC, min(npb, 7), replace=False)]
    elif pm < 0.7:
        ps = [float(p) for p in rng.choice(PROBS_USUAL, min(npb, 7), replace=False)]
    else:
        ps = [float(p) for p in np.unique(np.round(rng.uniform(0.01, 0.99, npb), int(rng.integers(2, 17))))]
        ps = [p for p in ps if 0 < p < 1] or [0.5]
        ps = [float(p) for p in rng.permutation(ps)]
    keys = dict(KEYSETS[int(rng.choice([0, 0, 1]))])
    _, lab = label_pool(rng, 2)
    if rng.random() < 0.5:
        lab = ['main', 'other']
    return {'rows': rows, 'doses': doses, 'ps': ps, 'mode': mode, 'tmode': tmode, 'keys': keys,
            'labels': {'main': lab[0], 'other': lab[1]}, 'dtypes': dtypes,
            'index': [int(v) for v in rng.permutation(len(rows) + len(doses)) + 1] if rng.random() < 0.3 else None}


def band_label(g, tag='main'):
    return g.get('labels', {'main': 'main', 'other': 'other'})[tag]


def build_pred_frame(g):
    k = g['keys']
    rows = [[r[0], None if r[1] is None else band_label(g, r[1]), r[2]] for r in g['rows']]
    nd = len(g['doses'])
    dt = g.get('dtypes') or {}
    df = pd.DataFrame({
        k['time_key']: num_column([r[0] for r in rows] + [d[0] for d in g['doses']], dt.get('time', 'float')),
        k['obs_key']: pd.Series([np.nan if r[1] is None else r[1] for r in rows] + [np.nan] * nd,
                                dtype=object if dt.get('obs') == 'object' else None),
        k['value_key']: num_column([r[2] for r in rows] + [None] * nd, dt.get('value', 'float')),
        k['dose_key']: num_column([None] * len(rows) + [d[1] for d in g['doses']], dt.get('dose', 'float')),
        k['dose_duration_key']: num_column([None] * len(rows) + [d[2] for d in g['doses']],
                                           'object' if dt.get('dose') == 'object' else 'float'),
    })
    if g['index'] is not None:
        df.index = g['index']
    return df


def exact_rank(xs, x):
    lt = sum(1 for y in xs if y < x)
    eq = sum(1 for y in xs if y == x)
    return (Fraction(lt) + Fraction(eq + 1, 2)) / len(xs)


def decode_bands(trs):
    """band traces -> {p: (times, lower, upper)}; None when a polygon is not closed the documented way"""
    out = {}
    for t in trs:
        if t['fill'] != 'toself':
            continue
        n2 = len(t['x'])
        if n2 % 2 or len(t['y']) != n2 or t['text'] is None or not t['text'].endswith(' Bulk'):
            return None
        T = n2 // 2
        xs, ys = t['x'], t['y']
        for j in range(T):
            if bits(xs[j]) != bits(xs[n2 - 1 - j]):
                return None
        try:
            p = float(t['text'][:-5])
        except ValueError:
            return None
        if p in out:
            return None
        out[p] = (xs[:T], [ys[n2 - 1 - j] for j in range(T)], ys[:T])
    return out


def band_case(ctx, chi, g, k):
    plots = _plots()
    df = build_pred_frame(g)
    keys = g['keys']
    inp = {'kind': 'band', 'k': k, 'gen': g}
    main = [(r[0], r[2]) for r in g['rows'] if r[1] == 'main']
    utimes = []
    for t, _ in main:
        if t not in utimes:
            utimes.append(t)
    samples = {t: [x for tt, x in main if tt == t and x is not None] for t in utimes}
    has_tie = any(len(set(v)) < len(v) for v in samples.values())
    # smallest gap between two different time points of the frame, relative to the larger one
    gaps = [abs(a - b) / max(abs(a), abs(b)) for i, a in enumerate(utimes) for b in utimes[:i]]
    gap = min(gaps) if gaps else float('inf')
    gcls = 'none' if gap > 1e-2 else ('<=1e-12' if gap <= 1e-12 else '<=1e-8' if gap <= 1e-8 else
                                      '<=1e-5' if gap <= 1e-5 else '<=1e-2')
    ctx.case('band:%s/np%d' % (g['mode'], len(g['ps'])),
             nontrivial=('band:near-times/%s/%s' % (g['mode'], gcls)) if gcls != 'none' else False, sample=inp)
    ctx.branches.add('time-gap:' + gcls)
    for a_ in ('time_key', 'obs_key', 'value_key', 'dose_key', 'dose_duration_key'):
        ctx.branches.add('band dtype:%s:%s' % (a_, df[keys[a_]].dtype))
    if str(df[keys['time_key']].dtype).startswith('int') and any(
            x is not None and not float(x).is_integer() for v in samples.values() for x in v):
        ctx.nontrivial.add('band:integer-time-column/fractional-samples/%s' % g['mode'])
    wrows = [[None if r[0] is None else bits(r[0]), r[2]] for r in g['rows'] if r[1] == 'main']
    mb = ctx.model('C20.bands', wrows, g['ps'])
    # the samples of a time point are those of the rows with exactly that time: the comprehension above
    # against the model's selection (guards the reference the figure is compared with)
    for t in utimes:
        ctx.agree('C20.samples_at_twin', samples[t], ctx.model('C20.samples_at', wrows, bits(t))[0],
                  {**inp, 'time': t})
    if gcls != 'none' and all(t >= 0.0 for t in utimes):
        # how far apart the closest two time points are on the number line (in doubles), and whether a time
        # mask with that tolerance would draw other limits than `==` (model, first probability): such a
        # frame tells the two apart
        tick = min(abs(bits(a) - bits(b)) for i, a in enumerate(utimes) for b in utimes[:i])
        exact = ctx.model('C20.band_rows_by', 0, wrows, g['ps'][0])[0]
        pooled = ctx.model('C20.band_rows_by', tick, wrows, g['ps'][0])[0]
        ctx.extra.setdefault('near_times', {'frames': 0, 'pooling_changes_limits': 0})
        ctx.extra['near_times']['frames'] += 1
        if exact != pooled:
            ctx.extra['near_times']['pooling_changes_limits'] += 1
            ctx.nontrivial.add('band:near-times-discriminating/%s/%s' % (g['mode'], gcls))
    pkw = {a: keys[a] for a in ('time_key', 'obs_key', 'value_key')}
    band_model = {}      # the model's limits per (time, probability): the same request for both figure classes
    for name in ('PDPredictivePlot', 'PKPredictivePlot'):
        pk = name.startswith('PK')
        kw = dict(pkw)
        if pk:
            kw.update(dose_key=keys['dose_key'], dose_duration_key=keys['dose_duration_key'])
        fig = getattr(plots, name)()
        status, _ = call_plot(ctx, name + '.add_prediction', df,
                              lambda: fig.add_prediction(df, observable=band_label(g), bulk_probs=list(g['ps']), **kw),
                              inp)
        ctx.agree('C20.add_prediction.status/' + name, status, mb[0], inp)
        if status != 'ok':
            ctx.spec('C20.band_drawn/' + name, False, inp, {'raised': status})
            continue
        trs = traces(fig)
        dec = decode_bands(trs)
        ok = dec is not None and sorted(dec) == sorted(g['ps'])
        ctx.spec('C20.band_polygon/' + name, ok, inp,
                 {'texts': [t['text'] for t in trs], 'requested': g['ps']})
        if not ok:
            continue
        missing_limit = False
        for p in g['ps']:
            ts, lows, ups = dec[p]
            okt = [bits(t) for t in ts] == [bits(t) for t in utimes]
            ctx.spec('C20.band_times/' + name, okt, inp, {'p': p, 'drawn': ts, 'expected': utimes})
            mpoly = [b for b in mb[1] if b[0] == p]
            ctx.agree('C20.band_times/' + name, [bits(t) for t in ts],
                      mpoly[0][1][:len(mpoly[0][1]) // 2] if mpoly else None, {**inp, 'p': p})
            if not okt:
                continue
            for j, t in enumerate(utimes):
                xs = samples[t]
                lo, hi = lows[j], ups[j]
                lo = None if math.isnan(lo) else lo
                hi = None if math.isnan(hi) else hi
                if (j, p) not in band_model:
                    band_model[(j, p)] = ctx.model('C20.band', xs, p)
                mo = band_model[(j, p)]
                ctx.agree('C20.band_exists/' + name, [lo is not None, hi is not None],
                          [mo[0] is not None, mo[1] is not None], {**inp, 'p': p, 'time': t})
                ctx.branches.add('limits:%d%d' % (lo is not None, hi is not None))
                # "whenever both limits exist": a limit exists when some sample has an admissible rank
                # (ranks and thresholds in doubles, as pandas computes them)
                if xs:
                    fr_ = [(sum(1 for y in xs if y < x) + (sum(1 for y in xs if y == x) + 1) / 2) / len(xs)
                           for x in xs]
                    ex_lo = any(r_ <= 0.5 - p / 2 for r_ in fr_)
                    ex_hi = any(r_ >= 0.5 + p / 2 for r_ in fr_)
                else:
                    ex_lo = ex_hi = False
                ctx.spec('C20.band_limit_drawn_when_it_exists/' + name,
                         (lo is not None or not ex_lo) and (hi is not None or not ex_hi), inp,
                         {'p': p, 'time': t, 'samples': xs, 'lower': lo, 'upper': hi})
                if lo is None or hi is None:
                    missing_limit = True
                    continue
                det = {'p': p, 'time': t, 'samples': xs, 'lower': lo, 'upper': hi, 'class': name}
                # weak relation the enclosure theorem needs, evaluated by the model
                adm = ctx.model('C20.admissible', xs, p, lo, hi)
                ctx.agree('C20.band_admissible/' + name, [True, True, True, True], adm[:4], {**inp, **det})
                # the property on the figure, in exact arithmetic
                n = len(xs)
                inside = sum(1 for x in xs if lo <= x <= hi)
                ctx.spec('C20.band_limits_are_samples/' + name, lo in xs and hi in xs, inp, det)
                ctx.spec('C20.band_encloses/' + name, Fraction(inside) >= Fraction(p) * n, inp,
                         {**det, 'inside': inside, 'n': n})
                if lo in xs and hi in xs:
                    ex = (exact_rank(xs, lo) <= Fraction(1, 2) - Fraction(p) / 2,
                          exact_rank(xs, hi) >= Fraction(1, 2) + Fraction(p) / 2)
                    ctx.extra.setdefault('float_vs_rational', {'agree': 0, 'differ': 0})
                    ctx.extra['float_vs_rational']['agree' if all(ex) else 'differ'] += 1
                    if not all(ex):
                        # the double comparison admits a limit the exact one would not (or vice versa):
                        # harmless for the property by C20_band_encloses_robust, recorded for inspection
                        ex_l = ctx.extra.setdefault('float_vs_rational_examples', [])
                        if len(ex_l) < 4:
                            ex_l.append({'p': repr(p), 'n': n, 'lower': lo, 'upper': hi,
                                         'exact_rank_lower': str(exact_rank(xs, lo)),
                                         'exact_rank_upper': str(exact_rank(xs, hi)),
                                         'inside': inside})
                    if mo[0] is not None and mo[1] is not None:
                        ctx.extra.setdefault('chi_picks_model_limits', {'same': 0, 'other_admissible': 0})
                        ctx.extra['chi_picks_model_limits'][
                            'same' if (mo[0] == lo and mo[1] == hi) else 'other_admissible'] += 1
        # nestedness
        sp = sorted(g['ps'])
        for a in range(len(sp)):
            for b in range(a + 1, len(sp)):
                p, q = sp[a], sp[b]
                for j in range(len(utimes)):
                    lp, up, lq, uq = dec[p][1][j], dec[p][2][j], dec[q][1][j], dec[q][2][j]
                    if any(math.isnan(v) for v in (lp, up, lq, uq)):
                        continue
                    ctx.spec('C20.band_nested/' + name, lq <= lp and up <= uq, inp,
                             {'p': p, 'q': q, 'time': utimes[j], 'band_p': [lp, up], 'band_q': [lq, uq],
                              'samples': samples[utimes[j]]})
        if has_tie or missing_limit:
            ctx.nontrivial.add('band:%s/%s/tie%d/miss%d/np%d' % (name, g['mode'], has_tie, missing_limit,
                                                                 len(g['ps'])))
        if pk:
            dtr = [t for t in trs if t['yaxis'] == 'y' and t['fill'] != 'toself']
            want = sorted([bits(d[0]), bits(d[1])] for d in g['doses'])
            ctx.spec('C20.dose_routing/PKPredictivePlot.add_prediction',
                     len(dtr) == 1 and pts_set(dtr[0]['x'], dtr[0]['y']) == want, inp)
    # scatter variant
    srows = [[None, r[0], r[1], float('nan') if r[2] is None else r[2], None, float('nan')] for r in g['rows']] + \
            [[None, d[0], None, float('nan'), d[1], d[2]] for d in g['doses']]
    w, _, obt, _ = wire_rows(srows)
    for name in ('PDPredictivePlot', 'PKPredictivePlot'):
        pk = name.startswith('PK')
        kw = dict(pkw)
        if pk:
            kw.update(dose_key=keys['dose_key'], dose_duration_key=keys['dose_duration_key'])
        fig = getattr(plots, name)()
        status, _ = call_plot(ctx, name + '.add_prediction(scatter)', df,
                              lambda: fig.add_prediction(df, observable=band_label(g), bulk_probs=None, **kw), inp)
        want = sorted([bits(r[0]), bits(float('nan') if r[2] is None else r[2])] for r in g['rows']
                      if r[1] == 'main')
        if status != 'ok':
            ctx.spec('C20.prediction_scatter/' + name, False, inp, {'raised': status})
            continue
        trs = [t for t in traces(fig) if t['mode'] == 'markers' and t['name'] != 'Predictive model']
        ctx.spec('C20.prediction_scatter/' + name,
                 len(trs) == 1 and pts_set(trs[0]['x'], trs[0]['y']) == want, inp)
        mo = ctx.model('C20.scatter', w, obt.index('main'))
        ctx.agree('C20.prediction_scatter/' + name, ['ok'] + [pts_set(t['x'], t['y']) for t in trs],
                  [mo[0]] + [sorted(q) for q in mo[1:2]], inp)


def band_errors(ctx, chi):
    """bulk probabilities outside [0, 1] / more than seven"""
    plots = _plots()
    df = pd.DataFrame({'Time': [0.0, 0.0, 1.0], 'Observable': ['main'] * 3, 'Value': [1.0, 2.0, 3.0]})
    for ps in ([1.5], [-0.1, 0.5], [0.1, 0.2, 0.3, 0.4, 0.5, 0.6, 0.7, 0.8]):
        fig = plots.PDPredictivePlot()
        inp = {'kind': 'band_errors', 'ps': ps}
        status, _ = call_plot(ctx, 'PDPredictivePlot.add_prediction', df,
                              lambda: fig.add_prediction(df, bulk_probs=ps), inp)
        mo = ctx.model('C20.bands', [[bits(0.0), 1.0], [bits(0.0), 2.0], [bits(1.0), 3.0]], ps)
        ctx.agree('C20.add_prediction.status/PDPredictivePlot', status, mo[0], inp)
        ctx.case('band:rejected-probabilities')


# ----------------------------------------------------------------------------------------
# residuals
# ----------------------------------------------------------------------------------------
def gen_residual(rng):
    id_kind = ['int', 'int', 'float', 'str', 'str'][int(rng.integers(5))]
    n_ids = int(rng.integers(11, 24)) if rng.random() < 0.25 else int(rng.integers(1, 6))
    if id_kind == 'str':
        ids = [str(v) for v in rng.choice(['a', 'b', 'c9', 'd', 'pat 1'] + ['s%02d' % j for j in range(25)], n_ids,
                                          replace=False)]
    elif id_kind == 'float':
        ids = [float(v) + float(rng.choice([0.0, 0.5])) for v in rng.choice(np.arange(1, 30), n_ids, replace=False)]
    else:
        ids = [int(v) for v in rng.choice(np.arange(1, 30), n_ids, replace=False)]
    obs_kind, obs = label_pool(rng, int(rng.integers(1, 4)))
    if rng.random() < 0.3:
        ids[int(rng.integers(len(ids)))] = {'int': 0, 'float': 0.0, 'str': ''}[id_kind]
    # storage dtype of the time / value columns of the two frames (int64: whole-number times)
    dtypes = {'mtime': pick_dtype(rng, ('float', 'float', 'int', 'object')),
              'ptime': pick_dtype(rng, ('float', 'float', 'int', 'object')),
              'mvalue': pick_dtype(rng, ('float', 'float', 'object')),
              'pvalue': pick_dtype(rng, ('float', 'float', 'object'))}
    whole = 'int' in (dtypes['mtime'], dtypes['ptime'])
    tgrid = [float(t) for t in np.arange(0, 8) * (1.0 if whole else 0.5)]
    int_values = bool(rng.random() < 0.2)
    meas = []
    for i in ids:
        for o in obs:
            if rng.random() < 0.15 and len(meas) > 0:
                continue
            for t in rng.choice(tgrid, int(rng.integers(1, 4)), replace=rng.random() < 0.25):
                v = float(rng.integers(1, 9)) if int_values else float(np.round(rng.uniform(0.5, 5.0), 3))
                meas.append([i, float(t), o, v])
    if not meas:
        meas.append([ids[0], 0.0, obs[0], 1.0])
    if rng.random() < 0.15:
        meas[int(rng.integers(len(meas)))][0] = None        # a measurement without ID
    if rng.random() < 0.15:
        meas[int(rng.integers(len(meas)))][1] = None        # a measurement without time
    if rng.random() < 0.1:
        meas[int(rng.integers(len(meas)))][2] = None        # a row without observable (e.g. a dose row)
    order = rng.permutation(len(meas))
    meas = [meas[int(j)] for j in order]
    pred = []
    drop = rng.random() < 0.12
    for o in obs + ([{'str': 'unmeasured', 'int': 55, 'float': 55.0}[obs_kind]] if rng.random() < 0.2 else []):
        for t in tgrid:
            if drop and t == meas[0][1] and o == meas[0][2]:
                continue         # no prediction for a measured time -> ValueError expected
            for _ in range(int(rng.integers(1, 5))):
                pred.append([o, t, float(np.round(rng.uniform(0.5, 5.0), 3))])
    if rng.random() < 0.25:
        pred.append([obs[0], tgrid[int(rng.integers(len(tgrid)))], None])
    if rng.random() < 0.15:
        pred.append([None, tgrid[0], 2.0])
    pred = [pred[int(j)] for j in rng.permutation(len(pred))]
    flags = [(True, False), (True, False), (False, False), (True, True), (False, True)][int(rng.integers(5))]
    om = rng.random()
    observable = None if om < 0.4 else (obs[int(rng.integers(len(obs)))] if om < 0.9 else
                                       {'str': 'nope', 'int': 77, 'float': 77.0}[obs_kind])
    im = rng.random()
    individual = None if im < 0.55 else (ids[int(rng.integers(len(ids)))] if im < 0.92 else
                                         ('zz' if id_kind == 'str' else 999))
    keys = dict(KEYSETS[int(rng.choice([0, 0, 1]))])
    return {'id_kind': id_kind, 'meas': meas, 'pred': pred, 'flags': list(flags), 'observable': observable,
            'individual': individual, 'keys': keys, 'int_values': int_values, 'dtypes': dtypes,
            'index': [int(v) for v in rng.permutation(len(meas)) + 2] if rng.random() < 0.3 else None}


def spec_residual(meas, pred, observable, individual, sres, srel):
    """the figure ResidualPlot documents, by plain comprehension: per individual the mean prediction of the
    observable at each measurement time (x) and the measurement / residual / relative residual (y)"""
    if observable is None:
        present = [r[0] for r in pred if r[0] is not None]
        if not present:
            return None
        observable = present[0]
    rows = [r for r in meas if r[2] is not None and r[2] == observable and
            (individual is None or (r[0] is not None and same(r[0], individual)))]
    ids = []
    for r in rows:
        if r[0] is not None and not any(same(r[0], i) for i in ids):
            ids.append(r[0])
    out = []
    for i in ids:
        xs, ys = [], []
        for r in rows:
            if r[0] is None or not same(r[0], i):
                continue
            vals = [q[2] for q in pred if q[0] is not None and q[0] == observable and q[2] is not None
                    and r[1] is not None and q[1] == r[1]]
            m = (math.fsum(vals) / len(vals)) if vals else float('nan')
            y = r[3]
            if sres:
                y = y - m
            if srel:
                y = y / m
            xs.append(m)
            ys.append(y)
        out.append((i, xs, ys))
    return out


def residual_case(ctx, chi, g, k):
    plots = _plots()
    keys = g['keys']
    meas, pred = g['meas'], g['pred']
    idcol = [np.nan if r[0] is None else r[0] for r in meas]
    vals = [r[3] for r in meas]
    dt = g.get('dtypes') or {}
    mdf = pd.DataFrame({keys['id_key']: idcol,
                        keys['time_key']: num_column([r[1] for r in meas], dt.get('mtime', 'float')),
                        keys['obs_key']: [np.nan if r[2] is None else r[2] for r in meas],
                        keys['value_key']: pd.Series([int(v) for v in vals], dtype='int64') if g.get('int_values')
                        else num_column(vals, dt.get('mvalue', 'float'))})
    if g.get('index') is not None:
        mdf.index = g['index']
    pdf = pd.DataFrame({'T': num_column([r[1] for r in pred], dt.get('ptime', 'float')),
                        'O': [np.nan if r[0] is None else r[0] for r in pred],
                        'V': num_column([r[2] for r in pred], dt.get('pvalue', 'float'))})
    ctx.branches.add('residual dtype:%s/%s/%s/%s' % (mdf[keys['time_key']].dtype, mdf[keys['value_key']].dtype,
                                                     pdf['T'].dtype, pdf['V'].dtype))
    # the frames as stored (an ID column with a missing entry turns integers into floats)
    sid = [None if missing(v) else v for v in mdf[keys['id_key']].tolist()]
    smeas = [[sid[j], meas[j][1], meas[j][2], float(meas[j][3])] for j in range(len(meas))]
    individual = g['individual']
    inp = {'kind': 'residual', 'k': k, 'gen': g}
    sres, srel = g['flags']
    ctx.case('residual:%s/res%d/rel%d' % (g['id_kind'], sres, srel),
             nontrivial='residual:%s/%d%d/%s/%s/ids%d' % (g['id_kind'], sres, srel, g['observable'] is None,
                                                          individual is None, min(3, len(set(map(str, sid))))),
             sample=inp)
    idc, idt = codes([r[0] for r in smeas] + [individual])
    idc = idc[:-1]
    obc, obt = codes([r[2] for r in smeas] + [r[0] for r in pred])
    nm = len(smeas)
    wm = [[idc[j], obc[j], None if r[1] is None else bits(r[1]), r[3]] for j, r in enumerate(smeas)]
    wp = [[obc[nm + j], bits(r[1]), r[2]] for j, r in enumerate(pred)]
    oc = None if g['observable'] is None else (obt.index(g['observable']) if g['observable'] in obt else len(obt))
    ic = None if individual is None else [j for j, v in enumerate(idt) if same(v, individual)][0]
    box = {}

    def go():
        box['fig'] = plots.ResidualPlot(mdf, id_key=keys['id_key'], time_key=keys['time_key'],
                                        obs_key=keys['obs_key'], value_key=keys['value_key'])
        box['fig'].add_data(pdf, observable=g['observable'], individual=individual,
                            show_residuals=sres, show_relative=srel, time_key='T', obs_key='O', value_key='V')
    status, _ = call_plot(ctx, 'ResidualPlot.add_data', mdf, go, inp, others=[pdf])
    mo = ctx.model('C20.residual', wm, wp, oc, ic, sres, srel)
    ctx.branches.add('residual:%s' % status)
    if status != 'ok' or mo[0] != 'ok':
        ctx.agree('C20.residual', status, mo[0], inp)
        if mo[0] == 'ok':
            # the out-of-place computation is defined, the real call raised
            ctx.spec('C20.residual_plot/inplace_readonly' if status == 'err:valueError' and (sres or srel)
                     else 'C20.residual_routing', False, inp, {'raised': status})
        return
    trs = traces(box['fig'])

    def nn(v):
        return None if (v is None or (isinstance(v, float) and math.isnan(v))) else v

    def pairs(xs, ys):
        if len(xs) != len(ys):
            return ['length-mismatch', len(xs), len(ys)]
        return sorted([[nn(a), nn(b)] for a, b in zip(xs, ys)], key=lambda q: (q[0] is None, q[0] or 0.0,
                                                                              q[1] is None, q[1] or 0.0))
    # --- the property on the real figure, against the independent comprehension
    spec = spec_residual(smeas, pred, g['observable'], individual, sres, srel)
    ok = spec is not None
    detail = {'traces': [(t['name'], t['x'], t['y']) for t in trs]}
    a = None
    if ok:
        a = assign(trs, [i for i, _, _ in spec])
        ok = a is not None
    if ok:
        idx, rest = a
        for (i, xs, ys), kk in zip(spec, idx):
            if not core.close(pairs(trs[kk]['x'], trs[kk]['y']), pairs(xs, ys), 1e-9):
                ok = False
                detail['individual'] = i
                detail['expected'] = [xs, ys]
        if any(len(trs[kk]['x']) or len(trs[kk]['y']) for kk in rest):
            ok = False
            detail['extra_nonempty_trace'] = True
    ctx.spec('C20.residual_routing', ok, inp, detail)
    # --- correspondence with the model (traces in order; the model's spec twin against the comprehension)
    ctx.agree('C20.residual', [[pairs(t['x'], t['y'])] for t in trs],
              [[pairs(t[1], t[2])] for t in mo[1]], inp)
    if spec is not None and mo[2] is not None:
        ctx.agree('C20.residual_spec_twin', [pairs(xs, ys) for _, xs, ys in spec],
                  [pairs(t[1], t[2]) for t in mo[2] if t[0] is not None], inp)


# ----------------------------------------------------------------------------------------
def corpus(ctx, chi):
    # witnesses of the counterexample theorems
    fr = {'id_kind': 'str', 'rows': [['a', 1.0, 'conc', 2.0, None, None]], 'keys': dict(KEYSETS[0]),
          'index': None, 'time_int': False, 'extra_col': False}
    ctx.guard(routing_case, ctx, chi, fr, 'default', 0)
    fr = {'id_kind': 'int', 'rows': [[0, 0.0, None, None, 5.0, 0.0], [0, 1.0, 'conc', 2.0, None, None]],
          'keys': dict(KEYSETS[0]), 'index': None, 'time_int': False, 'extra_col': False}
    ctx.guard(routing_case, ctx, chi, fr, 'default', 0)
    g = {'id_kind': 'int', 'meas': [[0, 1.0, 'conc', 5.0]], 'pred': [['conc', 1.0, 3.0]],
         'flags': [True, False], 'observable': None, 'individual': None, 'keys': dict(KEYSETS[0])}
    ctx.guard(residual_case, ctx, chi, g, 0)
    # ties at the thresholds: n = 4, p = 1/2 -> rank(min) = 1/4 = lower exactly
    g = {'rows': [[0.0, 'main', x] for x in (1.0, 2.0, 3.0, 4.0)] + [[1.0, 'main', x] for x in (1.0, 1.0, 2.0, 2.0)],
         'doses': [[0.0, 1.0, 0.01]], 'ps': [0.5, 0.2, 0.9], 'mode': 'corpus', 'keys': dict(KEYSETS[0]),
         'index': None}
    ctx.guard(band_case, ctx, chi, g, 0)
    ctx.guard(band_errors, ctx, chi)


def run_one(ctx, chi, kind, k):
    rng = ctx.sub_rng({'routing': 1, 'band': 2, 'residual': 3}[kind] * 1000003 + k)
    if kind == 'routing':
        fr = gen_frame(rng)
        mode = ['default', 'default', 'explicit', 'explicit', 'absent'][int(rng.integers(5))]
        ctx.guard(routing_case, ctx, chi, fr, mode, k)
    elif kind == 'band':
        ctx.guard(band_case, ctx, chi, gen_samples(rng), k)
    else:
        ctx.guard(residual_case, ctx, chi, gen_residual(rng), k)


def run(ctx):
    chi = core.import_chi()
    corpus(ctx, chi)
    n = {'quick': (85, 65, 85), 'thorough': (1250, 800, 1150)}[ctx.tier]
    for k in range(n[0]):
        run_one(ctx, chi, 'routing', k)
    for k in range(n[1]):
        run_one(ctx, chi, 'band', k)
    for k in range(n[2]):
        run_one(ctx, chi, 'residual', k)


def replay(ctx, data):
    chi = core.import_chi()
    inp = data['failing']['input']
    kind = inp.get('kind')
    if kind == 'routing':
        routing_case(ctx, chi, inp['frame'], inp.get('mode', 'explicit'), inp['k'], observable=inp['observable'])
    elif kind == 'band':
        band_case(ctx, chi, inp['gen'], inp['k'])
    elif kind == 'residual':
        residual_case(ctx, chi, inp['gen'], inp['k'])
    else:
        corpus(ctx, chi)
    print('spec failures on replay:', [(b['tag'], b['detail']) for b in ctx.spec_bad[:3]])
    print('disagreements on replay:', ctx.corr_bad[:2])
    known = {f['tag'] for f in ctx.findings if f.get('status') == 'known'}
    return 1 if any(b['tag'] not in known for b in ctx.spec_bad) else 0
