"""numerical proxies used only to exhibit a failing input (never as the claim)"""
import math
import numpy as np


def richardson(f, x, h=1e-3):
    """central difference with one Richardson step; returns (estimate, error estimate)"""
    d1 = (f(x + h) - f(x - h)) / (2 * h)
    h2 = h / 2
    d2 = (f(x + h2) - f(x - h2)) / (2 * h2)
    est = (4 * d2 - d1) / 3
    return est, abs(d2 - d1)


def grad_matches(f, x, k, g, h=None, rtol=2e-5, atol=1e-6):
    """is g the k-th partial derivative of f at x (within what finite differences can tell)?"""
    x = np.asarray(x, dtype=float)
    hk = h if h is not None else 1e-4 * max(1.0, abs(x[k]))

    def line(t):
        y = x.copy()
        y[k] = t
        return float(f(y))
    first = None
    # a ladder of step sizes: where the function bends strongly on the scale of the first step (e.g. log of a
    # quantity comparable to the step) the estimate converges only for the smaller ones; a wrong derivative
    # matches none of them
    for hh in (hk, hk / 8, hk / 64):
        try:
            est, err = richardson(line, x[k], hh)
        except Exception:
            return True, None
        if not (math.isfinite(est) and math.isfinite(g)):
            if first is None:
                return True, None      # undecidable by finite differences; not evidence of failure
            continue
        if first is None:
            first = est
        tol = atol + rtol * max(abs(est), abs(g)) + 10 * err
        if abs(est - g) <= tol:
            return True, est
    return False, first
