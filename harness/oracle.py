"""numerical proxies used only to exhibit a failing input (never as the claim)"""
import math
import numpy as np


def richardson(f, x, h=1e-3):
    """central difference with one Richardson step; returns (estimate, error estimate)"""
    d1 = (f(x + h) - f(x - h)) / (2 * h)
    h2 = h / 2
    d2 = (f(x + h2) - f(x - h2)) / (2 * h2)
    est = (4 * d2 - d1) / 3
    return est, abs(d2 - d1)


def grad_matches(f, x, k, g, h=None, rtol=2e-5, atol=1e-6):
    """is g the k-th partial derivative of f at x (within what finite differences can tell)?"""
    x = np.asarray(x, dtype=float)
    hk = h if h is not None else 1e-4 * max(1.0, abs(x[k]))

    def line(t):
        y = x.copy()
        y[k] = t
        return float(f(y))
    try:
        est, err = richardson(line, x[k], hk)
    except Exception:
        return True, None
    if not (math.isfinite(est) and math.isfinite(g)):
        return True, None      # undecidable by finite differences; not evidence of failure
    tol = atol + rtol * max(abs(est), abs(g)) + 10 * err
    return abs(est - g) <= tol, est
