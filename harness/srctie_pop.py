"""
srctie_pop — the source-derived tie for the closed-form kernels of chi/_population_models.py (C05)

Same method as harness/srctie.py (which supplies the symbolic arrays, the printer and the re-prover): on every run
`compute_log_likelihood` and `compute_sensitivities` of `GaussianModel` / `LogNormalModel` (centred and non-centred)
and `TruncatedGaussianModel` are executed through their PUBLIC entry points with

* a model object constructed with a symbolic `n_dim` (`srctie.DimInt`),
* the FLAT parameter vector of length `2 * n_dim` (the layout `HierarchicalLogLikelihood` uses; entry `p * n_dim + d`
  is printed as `theta p d` — the documented `(n_param_per_dim, n_dim)` matrix in C order),
* symbolic `observations` / `dlogp_dpsi` of shape `(n_ids, n_dim)`,

and the returned score / entries of `dpsi` / entries of `dtheta` (flattened: summed over individuals; not flattened:
per individual) are printed as Lean definitions over the scalar class: `lean/ChiGen/PopModels.lean` (committed,
part of `lake build`). `lean/ChiProofs/Tie/C05.lean` proves each of them equal to the hand-written model
(`ChiModel/PopModels.lean`, `PopSens.lean`) for all `n_ids`, `n_dim`, parameters and observations in the support.
`check(ctx)` compares the freshly generated text with the committed one, re-runs the unchanged proof script against
re-generated definitions in `.work/srctie/` when the source was rewritten, and turns guards outside the support
guards into concrete cases on both sides (fed to c05's ordinary `run_elementary`). Never a verdict by itself.
"""
import math
import os
import re
import sys
import time

import numpy as _np

import srctie as T
from srctie import K, ZERO, Sym, Untraceable, KernelTrace

GEN_FILE = os.path.join(T.LEAN_DIR, 'ChiGen', 'PopModels.lean')
PROOF_FILE = os.path.join(T.LEAN_DIR, 'ChiProofs', 'Tie', 'C05.lean')
PROOF_IMPORTS = ('ChiProofs.Tie.Basic', 'ChiProofs.Lemmas.PopCalculus')

DI, DD = ('dim', 'nIds'), ('dim', 'nDim')
T.DIM_LABELS.update({'nIds', 'nDim'})
OUT_I, OUT_D = ('bv', 'nIds', 0), ('bv', 'nDim', 0)

#: (code, class, constructor keywords, theorem infix, c05 kind code)
MODELS = [('PG', 'GaussianModel', {}, 'gauss', 'Gc'),
          ('PGn', 'GaussianModel', {'centered': False}, 'gaussNC', 'Gn'),
          ('PL', 'LogNormalModel', {}, 'logn', 'Lc'),
          ('PLn', 'LogNormalModel', {'centered': False}, 'lognNC', 'Ln'),
          ('PT', 'TruncatedGaussianModel', {}, 'trunc', 'T')]
#: kernel -> (index arguments, title)
WHATS = [('ll', (), 'compute_log_likelihood(parameters, observations) -> value'),
         ('s1', (), 'compute_sensitivities(parameters, observations, dlogp_dpsi) -> score'),
         ('dpsiup', (OUT_I, OUT_D), 'compute_sensitivities(parameters, observations, dlogp_dpsi) -> dpsi[i, d]'),
         ('dmu', (OUT_D,), 'compute_sensitivities(parameters, observations, dlogp_dpsi) -> dtheta[d] (flattened)'),
         ('dsigma', (OUT_D,), 'compute_sensitivities(parameters, observations, dlogp_dpsi) -> dtheta[n_dim + d] '
                              '(flattened)'),
         ('dpsi', (OUT_I, OUT_D), 'compute_sensitivities(parameters, observations, flattened=False) -> dpsi[i, d]'),
         ('dmui', (OUT_I, OUT_D), 'compute_sensitivities(parameters, observations, flattened=False) -> '
                                  'dtheta[i, 0, d]'),
         ('dsigmai', (OUT_I, OUT_D), 'compute_sensitivities(parameters, observations, flattened=False) -> '
                                     'dtheta[i, 1, d]')]
THEOREM_SUFFIX = {'ll': 'll', 's1': 's1', 'dpsiup': 'dpsi_up', 'dmu': 'dmu', 'dsigma': 'dsigma', 'dpsi': 'dpsi',
                  'dmui': 'dmu_i', 'dsigmai': 'dsigma_i'}


def kernel_names(m):
    return ['%s.%s' % (m, w) for w, _, _ in WHATS]


def all_kernels():
    return [kn for m, _, _, _, _ in MODELS for kn in kernel_names(m)]


def theorem_of(kernel):
    m, what = kernel.split('.')
    pre = {mm: t for mm, _, _, t, _ in MODELS}[m]
    return 'Tie_pop_%s_%s' % (pre, THEOREM_SUFFIX[what])


def def_name(kernel):
    return 'gen_' + kernel.replace('.', '_')


# ----------------------------------------------------------------------------------------------------------
# guards the theorems' hypotheses are the negations of
# ----------------------------------------------------------------------------------------------------------
def _any_d(cmp):
    bv = ('bv', 'nDim', 1)
    return ('any', bv, DD, cmp(('mat', 'theta', K(1), bv)))


_ANY_SIGMA_NEG = _any_d(lambda s: ('lt', s, ZERO))
_ANY_SIGMA_NONPOS = _any_d(lambda s: ('le', s, ZERO))
_BV_D, _BV_I = ('bv', 'nDim', 1), ('bv', 'nIds', 2)
_ANY_PSI_NEG = ('any', _BV_I, DI, ('any', _BV_D, DD, ('lt', ('mat', 'psi', _BV_I, _BV_D), ZERO)))


def expected_guard(m, node, score=None):
    """`np.any(sigmas < 0)` (`<= 0`, `observations < 0` for the truncated Gaussian) and the `isnan` / `isinf` test of
    the value that is returned as the score (`score`: its node)"""
    if node[0] == 'opaque' and node[1] in ('isnan', 'isinf') and score is not None and node[2] == score:
        return True
    if m == 'PT':
        return node in (_ANY_SIGMA_NONPOS, _ANY_PSI_NEG)
    return node == _ANY_SIGMA_NEG


# ----------------------------------------------------------------------------------------------------------
# symbolic inputs, witness
# ----------------------------------------------------------------------------------------------------------
class PopEnv(object):
    def __init__(self, theta, psi, up=None):
        self.theta = _np.asarray(theta, float)
        self.psi = _np.asarray(psi, float)
        n_ids, n_dim = self.psi.shape
        self.theta = self.theta.reshape(2, n_dim)
        self.up = _np.zeros((n_ids, n_dim)) if up is None else _np.asarray(up, float).reshape(n_ids, n_dim)
        self.dims = {'nIds': n_ids, 'nDim': n_dim}


WITNESS_DIM, WITNESS_IDS = 3, 4


def witness_env():
    d, n = WITNESS_DIM, WITNESS_IDS
    theta = _np.vstack([0.3 + 0.21 * _np.arange(d), 0.7 + 0.13 * _np.arange(d)])
    psi = 0.6 + 0.17 * ((_np.arange(n * d) * 5) % 7).reshape(n, d) + 0.011 * _np.arange(n * d).reshape(n, d)
    up = _np.sin(1.0 + _np.arange(n * d)).reshape(n, d)
    return PopEnv(theta, psi, up)


def _theta_entry(idx):
    qr = T.nat_divmod(idx[0], DD)
    if qr is None:
        raise Untraceable('parameter index %s is not of the form p * n_dim + d with d < n_dim' % T.show(idx[0]))
    return ('mat', 'theta', qr[0], qr[1])


def sym_inputs():
    theta = Sym((('mul', K(2), DD),), _theta_entry, 'real')
    psi = Sym((DI, DD), lambda idx: ('mat', 'psi', idx[0], idx[1]), 'real')
    up = Sym((DI, DD), lambda idx: ('mat', 'up', idx[0], idx[1]), 'real')
    return theta, psi, up


def n_dim_symbol():
    return T.DimInt(WITNESS_DIM, DD)


# ----------------------------------------------------------------------------------------------------------
# tracing
# ----------------------------------------------------------------------------------------------------------
def _matrix(x, what):
    s = T.lift(x)
    s._noparts(what)
    if len(s.shape_) != 2 or not T._same_dim(s.shape_[0], DI) or not T._same_dim(s.shape_[1], DD):
        raise Untraceable('%s has shape %s, expected (n_ids, n_dim)' % (what, T.shape_text(s.shape_)))
    return s.fn((OUT_I, OUT_D))


def _flat_theta(x, p):
    """entry p * n_dim + d of the flattened dtheta"""
    s = T.lift(x)
    if s.parts is not None:
        parts = list(s.parts)
        if len(parts) == 2 and all(T._same_dim(pt.shape_[0], DD) for pt in parts):
            return parts[p].fn((OUT_D,))
        raise Untraceable('the flattened dtheta is a concatenation that is not two blocks of length n_dim')
    if len(s.shape_) != 1 or not T._same_dim(s.shape_[0], ('mul', K(2), DD)):
        raise Untraceable('the flattened dtheta has shape %s, expected (2 * n_dim,)' % T.shape_text(s.shape_))
    return T.sym_reshape(s, (2, n_dim_symbol())).fn((K(p), OUT_D))


def _tensor(x, p):
    s = T.lift(x)
    s._noparts('dtheta')
    if len(s.shape_) != 3 or not T._same_dim(s.shape_[0], DI) or s.shape_[1] != 2 or not T._same_dim(s.shape_[2], DD):
        raise Untraceable('dtheta has shape %s, expected (n_ids, 2, n_dim)' % T.shape_text(s.shape_))
    return s.fn((OUT_I, K(p), OUT_D))


def _extract(out, names, values, tr, route, score):
    """values: [(callable -> node)] evaluated one by one so that one unprintable entry does not hide the others"""
    try:
        score_node = score()
    except Exception:  # noqa
        score_node = None
    for nm, get in zip(names, values):
        kt = out[nm]
        kt.route = route
        kt.guards = list(tr.guards)
        kt.score = score_node
        try:
            node = get()
            T.emit(node)
            kt.node, kt.reason = node, None
        except RecursionError:
            kt.node, kt.reason = None, 'recursion limit'
        except Exception as e:  # noqa
            kt.node, kt.reason = None, T._describe(e)


def trace_group(cls, m, kw, group, env, forced=None):
    """one public call -> {kernel: KernelTrace}; group in 'll' | 'flat' | 'sep'"""
    names = {'ll': ['%s.ll' % m], 'flat': ['%s.%s' % (m, w) for w in ('s1', 'dpsiup', 'dmu', 'dsigma')],
             'sep': ['%s.%s' % (m, w) for w in ('dpsi', 'dmui', 'dsigmai')]}[group]
    out = {nm: KernelTrace(nm) for nm in names}
    holder = []
    try:
        model = cls(n_dim=n_dim_symbol(), **kw)
        theta, psi, up = sym_inputs()
        if group == 'll':
            res, tr = T._run_traced(model.compute_log_likelihood, (theta, psi), env, forced, holder)
            vals = [lambda: T._to_scalar(res, 'the log-likelihood')]
        elif group == 'flat':
            res, tr = T._run_traced(lambda a, b, c: model.compute_sensitivities(a, b, dlogp_dpsi=c), (theta, psi, up),
                                    env, forced, holder)
            if not isinstance(res, (tuple, list)) or len(res) != 3:
                raise Untraceable('compute_sensitivities does not return a triple')
            vals = [lambda: T._to_scalar(res[0], 'the score'), lambda: _matrix(res[1], 'dpsi'),
                    lambda: _flat_theta(res[2], 0), lambda: _flat_theta(res[2], 1)]
        else:
            res, tr = T._run_traced(lambda a, b: model.compute_sensitivities(a, b, flattened=False), (theta, psi),
                                    env, forced, holder)
            if not isinstance(res, (tuple, list)) or len(res) != 3:
                raise Untraceable('compute_sensitivities does not return a triple')
            vals = [lambda: _matrix(res[1], 'dpsi'), lambda: _tensor(res[2], 0), lambda: _tensor(res[2], 1)]
        _extract(out, names, vals, tr, 'public',
                 (lambda: T._to_scalar(res, 'the score')) if group == 'll' else (lambda: T._to_scalar(res[0], 'the score')))
        return out
    except RecursionError:
        reason = 'recursion limit'
    except Exception as e:  # noqa  (whatever the traced code does with symbols is a reason, not a crash)
        reason = T._describe(e)
    for kt in out.values():
        kt.reason = reason
        kt.guards = list(holder[0].guards) if holder else []
        kt.score = None
    return out


def explore_sides(cls, m, kw, group, env, primary, score, max_runs=8):
    """guards met only on the OTHER side of an unexpected guard (two levels) -> [(prefix, guard)]"""
    out, runs = [], [0]
    known = set(g[0] for g in primary)

    def flip(forced, prefix, guards, depth):
        for g in guards:
            if expected_guard(m, g[0], score) or runs[0] >= max_runs:
                continue
            runs[0] += 1
            f2 = dict(forced)
            f2[g[3]] = not g[4]
            pre2 = prefix + [g[3] if not g[4] else T.negate(g[3])]
            res = trace_group(cls, m, kw, group, env, f2)
            new = []
            for kt in res.values():
                for h in kt.guards:
                    if h[0] not in known and h[3] not in f2 and not expected_guard(m, h[0], kt.score):
                        known.add(h[0])
                        new.append(h)
            for h in new:
                out.append((pre2, h))
            if depth < 2 and new:
                flip(f2, pre2, new, depth + 1)
    try:
        flip({}, [], list(primary), 1)
    except Exception:  # noqa
        pass
    return out


def trace_all(chi=None):
    """-> ({kernel: KernelTrace}, info). Never raises."""
    info = {'route': None, 'source': None}
    out = {}
    try:
        if chi is None:
            import core
            chi = core.import_chi()
        mod = sys.modules.get('chi._population_models') or __import__('chi._population_models', fromlist=['x'])
        info['source'] = getattr(mod, '__file__', None)
        np_obj = T.SymNP()
        ns = None
        try:
            with open(mod.__file__) as fh:
                code = compile(fh.read(), mod.__file__, 'exec')
            ns = {'__name__': 'chi._population_models', '__file__': mod.__file__,
                  '__builtins__': T.sym_builtins(np_obj, extended=True)}
            exec(code, ns)
            info['route'] = 'module source re-executed under the symbolic numpy'
        except Exception as e:  # noqa
            info['reexec_failed'] = T._describe(e)
            ns = None
        env = witness_env()

        def run(cls, m, kw):
            for group in ('ll', 'flat', 'sep'):
                res = trace_group(cls, m, kw, group, env)
                first = list(res.values())[0]
                if any(not expected_guard(m, g[0], first.score) for g in first.guards):
                    nested = explore_sides(cls, m, kw, group, env, first.guards, first.score)
                    for kt in res.values():
                        kt.nested = nested
                out.update(res)
        for m, cname, kw, _, _ in MODELS:
            if ns is not None and cname in ns:
                run(ns[cname], m, kw)
            else:
                info['route'] = 'imported module with its numpy replaced for the trace'
                extra = {'int': T.SymInt, 'range': T.sym_range}
                prox = T._proxy_modules()
                if 'scipy.special' in prox:
                    extra['erf'] = prox['scipy.special'].erf
                with T._LivePatch(mod, np_obj, extra):
                    cls = getattr(mod, cname, None)
                    if cls is None:
                        for nm in kernel_names(m):
                            out[nm] = KernelTrace(nm)
                            out[nm].reason = 'class %s not found' % cname
                    else:
                        run(cls, m, kw)
    except Exception as e:  # noqa
        info['failed'] = T._describe(e)
    for nm in all_kernels():
        if nm not in out:
            out[nm] = KernelTrace(nm)
            out[nm].reason = 'not traced: ' + str(info.get('failed', 'unknown'))
    return out, info


# ----------------------------------------------------------------------------------------------------------
# the generated Lean file
# ----------------------------------------------------------------------------------------------------------
HEADER = '''import ChiModel.PopSens
/-!
# GENERATED by harness/srctie_pop.py from chi/_population_models.py — do not edit

One definition per closed-form kernel output of `GaussianModel`, `LogNormalModel` (centred / non-centred) and
`TruncatedGaussianModel`, as traced from the public methods `compute_log_likelihood` and `compute_sensitivities`
(symbolic execution of the Python source with the flat parameter vector, support side of every guard).
`lean/ChiProofs/Tie/C05.lean` proves each of them equal to the hand-written model of `lean/ChiModel/PopModels.lean` /
`PopSens.lean`; `harness/srctie_pop.py` re-generates this text on every run and compares.
Arguments: `nIds` individuals, `nDim` dimensions, `theta p d` = `parameters[p * n_dim + d]` (p = 0 location, p = 1
scale), `psi i d` = `observations[i, d]`, `up i d` = `dlogp_dpsi[i, d]`.
-/
set_option linter.unusedVariables false
namespace ChiGen
variable {α : Type} [Add α] [Sub α] [Mul α] [Div α] [Neg α] [ScalarFns α] [ChiModel.HasErf α]
open ScalarFns ChiModel
'''
FOOTER = '\nend ChiGen\n'


def show_guard(node, score=None):
    if node[0] == 'opaque' and score is not None and node[2] == score:
        return '%s(the value)' % node[1]
    return T.show(node)


def def_block(kt, cname, kw):
    m, what = kt.kernel.split('.')
    idx, title = {w: (i, t) for w, i, t in WHATS}[what]
    ctor = cname + ('(centered=False)' if kw.get('centered') is False else '')
    title = '%s.%s' % (ctor, title)
    if not kt.ok:
        return '-- %s (%s): untraceable: %s\n' % (def_name(kt.kernel), title, kt.reason)
    guards = '; '.join(show_guard(g[0], kt.score) for g in kt.guards) or 'never'
    args = '' if not idx else ' (%s : Nat)' % ' '.join(T.var_name(i) for i in idx)
    return ('/-- %s; leaves the traced path when: %s -/\n'
            'def %s (nIds nDim : Nat) (theta : Nat → Nat → α) (psi up : Nat → Nat → α)%s : α :=\n  %s\n'
            % (title, guards, def_name(kt.kernel), args, T.emit(kt.node)[0]))


def generate(traces):
    blocks = {}
    parts = [HEADER]
    for m, cname, kw, _, _ in MODELS:
        parts.append('\n/-! ## %s%s -/\n' % (cname, ' (non-centred)' if kw.get('centered') is False else ''))
        for nm in kernel_names(m):
            blocks[nm] = def_block(traces[nm], cname, kw)
            parts.append('\n' + blocks[nm])
    parts.append(FOOTER)
    return ''.join(parts), blocks


# ----------------------------------------------------------------------------------------------------------
# guards -> concrete search hints (cases for c05.run_elementary)
# ----------------------------------------------------------------------------------------------------------
def _base_case(rng, m, n_ids, n_dim):
    mu = rng.uniform(-0.5, 1.5, n_dim)
    sg = rng.uniform(0.4, 1.4, n_dim)
    z = rng.normal(size=(n_ids, n_dim))
    if m == 'PG':
        obs = mu + sg * z
    elif m == 'PL':
        obs = _np.exp(0.5 * mu + 0.5 * sg * z) + 0.2
    elif m == 'PT':
        obs = _np.abs(mu + sg * z) + 0.15
    else:
        obs = z
    return _np.vstack([mu, sg]), obs, rng.normal(size=(n_ids, n_dim))


def _rows_read(node, acc=None):
    """rows of theta a condition reads (0 location, 1 scale); None in the set = a symbolic row"""
    if acc is None:
        acc = set()
    if node[0] == 'mat' and node[1] == 'theta':
        acc.add(int(node[2][1]) if node[2][0] == 'const' else None)
    for c in node[1:]:
        if isinstance(c, tuple) and c and isinstance(c[0], str):
            _rows_read(c, acc)
    return acc


def _mutations(node, lv, consts):
    muts = []
    for name in sorted(lv['vecs']):
        targets = [name]
        if name == 'theta':
            rows = _rows_read(node)
            targets = ['theta%d' % r for r in sorted(x for x in rows if x is not None)] or ['theta0', 'theta1']
        for tg in targets:
            for c in consts:
                d = 1e-3 * max(1.0, abs(c))
                for val, txt in ((c, '= %g' % c), (c - d, 'just below %g' % c), (c + d, 'just above %g' % c)):
                    if tg == 'theta1' and val <= 0:
                        continue        # the support guards have their own stream in c05
                    muts.append(('one entry of %s %s' % (tg, txt), (tg, 'one', val)))
                    muts.append(('all entries of %s %s' % (tg, txt), (tg, 'all', val)))
            muts.append(('%s constant (all entries equal the first)' % tg, (tg, 'const', None)))
            muts.append(('first two entries of %s equal' % tg, (tg, 'two', None)))
    return muts


def _apply_mutation(mu, arrays, rng):
    TH, obs, up = arrays
    arr = {'theta0': TH[0], 'theta1': TH[1], 'psi': obs, 'up': up}[mu[0]]
    if arr.size == 0:
        return
    flat = arr.reshape(-1)          # views: TH rows and C-contiguous matrices
    if mu[1] == 'one':
        flat[int(rng.integers(flat.size))] = mu[2]
    elif mu[1] == 'all':
        flat[:] = mu[2]
    elif mu[1] == 'const':
        flat[:] = flat[0]
    elif flat.size >= 2:
        flat[1] = flat[0]


def hint_cases(m, guard, rng, per_side=6, prefix=()):
    """concrete inputs on BOTH sides of `guard` on which all `prefix` conditions hold -> [(side, text, TH, obs, up)]"""
    lv = T.leaves(guard)
    lv_pre = {'dims': set(), 'pars': set(), 'vecs': set(), 'consts': set()}
    for c in prefix:
        T.leaves(c, lv_pre)
    all_consts = lv['consts'] | lv_pre['consts']
    dims = lv['dims'] | lv_pre['dims']
    ints = sorted(set(int(c) for c in all_consts if c.denominator == 1 and 0 <= c <= 60))
    ids_choices, dim_choices = [2, 3], [1, 2, 3]
    if 'nIds' in dims:
        ids_choices = sorted(set([1, 2, 3] + [v for c in ints for v in (c - 1, c, c + 1) if 1 <= v <= 60]))
    if 'nDim' in dims:
        dim_choices = sorted(set([1, 2, 3] + [v for c in ints for v in (c - 1, c, c + 1) if 1 <= v <= 16]))
    m_g = _mutations(guard, lv, sorted(set(float(c) for c in lv['consts']) | {0.0}))
    m_p = []
    for c in prefix:
        m_p += _mutations(c, T.leaves(c), sorted(set(float(x) for x in T.leaves(c)['consts']) | {0.0}))
    combos = [('random inside the support', [])] + [(d, [mu]) for d, mu in m_g + m_p]
    combos += [(d1 + ' and ' + d2, [mu1, mu2]) for d1, mu1 in m_p for d2, mu2 in m_g]
    found = {True: [], False: []}
    for n_ids in ids_choices:
        for n_dim in dim_choices:
            for rep in range(2):
                TH, obs, up = _base_case(rng, m, n_ids, n_dim)
                for desc, mus in combos:
                    arrays = (TH.copy(), obs.copy(), up.copy())
                    for mu in mus:
                        _apply_mutation(mu, arrays, rng)
                    try:
                        env = PopEnv(arrays[0], arrays[1], arrays[2])
                        if not all(bool(T.evaluate(c, env)) for c in prefix):
                            continue
                        side = bool(T.evaluate(guard, env))
                    except Exception:  # noqa
                        continue
                    found[side].append(('n_ids=%d, n_dim=%d, %s' % (n_ids, n_dim, desc),) + arrays)
    out = []
    for side in (True, False):
        groups, order = {}, []
        for item in found[side]:
            key = re.sub(r'n_ids=\d+, n_dim=\d+, ', '', item[0]) if not dims else item[0]
            if key not in groups:
                groups[key] = []
                order.append(key)
            groups[key].append(item)
        step = max(1, len(order) // per_side)
        keys = order[::step][:per_side]
        picked = [groups[key][0] for key in keys]
        for key in keys:
            if len(picked) >= per_side:
                break
            picked += groups[key][1:2]
        for item in picked[:per_side]:
            out.append((side,) + item)
    return out


# ----------------------------------------------------------------------------------------------------------
# the run-time check
# ----------------------------------------------------------------------------------------------------------
def fidelity(chi, traces, rng):
    """the traced expressions reproduce the real functions numerically (inside the traced region)
    -> {kernel: message} for those that do not"""
    bad = {}
    for m, cname, kw, _, _ in MODELS:
        cls = getattr(chi, cname, None)
        if cls is None:
            continue
        for n_ids, n_dim in ((3, 2), (1, 1)):
            TH, obs, up = _base_case(rng, m, n_ids, n_dim)
            env = PopEnv(TH, obs, up)
            flat = TH.flatten()
            try:
                with _np.errstate(all='ignore'):
                    model = cls(n_dim=n_dim, **kw)
                    v = float(model.compute_log_likelihood(flat.copy(), obs.copy()))
                    s1, dpu, dfl = model.compute_sensitivities(flat.copy(), obs.copy(), dlogp_dpsi=up.copy())
                    _, dp, dse = model.compute_sensitivities(flat.copy(), obs.copy(), flattened=False)
                    dpu, dp = _np.asarray(dpu, float), _np.asarray(dp, float)
                    dfl, dse = _np.asarray(dfl, float), _np.asarray(dse, float)
            except Exception:  # noqa  (judged by the sampled correspondence, not here)
                continue
            ij = [(i, d) for i in range(n_ids) for d in range(n_dim)]
            for kn in kernel_names(m):
                kt = traces[kn]
                if not kt.ok:
                    continue
                try:
                    if any(T.evaluate(gd[0], env) for gd in kt.guards):
                        continue        # outside the traced region
                    what = kn.split('.')[1]
                    ev = lambda b: T.evaluate(kt.node, env, b)      # noqa
                    if what == 'll':
                        pairs = [(ev({}), v)]
                    elif what == 's1':
                        pairs = [(ev({}), float(s1))]
                    elif what in ('dpsiup', 'dpsi'):
                        ref = dpu if what == 'dpsiup' else dp
                        pairs = [(ev({OUT_I: i, OUT_D: d}), ref[i, d]) for i, d in ij]
                    elif what in ('dmu', 'dsigma'):
                        off = 0 if what == 'dmu' else n_dim
                        pairs = [(ev({OUT_D: d}), dfl[off + d]) for d in range(n_dim)]
                    else:
                        p = 0 if what == 'dmui' else 1
                        pairs = [(ev({OUT_I: i, OUT_D: d}), dse[i, p, d]) for i, d in ij]
                    for a, b in pairs:
                        a, b = float(a), float(b)
                        if not (abs(a - b) <= 1e-9 * max(1.0, abs(a), abs(b)) or (math.isnan(a) and math.isnan(b))):
                            bad[kn] = 'traced expression gives %r, chi gives %r at theta=%s obs=%s' % (
                                a, b, TH.tolist(), obs.tolist())
                except Exception as e:  # noqa
                    bad[kn] = 'traced expression cannot be evaluated: ' + T._describe(e)
    return bad


_REPROVE_CACHE = {}


def check(ctx=None, chi=None, seed_rng=None):
    """trace, compare with the committed text, re-prove what changed, derive search hints.
    Returns {'status': {kernel: text}, 'hints': [case dicts for c05.run_elementary], 'info': {...}}; records the
    same under ctx.extra['source_tie'] / ['source_tie_info']. Never raises; never a verdict."""
    t0 = time.time()
    status, hints, info = {}, [], {}
    c05_code = {m: c for m, _, _, _, c in MODELS}
    try:
        if chi is None:
            import core
            chi = core.import_chi()
        rng = seed_rng if seed_rng is not None else (ctx.sub_rng(3 * 10 ** 6 + 17) if ctx is not None else
                                                     _np.random.default_rng(0))
        traces, info = trace_all(chi)
        text, blocks = generate(traces)
        try:
            committed = open(GEN_FILE).read()
        except OSError:
            committed = ''
        info['generated_equals_committed'] = (text == committed)
        old_blocks = T.split_blocks(committed)
        bad_fid = fidelity(chi, traces, rng)
        unexpected = {}
        to_prove = []
        for m, cname, kw, _, _ in MODELS:
            for kn in kernel_names(m):
                kt = traces[kn]
                unexpected[kn] = [g for g in kt.guards if not expected_guard(m, g[0], getattr(kt, 'score', None))]
                if not kt.ok:
                    status[kn] = 'not established: untraceable: %s' % kt.reason
                    continue
                if kn in bad_fid:
                    status[kn] = 'not established: tracer self-check failed: ' + bad_fid[kn]
                elif blocks[kn] == old_blocks.get(def_name(kn)):
                    status[kn] = 'proved (generated definition unchanged)'
                else:
                    to_prove.append(kn)
        if to_prove:
            os.makedirs(T.WORK, exist_ok=True)
            tag = 'pid%d' % os.getpid()
            with open(os.path.join(T.WORK, 'PopModels_%s.lean' % tag), 'w') as fh:
                fh.write(text)
            t1 = time.time()
            key = (text, tuple(to_prove))
            if key not in _REPROVE_CACHE:        # main.py runs a property up to three times per process
                res = T.reprove(text, to_prove, tag=tag, proof_file=PROOF_FILE, theorem_of_fn=theorem_of,
                                imports=PROOF_IMPORTS)
                _REPROVE_CACHE[key] = (res, round(time.time() - t1, 1))
            res, info['reprove_wall_s'] = _REPROVE_CACHE[key]
            info['reproved_against'] = os.path.join(T.WORK, 'PopModels_%s.lean' % tag)
            for kn in to_prove:
                ok, detail = res.get(kn, (False, 'not attempted'))
                status[kn] = 're-proved for the rewritten source' if ok else 'not established: ' + detail
        # guards outside the support guards: the formula is tied on the traced side only -> search both sides
        seen = set()
        guard_report = []

        def add_cases(m, txt, cases):
            for side, desc, TH, obs, up in cases:
                n_ids, n_dim = obs.shape
                inside = bool(_np.all(TH[1] > 0)) and (m not in ('PL',) or bool(_np.all(obs > 0))) \
                    and (m != 'PT' or bool(_np.all(obs >= 0)))
                hints.append({'kind': c05_code[m], 'n_dim': int(n_dim), 'n_ids': int(n_ids), 'theta': TH, 'obs': obs,
                              'up': up if len(hints) % 2 == 0 else None,
                              'guard': 'inside' if inside else 'tie-hint',
                              'label': 'tie-hint[%s is %s] %s' % (txt, side, desc)})
        for m, cname, kw, _, _ in MODELS:
            for kn in kernel_names(m):
                for g in unexpected.get(kn, []):
                    txt = T.show(g[0])
                    if not status[kn].startswith('not established'):
                        status[kn] = ('not established: the source leaves the traced path when `%s` (line %d, %s), '
                                      'which is not a support guard; on the traced side: %s'
                                      % (txt, g[1], g[2], status[kn]))
                    if (m, g[0]) in seen:
                        continue
                    seen.add((m, g[0]))
                    cases = hint_cases(m, g[0], rng)
                    guard_report.append({'model': m, 'guard': txt, 'line': g[1], 'function': g[2],
                                         'cases': len(cases), 'sides_reached': sorted(set(c[0] for c in cases))})
                    add_cases(m, txt, cases)
                for prefix, g in traces[kn].nested:
                    key = (m, tuple(prefix), g[0])
                    if key in seen:
                        continue
                    seen.add(key)
                    txt = '%s (where %s)' % (T.show(g[0]), ' and '.join(T.show(c) for c in prefix))
                    cases = hint_cases(m, g[0], rng, prefix=tuple(prefix))
                    guard_report.append({'model': m, 'guard': txt, 'line': g[1], 'function': g[2],
                                         'cases': len(cases), 'sides_reached': sorted(set(c[0] for c in cases))})
                    add_cases(m, txt, cases)
        info['unexpected_guards'] = guard_report
        info['guards'] = {kn: [show_guard(g[0], getattr(traces[kn], 'score', None)) for g in traces[kn].guards]
                          for kn in traces}
    except Exception as e:  # noqa
        info['failed'] = T._describe(e)
        for kn in all_kernels():
            status.setdefault(kn, 'not established: source tie machinery failed: ' + T._describe(e))
    for kn in all_kernels():
        status.setdefault(kn, 'not established: not reached (%s)' % info.get('failed', 'unknown'))
    info['wall_s'] = round(time.time() - t0, 2)
    info['theorems'] = {kn: theorem_of(kn) for kn in all_kernels()}
    info['scope'] = ('identities over the reals between the formula traced from the public methods (flat parameter '
                     'vector, support side of the recorded guards) and the hand-written Lean model; floating-point '
                     'conditioning of a rewritten formula, the other parameter layouts and reduce=True are covered by '
                     'the sampled cases only')
    if ctx is not None:
        ctx.extra['source_tie'] = status
        ctx.extra['source_tie_info'] = info
    return {'status': status, 'hints': hints, 'info': info}


if __name__ == '__main__':
    sys.path.insert(0, os.path.dirname(os.path.abspath(__file__)))
    import core as _core
    _chi = _core.import_chi()
    if len(sys.argv) > 1 and sys.argv[1] == '--check':
        _r = check(chi=_chi)
        for _k, _v in _r['status'].items():
            print('%-12s %s' % (_k, _v))
        print(len(_r['hints']), 'hint cases', [h['label'] for h in _r['hints']][:12])
        _info = _r['info']
    else:
        _tr, _info = trace_all(_chi)
        _text, _ = generate(_tr)
        if len(sys.argv) > 1 and sys.argv[1] == '--write':
            os.makedirs(os.path.dirname(GEN_FILE), exist_ok=True)
            with open(GEN_FILE, 'w') as _fh:
                _fh.write(_text)
            print('wrote', GEN_FILE)
        else:
            sys.stdout.write(_text)
    print(_info, file=sys.stderr)
