"""
Shared machinery of the correspondence harness.

* LeanDriver   – the executable Lean model behind a line protocol (lean/Driver.lean)
* Ctx          – per-run bookkeeping: correspondence comparisons, property (spec) checks on the
                 real code, classification into VIOLATION / KNOWN-FINDING, replay + evidence files
* audit        – `lake build` + `#print axioms` of every property theorem + source grep
"""
import hashlib
import json
import math
import os
import re
import struct
import subprocess
import sys
import time
import traceback

import numpy as np

VERIF = os.path.dirname(os.path.dirname(os.path.abspath(__file__)))
LEAN_DIR = os.path.join(VERIF, 'lean')
CHI_SRC = os.environ.get('CHI_SRC', '/repo')
ALLOWED_AXIOMS = {'propext', 'Classical.choice', 'Quot.sound'}
FORBIDDEN = re.compile(
    r'\bsorry\b|\badmit\b|^\s*axiom\s|native_decide|bv_decide|implemented_by|'
    r'\bunsafe\s|maxHeartbeats\s+0\b')

TRUSTED_BASE = [
    'Lean 4.33 kernel (thorough tier: also leanchecker); axioms allowed: propext, '
    'Classical.choice, Quot.sound; no native_decide / bv_decide / sorry',
    'Mathlib v4.33 definitions of R, Real.log/exp/sqrt/pi, HasDerivAt, integral, gaussianReal',
    'the statements in lean/ChiProofs/Props/<ID>.lean (my reading of the property)',
    'hand-written model lean/ChiModel/*.lean tied to /repo by this correspondence harness '
    '(generators, canonicalisation, tolerance 1e-9 relative)',
    'Float (IEEE double) vs real arithmetic: theorems are over R, chi and the executable model '
    'compute in doubles',
    'numpy / scipy / pandas / pints / myokit semantics are modelled, not verified',
]


# ----------------------------------------------------------------------------------------
# wire encoding
# ----------------------------------------------------------------------------------------
def f2bits(x):
    return struct.unpack('<Q', struct.pack('<d', float(x)))[0]


def bits2f(n):
    return struct.unpack('<d', struct.pack('<Q', int(n)))[0]


def _esc(s):
    out = []
    for ch in str(s):
        if ch.isalnum() or ch in '_.-:/+*()=,<>':
            out.append(ch)
        else:
            out.append('%%%02x' % ord(ch))
    return ''.join(out)


def _unesc(s):
    return re.sub(r'%([0-9a-f]{2})', lambda m: chr(int(m.group(1), 16)), s)


def enc(x):
    if x is None:
        return 'n'
    if isinstance(x, (bool, np.bool_)):
        return 't' if x else 'u'
    if isinstance(x, (int, np.integer)):
        return 'i%d' % int(x)
    if isinstance(x, (float, np.floating)):
        return 'f%d' % f2bits(x)
    if isinstance(x, str):
        return 's' + _esc(x)
    if isinstance(x, np.ndarray):
        x = x.tolist()
    if isinstance(x, (list, tuple)):
        return '[ ' + ''.join(enc(v) + ' ' for v in x) + ']'
    raise TypeError('cannot encode %r' % (x,))


def _dec(tokens, pos):
    tok = tokens[pos]
    if tok == '[':
        out = []
        pos += 1
        while tokens[pos] != ']':
            v, pos = _dec(tokens, pos)
            out.append(v)
        return out, pos + 1
    if tok == 'n':
        return None, pos + 1
    if tok == 't':
        return True, pos + 1
    if tok == 'u':
        return False, pos + 1
    if tok[0] == 'i':
        return int(tok[1:]), pos + 1
    if tok[0] == 'f':
        return bits2f(tok[1:]), pos + 1
    if tok[0] == 's':
        return _unesc(tok[1:]), pos + 1
    raise ValueError('bad token %r' % tok)


def dec_all(tokens):
    out = []
    pos = 0
    while pos < len(tokens):
        v, pos = _dec(tokens, pos)
        out.append(v)
    return out


class BadOp(Exception):
    pass


class LeanDriver:
    """the model's executable definitions, run with `lake env lean --run Driver.lean`"""

    def __init__(self):
        self.proc = subprocess.Popen(
            ['lake', 'env', 'lean', '--run', 'Driver.lean'], cwd=LEAN_DIR,
            stdin=subprocess.PIPE, stdout=subprocess.PIPE, text=True, bufsize=1)
        self.n = 0
        self.log = []

    def call(self, op, *args):
        self.n += 1
        line = '%d %s %s' % (self.n, op, ' '.join(enc(a) for a in args))
        self.proc.stdin.write(line + '\n')
        self.proc.stdin.flush()
        reply = self.proc.stdout.readline()
        if not reply:
            raise RuntimeError('model driver died on: ' + line[:300])
        toks = reply.split()
        if toks[0] != str(self.n):
            raise RuntimeError('driver out of sync: %r' % reply[:200])
        if len(toks) >= 2 and toks[1] == 'bad-op':
            raise BadOp(line[:500])
        return dec_all(toks[1:])

    def close(self):
        try:
            self.proc.stdin.close()
            self.proc.wait(timeout=10)
        except Exception:
            self.proc.kill()


# ----------------------------------------------------------------------------------------
# comparison
# ----------------------------------------------------------------------------------------
def fclass(x):
    if isinstance(x, str):
        return x
    if x is None:
        return 'none'
    if math.isnan(x):
        return 'nan'
    if math.isinf(x):
        return 'posinf' if x > 0 else 'neginf'
    return 'finite'


def close(a, b, rtol=1e-9, atol=0.0):
    """structural comparison; floats to relative tolerance, non-finite by class.
    Model scores `neginf` / `undef` compare with -inf / nan."""
    if isinstance(a, np.ndarray):
        a = a.tolist()
    if isinstance(b, np.ndarray):
        b = b.tolist()
    if isinstance(a, (list, tuple)) and isinstance(b, (list, tuple)):
        return len(a) == len(b) and all(close(x, y, rtol, atol) for x, y in zip(a, b))
    if isinstance(a, (list, tuple)) or isinstance(b, (list, tuple)):
        return False
    na, nb = _num(a), _num(b)
    if na is not None and nb is not None:
        ca, cb = fclass(na), fclass(nb)
        if ca != 'finite' or cb != 'finite':
            return ca == cb
        return abs(na - nb) <= atol + rtol * max(1.0, abs(na), abs(nb))
    return a == b


def _num(x):
    if isinstance(x, (bool, np.bool_)):
        return None
    if isinstance(x, (int, float, np.integer, np.floating)):
        return float(x)
    if x == 'neginf':
        return -math.inf
    if x == 'undef' or x == 'nan':
        return math.nan
    if x == 'posinf':
        return math.inf
    return None


def tg_cancellation_atol(mu, sigma):
    """absolute error that IEEE arithmetic leaves in a truncated-Gaussian log-density evaluated through
    log(1 + erf(mu / (sigma sqrt 2))): the sum loses |eps / Phi(mu/sigma)| per individual and dimension when the
    mean lies several sigma below the truncation point. Two correct implementations (numpy/scipy and the Lean
    Float model) differ by this much there; the real-number statement is untouched."""
    from scipy.special import ndtr
    mu, sigma = np.asarray(mu, float), np.asarray(sigma, float)
    with np.errstate(all='ignore'):
        r = np.where(sigma > 0, mu / sigma, 0.0)
        return float(np.sum(16 * 2.3e-16 / np.maximum(ndtr(r), 1e-300)))


def jsonable(x):
    if isinstance(x, np.ndarray):
        return jsonable(x.tolist())
    if isinstance(x, (list, tuple)):
        return [jsonable(v) for v in x]
    if isinstance(x, dict):
        return {str(k): jsonable(v) for k, v in x.items()}
    if isinstance(x, (np.integer,)):
        return int(x)
    if isinstance(x, (float, np.floating)):
        x = float(x)
        if math.isnan(x):
            return 'nan'
        if math.isinf(x):
            return 'inf' if x > 0 else '-inf'
        return x
    if isinstance(x, (np.bool_,)):
        return bool(x)
    if x is None or isinstance(x, (int, str, bool)):
        return x
    return repr(x)


def errkind(exc):
    """map a Python exception to the model's small enum (never compare message text)"""
    if isinstance(exc, NotImplementedError):
        return 'err:notImplemented'
    if isinstance(exc, IndexError):
        return 'err:indexError'
    if isinstance(exc, KeyError):
        return 'err:keyError'
    if isinstance(exc, TypeError):
        return 'err:typeError'
    if isinstance(exc, ValueError):
        return 'err:valueError'
    if isinstance(exc, AttributeError):
        return 'err:attributeError'
    return 'err:' + type(exc).__name__


# ----------------------------------------------------------------------------------------
# proof audit
# ----------------------------------------------------------------------------------------
def lake_build():
    t0 = time.time()
    r = subprocess.run(['lake', 'build'], cwd=LEAN_DIR, capture_output=True, text=True)
    return r.returncode == 0, (r.stdout + r.stderr)[-4000:], time.time() - t0


def strip_comments(src):
    src = re.sub(r'/-.*?-/', '', src, flags=re.S)
    return re.sub(r'--.*', '', src)


def audit(prop_id, required):
    """returns dict(theorems=[{name, axioms, ok}], broken=[str], checker_cmd=str)"""
    res = {'theorems': [], 'broken': [], 'wall_s': 0.0}
    t0 = time.time()
    ok, out, _ = lake_build()
    if not ok:
        res['broken'].append('lake build failed: ' + out[-1500:])
    props_file = os.path.join(LEAN_DIR, 'ChiProofs', 'Props', prop_id + '.lean')
    if not os.path.exists(props_file):
        res['broken'].append('missing ' + props_file)
        return res
    src = open(props_file).read()
    # theorems of the source-derived tie (ChiProofs/Tie/<ID>.lean, see harness/srctie.py) are audited with the property's
    tie_file = os.path.join(LEAN_DIR, 'ChiProofs', 'Tie', prop_id + '.lean')
    has_tie = os.path.exists(tie_file)
    if has_tie:
        src += '\n' + open(tie_file).read()
    # forbidden constructs anywhere in the sources this property's proofs can reach
    for root, _, files in os.walk(LEAN_DIR):
        if '.lake' in root:
            continue
        for f in files:
            if f.endswith('.lean'):
                body = strip_comments(open(os.path.join(root, f)).read())
                for ln in body.splitlines():
                    if FORBIDDEN.search(ln):
                        res['broken'].append('forbidden construct in %s: %s' % (f, ln.strip()[:120]))
    # every `theorem` of the file with its full name (namespace / section / end tracked)
    names = []          # short names
    full_names = []
    stack = []
    for ln in strip_comments(src).splitlines():
        m = re.match(r'^\s*namespace\s+(\S+)', ln)
        if m:
            stack.append(('ns', m.group(1)))
            continue
        m = re.match(r'^\s*section\b\s*(\S*)', ln)
        if m:
            stack.append(('sec', m.group(1)))
            continue
        m = re.match(r'^\s*end\b\s*(\S*)', ln)
        if m and stack:
            stack.pop()
            continue
        m = re.match(r'^(?:private\s+|protected\s+)?theorem\s+([A-Za-z0-9_\.\']+)', ln)
        if m:
            names.append(m.group(1))
            full_names.append('.'.join([n for k, n in stack if k == 'ns'] + [m.group(1)]))
    for r_ in required:
        if r_ not in names:
            res['broken'].append('required theorem %s is missing from Props/%s.lean' % (r_, prop_id))
    if ok and names:
        adir = os.path.join(LEAN_DIR, '.lake', 'audit')
        os.makedirs(adir, exist_ok=True)
        afile = os.path.join(adir, 'Audit_%s.lean' % prop_id)
        with open(afile, 'w') as fh:
            fh.write('import ChiProofs.Props.%s\n' % prop_id)
            if has_tie:
                fh.write('import ChiProofs.Tie.%s\n' % prop_id)
            for nm in full_names:
                fh.write('#print axioms %s\n' % nm)
        r = subprocess.run(['lake', 'env', 'lean', afile], cwd=LEAN_DIR, capture_output=True,
                           text=True)
        text = r.stdout + r.stderr
        if r.returncode != 0:
            res['broken'].append('axiom audit failed to elaborate: ' + text[-800:])
        found = {}
        for m in re.finditer(
                r"'([^']+)' (does not depend on any axioms|depends on axioms: \[([^\]]*)\])", text):
            axs = [a.strip() for a in (m.group(3) or '').replace('\n', ' ').split(',') if a.strip()]
            found[m.group(1)] = axs
        for full in full_names:
            if full not in found:
                res['broken'].append('theorem %s: no axiom report' % full)
                res['theorems'].append({'name': full, 'axioms': None, 'ok': False})
                continue
            bad = [a for a in found[full] if a not in ALLOWED_AXIOMS]
            if bad:
                res['broken'].append('theorem %s depends on %s' % (full, bad))
            res['theorems'].append({'name': full, 'axioms': found[full], 'ok': not bad})
    res['checker_cmd'] = ('cd lean && lake build && lake env lean .lake/audit/Audit_%s.lean   '
                          '# `#print axioms` for every theorem of ChiProofs/Props/%s.lean'
                          % (prop_id, prop_id))
    res['wall_s'] = time.time() - t0
    return res


def leanchecker(prop_id):
    r = subprocess.run(['lake', 'env', 'leanchecker', 'ChiProofs.Props.' + prop_id], cwd=LEAN_DIR,
                       capture_output=True, text=True)
    if r.returncode == 0 and os.path.exists(os.path.join(LEAN_DIR, 'ChiProofs', 'Tie', prop_id + '.lean')):
        r = subprocess.run(['lake', 'env', 'leanchecker', 'ChiProofs.Tie.' + prop_id], cwd=LEAN_DIR,
                           capture_output=True, text=True)
    return r.returncode == 0, (r.stdout + r.stderr)[-1500:]


# ----------------------------------------------------------------------------------------
# run context
# ----------------------------------------------------------------------------------------
def _same_struct(a, b, rtol=1e-9):
    return bool(close(a, b, rtol=rtol))


class Ctx:
    def __init__(self, prop_id, tier, seed):
        self.prop = prop_id
        self.tier = tier
        self.seed = seed
        self.rng = np.random.default_rng([seed, int(prop_id[1:])])
        self.t0 = time.time()
        self.lean = None
        self.cases = 0
        self.classes = {}            # structural class -> count
        self.nontrivial = set()      # distinct non-trivial class keys
        self.corr_total = 0
        self.corr_bad = []           # disagreements chi vs model
        self.spec_total = 0
        self.spec_bad = []           # property violated on the real code
        self.branches = set()
        self.errkinds = set()
        self.samples = []
        self.known_hits = {}
        self.notes = []
        self.extra = {}
        self.findings = load_findings(prop_id)

    # -- model
    def model(self, op, *args):
        if self.lean is None:
            self.lean = LeanDriver()
        return self.lean.call(op, *args)

    def sub_rng(self, k):
        return np.random.default_rng([self.seed, int(self.prop[1:]), k])

    # -- bookkeeping
    def case(self, cls, nontrivial=False, sample=None):
        self.cases += 1
        self.classes[cls] = self.classes.get(cls, 0) + 1
        if nontrivial:
            self.nontrivial.add(nontrivial if isinstance(nontrivial, str) else cls)
        if sample is not None and len(self.samples) < 6:
            self.samples.append(jsonable(sample))

    def agree(self, label, chi_out, model_out, inp, rtol=1e-9, atol=0.0):
        """correspondence: the real code and the Lean model on the same input"""
        self.corr_total += 1
        if close(chi_out, model_out, rtol, atol):
            return True
        if len(self.corr_bad) < 50:
            self.corr_bad.append({'correspondence': label, 'input': jsonable(inp),
                                  'chi': jsonable(chi_out), 'model': jsonable(model_out)})
        return False

    def spec(self, tag, ok, inp, detail=None):
        """the property itself, evaluated on the real code (executable spec or numeric proxy).
        `tag` names the aspect / call site; known findings are keyed on it."""
        self.spec_total += 1
        if ok:
            return True
        if len(self.spec_bad) < 200:
            self.spec_bad.append({'tag': tag, 'input': jsonable(inp), 'detail': jsonable(detail)})
        return False

    def number_types(self, tag, fn, x, inp, rtol=1e-9):
        """`x` holds whole numbers only; the same numbers handed over as a float64 array, an int64 array
        and a list of Python ints are the same parameters, so `fn` (a call into chi returning
        floats / arrays / tuples of them) must return the same thing for each"""
        xf = np.asarray(x, float)
        if xf.size == 0 or not np.all(xf == np.round(xf)):
            return None
        try:
            with np.errstate(all='ignore'):
                base = fn(xf.copy())
        except Exception:  # noqa  (the float64 call itself is judged elsewhere)
            return None
        variants = [('int64_array', xf.astype(np.int64)), ('python_int_list', [int(v) for v in xf])]
        for name, v in variants:
            try:
                with np.errstate(all='ignore'):
                    r = fn(v)
            except Exception as e:  # noqa
                self.spec('%s/%s' % (tag, name), False, dict(inp, whole_numbers=xf), {'raised': repr(e)[:200]})
                continue
            self.spec('%s/%s' % (tag, name), _same_struct(base, r, rtol), dict(inp, whole_numbers=xf),
                      {'float64_array': base, name: r})
        return base

    def inplace_reuse(self, tag, fn, x, y, inp):
        """the caller evaluates at an array, CHANGES THAT ARRAY IN PLACE and evaluates again (a profile scan,
        `theta += step`): the second result is the one of the new values, and going back gives the first again"""
        x = np.array(x, float)
        y = np.array(y, float)
        try:
            with np.errstate(all='ignore'):
                a = x.copy()
                r1 = fn(a)
                a[:] = y
                r2 = fn(a)
                a[:] = x
                r3 = fn(a)
                ref1, ref2 = fn(x.copy()), fn(y.copy())
        except Exception as e:  # noqa
            self.spec(tag, False, dict(inp, first=x, then=y), {'raised': repr(e)[:200]})
            return
        self.spec(tag, _same_struct(r2, ref2) and _same_struct(r1, ref1) and _same_struct(r3, ref1),
                  dict(inp, first=x, then_in_place=y),
                  {'second_call': r2, 'fresh_array_with_the_new_values': ref2, 'first_call': r1, 'third_call': r3})

    def guard(self, fn, *args, **kw):
        """run one case; an exception escaping from it (none occurs on the unchanged tree) is a
        property failure with that case as the failing input, not an infrastructure problem"""
        try:
            return fn(*args, **kw)
        except BadOp:
            raise
        except Exception as e:  # noqa
            tb = traceback.format_exc().splitlines()
            where = [l.strip() for l in tb if 'File' in l][-3:]
            self.spec('%s.unexpected_exception/%s' % (self.prop, getattr(fn, '__name__', 'case')), False,
                      {'case_function': getattr(fn, '__name__', '?'), 'args': [repr(a)[:200] for a in args[2:]]},
                      {'raised': repr(e)[:300], 'where': where})
            return None

    # -- finish
    def finish(self, audit_res, rule, assumptions=None, explanation=None):
        prop = self.prop
        if self.lean is not None:
            self.lean.close()
        lines = []
        violations = 0
        rdir = os.path.join(VERIF, 'replays', prop)

        def write_replay(obj):
            os.makedirs(rdir, exist_ok=True)
            blob = json.dumps(obj, sort_keys=True, indent=1)
            path = os.path.join(rdir, hashlib.sha1(blob.encode()).hexdigest()[:16] + '.json')
            with open(path, 'w') as fh:
                fh.write(blob)
            return path

        known = {f['tag']: f for f in self.findings if f.get('status') == 'known'}
        unlisted = []
        def lookup(tag):
            # a listed tag covers itself and its dotted sub-aspects (tag + '.…')
            if tag in known:
                return tag
            for k in known:
                if tag.startswith(k + '.'):
                    return k
            return None
        for bad in self.spec_bad:
            k = lookup(bad['tag'])
            if k is not None:
                self.known_hits.setdefault(k, bad)
            else:
                unlisted.append(bad)
        for tag, bad in self.known_hits.items():
            lines.append('KNOWN-FINDING: property=%s %s' % (prop, known[tag]['what']))
        # stale known findings (listed but not reproduced) are reported as information
        for tag, f in known.items():
            if tag not in self.known_hits and f.get('expect_reproduced', True):
                self.notes.append('known finding %s was not reproduced in this run' % f['id'])
        seen_tags = set()
        for bad in unlisted:
            if bad['tag'] in seen_tags or len(seen_tags) >= 8:
                continue
            seen_tags.add(bad['tag'])
            path = write_replay({'property': prop, 'kind': 'violation', 'seed': self.seed,
                                 'tier': self.tier, 'failing': bad,
                                 'chi_src': CHI_SRC})
            lines.append('VIOLATION property=%s replay=%s' % (prop, path))
            violations += 1
        broken = list(audit_res.get('broken', []))
        if not unlisted and (self.corr_bad or broken):
            # the tie between model and code (or a proof obligation) no longer checks and the
            # failing-input search (all spec checks of this run) found nothing
            obj = {'property': prop, 'kind': 'no-failing-input-found', 'seed': self.seed,
                   'tier': self.tier,
                   'broken_obligations': broken,
                   'broken_correspondence': self.corr_bad[:5],
                   'theorems_resting_on_it': [t['name'] for t in audit_res.get('theorems', [])],
                   'search': '%d property checks on the real code found no failing input'
                             % self.spec_total,
                   'chi_src': CHI_SRC}
            path = write_replay(obj)
            lines.append('VIOLATION property=%s replay=%s no-failing-input-found' % (prop, path))
            violations += 1
        thms = audit_res.get('theorems', [])
        cov = {
            'obligations': max(1, len(thms)),
            'discharged': sum(1 for t in thms if t['ok']) if not broken else
            sum(1 for t in thms if t['ok']) - (1 if thms and all(t['ok'] for t in thms) else 0),
            'checker_cmd': audit_res.get('checker_cmd', 'cd lean && lake build'),
            'trusted_base': TRUSTED_BASE,
            'evaluations': self.cases,
            'distinct_nontrivial': len(self.nontrivial),
            'rule': rule,
            'samples': self.samples if self.samples else ['(no case generated)'],
            'traces_validated_against_impl': self.corr_total,
            'correspondence': {'comparisons': self.corr_total, 'disagreed': len(self.corr_bad),
                               'property_checks_on_chi': self.spec_total,
                               'property_failures_on_chi': len(self.spec_bad),
                               'by_class': self.classes,
                               'branches_hit': sorted(self.branches),
                               'error_kinds_hit': sorted(self.errkinds)},
            'theorems': thms,
            'known_findings_reproduced': sorted(self.known_hits),
            'notes': self.notes,
        }
        cov.update(self.extra)
        if explanation:
            cov['explanation'] = explanation
        ev = {'property_id': prop, 'tier': self.tier, 'seed': self.seed, 'level': 'proof',
              'coverage': cov,
              'assumptions': assumptions or [],
              'wall_s': round(time.time() - self.t0, 2), 'violations': violations}
        # evidence/ describes /repo itself: a development run (--no-audit) or a self-test run against a patched
        # copy of chi (CHI_SRC) writes to .work/ instead
        on_repo = os.path.realpath(CHI_SRC) == os.path.realpath('/repo')
        edir = os.path.join(VERIF, 'evidence' if (on_repo and not getattr(self, 'dev', False)) else '.work')
        os.makedirs(edir, exist_ok=True)
        with open(os.path.join(edir, prop + '.json'), 'w') as fh:
            json.dump(ev, fh, indent=1, sort_keys=True)
        for ln in lines:
            print(ln)
        print('%s %s: %d cases, %d/%d correspondence comparisons agree, %d/%d property checks '
              'hold on chi, %d theorems audited, %d broken obligations, %.1fs'
              % (prop, self.tier, self.cases, self.corr_total - len(self.corr_bad),
                 self.corr_total, self.spec_total - len(self.spec_bad), self.spec_total,
                 len(thms), len(broken), time.time() - self.t0))
        for b in broken[:5]:
            print('  broken: ' + b[:300])
        for b in self.corr_bad[:3]:
            print('  disagreement: ' + json.dumps(b)[:600])
        return 1 if violations else 0


def anchor_changes(prop_id):
    """anchored source files of the property whose AST differs from the recorded one"""
    import ast
    try:
        rec = json.load(open(os.path.join(VERIF, 'harness', 'anchor_hashes.json')))['files']
        files = []
        for ln in open(os.path.join(VERIF, 'properties.jsonl')):
            pr = json.loads(ln)
            if pr['id'] == prop_id:
                files = pr['anchors']['files']
        changed = []
        for f, h in rec.items():
            if not any(f == a or f.startswith(a.rstrip('/') + '/') for a in files):
                continue
            p = os.path.join(CHI_SRC, f)
            try:
                now = hashlib.sha1(ast.dump(ast.parse(open(p).read())).encode()).hexdigest()
            except Exception:
                now = 'unreadable'
            if now != h:
                changed.append(f)
        return changed
    except Exception:
        return []


def load_findings(prop_id):
    path = os.path.join(VERIF, 'known_findings.json')
    if not os.path.exists(path):
        return []
    with open(path) as fh:
        data = json.load(fh)
    return [f for f in data.get('findings', []) if f.get('property') == prop_id]


def import_chi():
    """chi is imported from /repo's working tree (CHI_SRC only for the seeded-change self test)"""
    if sys.path[0] != CHI_SRC:
        sys.path.insert(0, CHI_SRC)
    import warnings
    warnings.filterwarnings('ignore')
    import chi
    assert os.path.abspath(chi.__file__).startswith(os.path.abspath(CHI_SRC)), chi.__file__
    return chi
