"""
Reference integrator standing in for myokit.Simulation (sundials/CVODES is absent in this sandbox).

It implements exactly the calls chi makes — constructor(model, protocol, sensitivities), reset,
set_state, set_constant, set_protocol, run(duration, log, log_times), attribute `_model` — evaluates
right-hand sides by interpreting myokit expression trees over dual numbers (value + gradient with
respect to all initial states and all literal constants), integrates the state together with the
forward-sensitivity system with scipy (LSODA, rtol 1e-10) piecewise between the pace changes that
myokit's own pure-Python PacingSystem reports, and records every call in the module-level RECORD.

Trusted base: this file. It is validated on every run of the checks that use it against
closed-form solutions that share no code with it (harness/closedform.py).
"""
import numpy as np
import myokit
from scipy.integrate import solve_ivp

RECORD = []          # [(sim_id, call_name, payload)]
MODELS = {}          # sim_id -> the myokit.Model handed to the constructor (a clone), for structural checks
_NEXT_ID = [0]


def install():
    myokit.Simulation = RefSimulation


def clear_record():
    del RECORD[:]
    MODELS.clear()


class Dual(object):
    __slots__ = ('v', 'g')

    def __init__(self, v, g):
        self.v = v
        self.g = g


def ev(e, env, n):
    """evaluate the myokit expression e to a Dual; env maps myokit.Variable -> Dual"""
    E = myokit
    if isinstance(e, E.Number):
        return Dual(float(e.eval()), np.zeros(n))
    if isinstance(e, E.Name):
        var = e.var()
        if var in env:
            return env[var]
        r = ev(var.rhs(), env, n)
        env[var] = r
        return r
    if isinstance(e, E.PrefixPlus):
        return ev(e[0], env, n)
    if isinstance(e, E.PrefixMinus):
        a = ev(e[0], env, n)
        return Dual(-a.v, -a.g)
    if isinstance(e, E.Plus):
        a = ev(e[0], env, n)
        b = ev(e[1], env, n)
        return Dual(a.v + b.v, a.g + b.g)
    if isinstance(e, E.Minus):
        a = ev(e[0], env, n)
        b = ev(e[1], env, n)
        return Dual(a.v - b.v, a.g - b.g)
    if isinstance(e, E.Multiply):
        a = ev(e[0], env, n)
        b = ev(e[1], env, n)
        return Dual(a.v * b.v, a.g * b.v + a.v * b.g)
    if isinstance(e, E.Divide):
        a = ev(e[0], env, n)
        b = ev(e[1], env, n)
        return Dual(a.v / b.v, (a.g * b.v - a.v * b.g) / b.v ** 2)
    if isinstance(e, E.Power):
        a = ev(e[0], env, n)
        b = ev(e[1], env, n)
        v = a.v ** b.v
        g = b.v * a.v ** (b.v - 1) * a.g
        if np.any(b.g != 0):
            g = g + v * np.log(a.v) * b.g
        return Dual(v, g)
    if isinstance(e, E.Exp):
        a = ev(e[0], env, n)
        v = np.exp(a.v)
        return Dual(v, v * a.g)
    if isinstance(e, E.Log) and len(e) == 1:
        a = ev(e[0], env, n)
        return Dual(np.log(a.v), a.g / a.v)
    if isinstance(e, E.Sqrt):
        a = ev(e[0], env, n)
        v = np.sqrt(a.v)
        return Dual(v, a.g / (2 * v))
    raise NotImplementedError('refsim: expression type ' + type(e).__name__)


def _rebuild(mcode, pcode, sens, state, consts, default_state):
    m = myokit.parse_model(mcode)
    p = None if pcode is None else myokit.parse_protocol(pcode)
    sim = RefSimulation(m, p, sens)
    sim._state = list(state)
    sim._consts = dict(consts)
    sim._default_state = list(default_state)
    return sim


class RefSimulation(object):
    def __init__(self, model, protocol=None, sensitivities=None, **kw):
        self._model = model.clone()
        self._protocol = protocol.clone() if protocol is not None else None
        self._states = list(self._model.states())
        self._consts = {v.qname(): float(v.rhs().eval())
                        for v in self._model.variables(const=True) if v.is_literal()}
        self._default_state = [float(v) for v in self._model.initial_values(as_floats=True)]
        self._state = list(self._default_state)
        self._time_var = self._model.time()
        self._pace_var = self._model.binding('pace')
        self._sens = None
        if sensitivities is not None:
            outs, pars = sensitivities
            self._sens = (list(outs), [str(p) for p in pars])
        self.sim_id = _NEXT_ID[0]
        _NEXT_ID[0] += 1
        MODELS[self.sim_id] = self._model
        RECORD.append((self.sim_id, 'new', {
            'states': [s.qname() for s in self._states],
            # what chi's name tables are derived from, in myokit's own iteration order
            'consts': [(v.qname(), bool(v.is_literal())) for v in self._model.variables(const=True)],
            'inter': [v.qname() for v in self._model.variables(inter=True)],
            'pace': None if self._pace_var is None else self._pace_var.qname(),
            'sensitivities': None if self._sens is None else [list(self._sens[0]), list(self._sens[1])],
            'protocol': None if self._protocol is None else self._protocol.code()}))

    def __reduce__(self):
        sens = None if self._sens is None else (list(self._sens[0]), list(self._sens[1]))
        return (_rebuild, (self._model.code(),
                           None if self._protocol is None else self._protocol.code(),
                           sens, list(self._state), dict(self._consts), list(self._default_state)))

    # --- the calls chi makes ---------------------------------------------------------------
    def reset(self):
        self._state = list(self._default_state)
        RECORD.append((self.sim_id, 'reset', None))

    def set_state(self, s):
        s = [float(x) for x in s]
        if len(s) != len(self._states):
            raise ValueError('Wrong number of states')
        self._state = s
        RECORD.append((self.sim_id, 'set_state', dict(zip([v.qname() for v in self._states], s))))

    def set_constant(self, name, value):
        name = str(name)
        if name not in self._consts:
            raise ValueError('Not a literal constant: ' + name)
        self._consts[name] = float(value)
        RECORD.append((self.sim_id, 'set_constant', (name, float(value))))

    def set_protocol(self, p):
        self._protocol = p.clone() if p is not None else None
        RECORD.append((self.sim_id, 'set_protocol', None if p is None else p.code()))

    def run(self, duration, log=None, log_times=None):
        ns = len(self._states)
        cnames = sorted(self._consts)
        nc = len(cnames)
        npar = ns + nc
        nd = npar
        log = list(log)
        log_times = np.asarray(log_times, float)
        RECORD.append((self.sim_id, 'run', {'duration': float(duration), 'log': list(log),
                                            'log_times': log_times.tolist(),
                                            'sensitivities': None if self._sens is None
                                            else [list(self._sens[0]), list(self._sens[1])],
                                            'protocol': None if self._protocol is None
                                            else self._protocol.code()}))
        if len(log_times) and np.any(np.diff(log_times) < 0):
            raise ValueError('log_times must be non-decreasing')
        cvals = np.array([self._consts[c] for c in cnames])
        cvar = [self._model.get(c) for c in cnames]

        def f(t, z, pace):
            x = z[:ns]
            S = z[ns:].reshape(ns, npar)
            env = {}
            for i, s in enumerate(self._states):
                g = np.zeros(nd)
                g[i] = 1
                env[s] = Dual(x[i], g)
            for k, v in enumerate(cvar):
                g = np.zeros(nd)
                g[ns + k] = 1
                env[v] = Dual(cvals[k], g)
            if self._time_var is not None:
                env[self._time_var] = Dual(t, np.zeros(nd))
            if self._pace_var is not None:
                env[self._pace_var] = Dual(pace, np.zeros(nd))
            dx = np.empty(ns)
            J = np.empty((ns, ns))
            P = np.empty((ns, nc))
            for i, s in enumerate(self._states):
                d = ev(s.rhs(), env, nd)
                dx[i] = d.v
                J[i] = d.g[:ns]
                P[i] = d.g[ns:]
            dS = J @ S
            dS[:, ns:] += P
            return np.concatenate([dx, dS.ravel()]), env

        outs = {name: np.empty(len(log_times)) for name in log}
        # myokit returns the sensitivities of the dependents named at construction
        deps = list(log) if self._sens is None else [str(x) for x in self._sens[0]]
        sens = np.empty((len(log_times), len(deps), npar))

        def record(tt, zz, pace, k):
            _, env = f(tt, zz, pace)
            S = zz[ns:].reshape(ns, npar)
            for name in log:
                var = self._model.get(name)
                d = env[var] if var in env else ev(myokit.Name(var), env, nd)
                outs[name][k] = d.v
            if self._sens is None:
                return
            for oi, name in enumerate(deps):
                var = self._model.get(name)
                d = env[var] if var in env else ev(myokit.Name(var), env, nd)
                sens[k, oi] = d.g[:ns] @ S
                sens[k, oi, ns:] += d.g[ns:]

        ps = myokit.PacingSystem(self._protocol) if self._protocol is not None else None
        S0 = np.zeros((ns, npar))
        S0[:, :ns] = np.eye(ns)
        z = np.concatenate([np.array(self._state, float), S0.ravel()])
        t = 0.0
        idx = 0
        n_log = len(log_times)
        guard = 0
        while idx < n_log:
            guard += 1
            if guard > 100000:
                raise RuntimeError('refsim: too many pacing segments')
            pace = ps.pace() if ps else 0.0
            tnext = min(ps.next_time(), duration) if ps else duration
            # log times of this segment [t, tnext)  (and == duration at the very end)
            seg = []
            j = idx
            while j < n_log and (log_times[j] < tnext or (log_times[j] == tnext and tnext >= duration)):
                seg.append(log_times[j])
                j += 1
            # nothing is observed after the last log time: the tail up to `duration` (chi asks for
            # `times[-1] + 1`) is not integrated; the state kept afterwards is the one at the last log time
            # (chi resets and sets the state before every run)
            tstop = tnext if j < n_log else max([t] + seg)
            if tstop > t:
                pts = sorted(set([x for x in seg if x > t] + [tstop]))
                sol = solve_ivp(lambda tt, zz: f(tt, zz, pace)[0], (t, tstop), z, method='LSODA',
                                rtol=1e-10, atol=1e-12, t_eval=pts)
                if not sol.success:
                    raise RuntimeError('refsim: integration failed: ' + str(sol.message))
                col = {tt: sol.y[:, k] for k, tt in enumerate(sol.t)}
                for lt in seg:
                    record(lt, z if lt <= t else col[lt], pace, idx)
                    idx += 1
                z = col[tstop]
            else:
                for lt in seg:
                    record(lt, z, pace, idx)
                    idx += 1
            t = tnext
            if ps:
                ps.advance(t)
            if t >= duration:
                break
        self._state = [float(v) for v in z[:ns]]
        if self._sens is None:
            return outs
        cols = []
        snames = [s.qname() for s in self._states]
        for p in self._sens[1]:
            if p.startswith('init('):
                cols.append(snames.index(p[5:-1]))
            else:
                cols.append(ns + cnames.index(p))
        return outs, sens[:, :, cols]
