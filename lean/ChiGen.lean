import ChiGen.ErrorModels
import ChiGen.PopModels
