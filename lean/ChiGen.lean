import ChiGen.ErrorModels
