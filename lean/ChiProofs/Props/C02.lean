import ChiModel.ShapeEta
import ChiModel.TopNames
set_option linter.unusedSectionVars false
set_option linter.unusedSimpArgs false
set_option linter.unusedVariables false
/-!
# C02 — hierarchical log-likelihood = individual likelihoods + population density
-/
namespace ChiModel
variable {α : Type}

namespace ShapeEta
/-- special blocks are sorted, non-overlapping, and start at or after `lo` -/
def WF : Nat → List (Nat × Nat) → Prop
  | _, [] => True
  | lo, (a, b) :: ss => lo ≤ a ∧ a ≤ b ∧ WF b ss

def isSpecial (specials : List (Nat × Nat)) (d : Nat) : Prop :=
  ∃ ab ∈ specials, ab.1 ≤ d ∧ d < ab.2

/-- number of special dimensions strictly below d -/
def below : List (Nat × Nat) → Nat → Nat
  | [], _ => 0
  | (a, b) :: ss, d => (min b d - min a d) + below ss d

theorem below_of_lt (lo : Nat) : ∀ (ss : List (Nat × Nat)), WF lo ss → ∀ d, d ≤ lo → below ss d = 0
  | [], _, _, _ => rfl
  | (a, b) :: ss, h, d, hd => by
    obtain ⟨h1, h2, h3⟩ := h
    have := below_of_lt b ss h3 d (by omega)
    simp only [below, this]
    omega

theorem wf_block_ge : ∀ (ss : List (Nat × Nat)) (lo : Nat), WF lo ss → ∀ ab ∈ ss, lo ≤ ab.1
  | [], _, _, _, h => by cases h
  | (a, b) :: ss, lo, hwf, ab, hm => by
    obtain ⟨w1, w2, w3⟩ := hwf
    cases hm with
    | head => exact w1
    | tail _ hm' => exact Nat.le_trans (Nat.le_trans w1 w2) (wf_block_ge ss b w3 ab hm')

/-- loop invariant ⇒ result.  `sh` = total width of special blocks already passed. -/
theorem loop_spec (row : Nat → Option α) :
    ∀ (ss : List (Nat × Nat)) (start shift : Nat) (out : Nat → Option α),
      WF start ss → shift ≤ start →
      let r := loop row ss start shift out
      -- new start/shift
      (r.2.2 ≤ r.2.1) ∧ (start ≤ r.2.1) ∧
      (∀ d, r.2.1 ≤ d → r.2.2 = shift + below ss d) ∧
      -- columns below the old start are untouched
      (∀ d, d < start → r.1 d = out d) ∧
      -- non-special columns in [start, new start) are filled from the right eta column
      (∀ d, start ≤ d → d < r.2.1 → ¬ isSpecial ss d → r.1 d = row (d - (shift + below ss d))) ∧
      -- special columns keep what they had
      (∀ d, isSpecial ss d → r.1 d = out d)
  | [], start, shift, out, _, hs => by
    refine ⟨hs, Nat.le_refl _, ?_, ?_, ?_, ?_⟩
    · intro d _; simp [loop, below]
    · intro d _; rfl
    · intro d h1 h2; simp only [loop] at h2; omega
    · intro d h; obtain ⟨ab, hab, _⟩ := h; cases hab
  | (a, b) :: ss, start, shift, out, hwf, hs => by
    obtain ⟨h1, h2, h3⟩ := hwf
    have ih := loop_spec row ss b (shift + (b - a)) (sliceAssign out start a row (start - shift))
      h3 (by omega)
    simp only [loop]
    obtain ⟨i1, i2, i3, i4, i5, i6⟩ := ih
    refine ⟨i1, by omega, ?_, ?_, ?_, ?_⟩
    · intro d hd
      have := i3 d hd
      rw [this]
      have hb : b ≤ d := by omega
      simp only [below]
      have : min b d - min a d = b - a := by omega
      omega
    · intro d hd
      rw [i4 d (by omega)]
      simp only [sliceAssign]
      rw [if_neg (by omega)]
    · intro d hd1 hd2 hns
      by_cases hdb : d < b
      · -- d in [start, b): must be in [start, a) since not special
        have hda : d < a := by
          apply Nat.lt_of_not_le
          intro hc
          exact hns ⟨(a, b), List.mem_cons_self, hc, hdb⟩
        rw [i4 d hdb]
        simp only [sliceAssign, below]
        rw [if_pos ⟨hd1, hda⟩]
        have hb0 : below ss d = 0 := below_of_lt b ss h3 d (by omega)
        have : min b d - min a d = 0 := by omega
        rw [hb0, this]
        congr 1
        omega
      · have hns' : ¬ isSpecial ss d := fun ⟨ab, hab, h⟩ => hns ⟨ab, List.mem_cons_of_mem _ hab, h⟩
        have := i5 d (by omega) hd2 hns'
        rw [this]
        simp only [below]
        have : min b d - min a d = b - a := by omega
        congr 1
        omega
    · intro d hsp
      obtain ⟨ab, hab, hd⟩ := hsp
      cases hab with
      | head =>
        -- d in [a, b): untouched by the recursive call (d < b) and by this slice (d ≥ a)
        rw [i4 d hd.2]
        simp only [sliceAssign]
        rw [if_neg (by omega)]
      | tail _ hmem =>
        rw [i6 d ⟨ab, hmem, hd⟩]
        simp only [sliceAssign]
        -- d ≥ b ≥ a, so outside [start, a)
        have : b ≤ d := Nat.le_trans (wf_block_ge ss b h3 ab hmem) hd.1
        rw [if_neg (by omega)]

theorem loop_start_ge (row : Nat → Option α) : ∀ (ss : List (Nat × Nat)) (start shift : Nat)
    (out : Nat → Option α), WF start ss → start ≤ (loop row ss start shift out).2.1
  | [], _, _, _, _ => Nat.le_refl _
  | (a, b) :: ss, start, shift, out, ⟨w1, w2, w3⟩ => by
    simp only [loop]
    exact Nat.le_trans (Nat.le_trans w1 w2) (loop_start_ge row ss b _ _ w3)

theorem loop_block_le (row : Nat → Option α) : ∀ (ss : List (Nat × Nat)) (start shift : Nat)
    (out : Nat → Option α), WF start ss → ∀ ab ∈ ss, ab.2 ≤ (loop row ss start shift out).2.1
  | [], _, _, _, _, _, h => by cases h
  | (a, b) :: ss, start, shift, out, ⟨_, _, w3⟩, ab, hm => by
    simp only [loop]
    cases hm with
    | head => exact loop_start_ge row ss b _ _ w3
    | tail _ hm' => exact loop_block_le row ss b _ _ w3 ab hm'

/-- C02: every non-special column d of the reshaped row is eta's column d − #(special dims below d);
    special columns are left for the pooled / heterogeneous values. -/
theorem shapeRow_spec (D : Nat) (ss : List (Nat × Nat)) (row : Nat → Option α) (hwf : WF 0 ss)
    (d : Nat) (hd : d < D) :
    (¬ isSpecial ss d → shapeRow D ss row d = row (d - below ss d)) ∧
    (isSpecial ss d → (∀ ab ∈ ss, ab.2 ≤ D) → shapeRow D ss row d = none) := by
  have h := loop_spec row ss 0 0 (fun _ => none) hwf (Nat.le_refl 0)
  obtain ⟨i1, _, i3, _, i5, i6⟩ := h
  constructor
  · intro hns
    unfold shapeRow
    simp only [sliceAssign]
    by_cases hlt : d < (loop row ss 0 0 (fun _ => none)).2.1
    · rw [if_neg (by omega)]
      have := i5 d (Nat.zero_le _) hlt hns
      simpa using this
    · rw [if_pos ⟨by omega, hd⟩]
      have := i3 d (by omega)
      congr 1
      omega
  · intro hsp hb
    unfold shapeRow
    simp only [sliceAssign]
    have hlt : d < (loop row ss 0 0 (fun _ => none)).2.1 := by
      -- the final start is the end of the last block, which is > d
      obtain ⟨ab, hab, hd'⟩ := hsp
      have := loop_block_le row ss 0 0 (fun _ => none) hwf ab hab
      omega
    rw [if_neg (by omega)]
    exact i6 d hsp
end ShapeEta

open ShapeEta

/-! ## the special-dimension table is sorted and disjoint; its width below a hierarchical
sub-model's columns is exactly the number of special dimensions before that sub-model -/

theorem wf_specialBlocks : ∀ (subs : List SubModel) (off lo : Nat), lo ≤ off →
    WF lo (specialBlocks subs off)
  | [], _, _, _ => trivial
  | s :: ss, off, lo, h => by
    unfold specialBlocks
    split
    · simpa using wf_specialBlocks ss (off + s.nDim) lo (by omega)
    · simp only [List.singleton_append]
      exact ⟨h, by omega, wf_specialBlocks ss (off + s.nDim) (off + s.nDim) (Nat.le_refl _)⟩

theorem below_append (l1 l2 : List (Nat × Nat)) (d : Nat) :
    below (l1 ++ l2) d = below l1 d + below l2 d := by
  induction l1 with
  | nil => simp [below]
  | cons x xs ih => obtain ⟨a, b⟩ := x; simp only [List.cons_append, below, ih]; omega

/-- key counting lemma (induction over the sub-model list): for the `k`-th sub-model, if it is
    hierarchical, the special dimensions below its `d`-th column number `dimOff − hierOff` -/
theorem below_specialBlocks : ∀ (subs : List SubModel) (off k d : Nat) (hk : k < subs.length),
    (subs[k]).kind.hierarchical = true → d < (subs[k]).nDim →
    below (specialBlocks subs off) (off + dimOff subs k + d) + hierOff subs k = dimOff subs k
  | [], _, k, _, hk, _, _ => by simp at hk
  | s :: ss, off, 0, d, _, hh, hd => by
    simp only [List.getElem_cons_zero] at hh hd
    unfold specialBlocks
    simp only [hh, if_true, List.nil_append, dimOff, hierOff, totDim, totHier, List.take_zero,
      List.map_nil, List.sum_nil, Nat.add_zero]
    exact below_of_lt (off + s.nDim) _ (wf_specialBlocks ss _ _ (Nat.le_refl _)) _ (by omega)
  | s :: ss, off, k + 1, d, hk, hh, hd => by
    simp only [List.getElem_cons_succ] at hh hd
    have hk' : k < ss.length := by simpa using hk
    have ih := below_specialBlocks ss (off + s.nDim) k d hk' hh hd
    unfold specialBlocks
    rw [below_append]
    have hdim : dimOff (s :: ss) (k + 1) = s.nDim + dimOff ss k := by
      simp [dimOff, totDim]
    have hhier : hierOff (s :: ss) (k + 1) = s.nHier + hierOff ss k := by
      simp [hierOff, totHier]
    rw [hdim, hhier]
    have hre : off + (s.nDim + dimOff ss k) + d = off + s.nDim + dimOff ss k + d := by omega
    rw [hre]
    cases hs : s.kind.hierarchical with
    | true =>
      simp only [if_true, below, SubModel.nHier, hs]
      omega
    | false =>
      simp only [Bool.false_eq_true, if_false, below, SubModel.nHier, hs]
      have : min (off + s.nDim) (off + s.nDim + dimOff ss k + d) - min off (off + s.nDim + dimOff ss k + d)
          = s.nDim := by omega
      omega

theorem not_special_of_hier : ∀ (subs : List SubModel) (off k d : Nat) (hk : k < subs.length),
    (subs[k]).kind.hierarchical = true → d < (subs[k]).nDim →
    ¬ isSpecial (specialBlocks subs off) (off + dimOff subs k + d)
  | [], _, k, _, hk, _, _ => by simp at hk
  | s :: ss, off, 0, d, _, hh, hd => by
    simp only [List.getElem_cons_zero] at hh hd
    unfold specialBlocks
    simp only [hh, if_true, List.nil_append, dimOff, totDim, List.take_zero, List.map_nil,
      List.sum_nil, Nat.add_zero]
    rintro ⟨ab, hab, h1, _⟩
    have := wf_block_ge _ _ (wf_specialBlocks ss (off + s.nDim) _ (Nat.le_refl _)) ab hab
    omega
  | s :: ss, off, k + 1, d, hk, hh, hd => by
    simp only [List.getElem_cons_succ] at hh hd
    have hk' : k < ss.length := by simpa using hk
    have ih := not_special_of_hier ss (off + s.nDim) k d hk' hh hd
    have hdim : dimOff (s :: ss) (k + 1) = s.nDim + dimOff ss k := by
      simp [dimOff, totDim]
    rw [hdim]
    have hre : off + (s.nDim + dimOff ss k) + d = off + s.nDim + dimOff ss k + d := by omega
    rw [hre]
    unfold specialBlocks
    rintro ⟨ab, hab, h1, h2⟩
    rcases List.mem_append.mp hab with hab | hab
    · split at hab
      · cases hab
      · simp only [List.mem_singleton] at hab
        subst hab
        simp at h2
        omega
    · exact ih ⟨ab, hab, h1, h2⟩

/-- C02 (`_shape_eta` routes every individual-level entry to the right column): for every
    composition of sub-models, every hierarchical sub-model `k` and local dimension `d`, the
    reshaped row holds at column `dimOff k + d` the entry number `hierOff k + d` of that
    individual's block of the flat vector — "per individual one entry for every dimension that is
    neither pooled nor heterogeneous", in order. -/
theorem C02_shapeEta_routing (subs : List SubModel) (row : Nat → Option α) (k d : Nat)
    (hk : k < subs.length) (hh : (subs[k]).kind.hierarchical = true) (hd : d < (subs[k]).nDim)
    (hD : dimOff subs k + d < totDim subs) :
    shapeRow (totDim subs) (specialBlocks subs 0) row (dimOff subs k + d)
      = row (hierOff subs k + d) := by
  have hwf := wf_specialBlocks subs 0 0 (Nat.le_refl 0)
  have hns := not_special_of_hier subs 0 k d hk hh hd
  have hb := below_specialBlocks subs 0 k d hk hh hd
  simp only [Nat.zero_add] at hns hb
  rw [(shapeRow_spec (totDim subs) (specialBlocks subs 0) row hwf _ hD).1 hns]
  congr 1
  omega


/-! ## the running offsets of the composite are the sums of the predecessors' sizes -/

section offsets
variable [Add α] [Sub α] [Mul α] [Div α] [Neg α] [ScalarFns α] [HasErf α]

theorem hierGo_eq_fold (lt : Bool) (nIds nH : Nat) (params : Nat → α) (cov : Nat → Nat → α)
    (subs : List SubModel) :
    ∀ (rest pre : List SubModel) (acc : Score α) (cols : List (Nat → PsiVal α)),
      subs = pre ++ rest →
      hierGo lt nIds nH params cov rest (totTop pre nIds) ((pre.map (·.nCov)).sum) (totHier pre)
          acc cols
        = .ok ((List.range' pre.length rest.length).foldl (fun acc k =>
            let r := subEval lt nIds nH params cov (subs.getD k ⟨.pooled, 0, 0, []⟩)
              (topOff subs nIds k) (covOff subs k) (hierOff subs k)
            (Score.add acc.1 r.1, acc.2 ++ r.2)) (acc, cols))
  | [], pre, acc, cols, _ => by simp [hierGo]
  | s :: rest, pre, acc, cols, h => by
    have h' : subs = (pre ++ [s]) ++ rest := by simp [h]
    have ih := hierGo_eq_fold lt nIds nH params cov subs rest (pre ++ [s])
    have e1 : totTop (pre ++ [s]) nIds = totTop pre nIds + s.nTop nIds := by simp [totTop]
    have e2 : ((pre ++ [s]).map (·.nCov)).sum = (pre.map (·.nCov)).sum + s.nCov := by simp
    have e3 : totHier (pre ++ [s]) = totHier pre + s.nHier := by simp [totHier]
    have e4 : (pre ++ [s]).length = pre.length + 1 := by simp
    rw [e1, e2, e3, e4] at ih
    unfold hierGo
    simp only [List.length_cons, List.range'_succ, List.foldl_cons]
    have hget : subs.getD pre.length ⟨.pooled, 0, 0, []⟩ = s := by
      simp [h, List.getD_eq_getElem?_getD]
    have htake : subs.take pre.length = pre := by simp [h]
    rw [hget]
    simp only [topOff, covOff, hierOff, htake]
    exact ih _ _ h'

/-- C02 (composition): `ComposedPopulationModel` hands its `k`-th sub-model exactly the
    population parameters, covariates and individual-level columns that start at the sums of the
    predecessors' sizes; the composite score is the sum of the parts, the individual-parameter
    matrix their column-wise concatenation — for every list of sub-models. -/
theorem C02_call_offsets (lt : Bool) (nIds : Nat) (subs : List SubModel) (params : Nat → α)
    (cov : Nat → Nat → α) :
    hierGo lt nIds (totHier subs) params cov subs 0 0 0 Score.zero []
      = .ok (hierSpec lt nIds subs params cov) := by
  have := hierGo_eq_fold lt nIds (totHier subs) params cov subs subs [] Score.zero [] (by simp)
  simpa [hierSpec, totTop, totHier, List.range_eq_range'] using this

end offsets

/-! ## what each kind of dimension hands to the individual likelihoods -/

section kinds
variable [Add α] [Sub α] [Mul α] [Div α] [Neg α] [ScalarFns α]

/-- pooled: every individual receives the shared value; heterogeneous: individual `i` its own
    population-level entry; centred: its own individual-level entry; non-centred: the
    population transform of that entry (when no scale is negative) -/
theorem C02_kinds (nIds nDim : Nat) (th : Nat → Nat → Nat → α) (eta : Nat → Nat → α) (i d : Nat) :
    indiv false .pooled nIds nDim th eta i d = .val (th i 0 d) ∧
    indiv false .hetero nIds nDim th eta i d = .val (th i i d) ∧
    indiv false (.gauss true) nIds nDim th eta i d = .val (eta i d) ∧
    indiv false (.logn true) nIds nDim th eta i d = .val (eta i d) ∧
    indiv false .trunc nIds nDim th eta i d = .val (eta i d) ∧
    (iany2 nIds nDim (fun i d => ScalarFns.lt (th i 1 d) zero) = false →
      indiv false (.gauss false) nIds nDim th eta i d = .val (th i 0 d + th i 1 d * eta i d) ∧
      indiv false (.logn false) nIds nDim th eta i d
        = .val (ScalarFns.exp (th i 0 d + th i 1 d * eta i d))) := by
  refine ⟨rfl, rfl, rfl, rfl, rfl, fun h => ?_⟩
  simp [indiv, h]

/-- "every kind of population model that can be constructed can be used here":
    no kind answers `NotImplementedError` (after the repair b2a8a93) … -/
theorem C02_every_kind_usable (k : Kind) (nIds nDim : Nat) (th : Nat → Nat → Nat → α)
    (eta : Nat → Nat → α) (i d : Nat) :
    indiv false k nIds nDim th eta i d ≠ .notImpl := by
  cases k with
  | gauss c => cases c <;> simp only [indiv] <;> (try split) <;> simp
  | logn c => cases c <;> simp only [indiv] <;> (try split) <;> simp
  | trunc => simp [indiv]
  | pooled => simp [indiv]
  | hetero => simp [indiv]

/-- … whereas before it the truncated Gaussian did -/
theorem C02_truncGauss_counterexample (nIds nDim : Nat) (th : Nat → Nat → Nat → α)
    (eta : Nat → Nat → α) (i d : Nat) :
    indiv true .trunc nIds nDim th eta i d = .notImpl := rfl

end kinds

/-! ## names and IDs -/

theorem length_hierIds (nIds nBottom nTop : Nat) (ids : List String) (h : ids.length = nIds)
    (hdiv : nIds ∣ nBottom) (hpos : 0 < nIds) :
    (hierIds nIds nBottom nTop ids).length = nBottom + nTop := by
  unfold hierIds
  simp only [List.length_append, List.length_replicate, List.length_flatMap, List.map_const',
    List.sum_replicate_nat]
  rw [h, Nat.mul_div_cancel' hdiv]

/-- C02 (IDs): the published ID list has one entry per parameter; the first `n_bottom` entries
    carry the individuals' IDs in blocks of `n_bottom / n_ids`, the population-level entries carry
    `None`. -/
theorem C02_ids (nIds nBottom nTop : Nat) (ids : List String) (h : ids.length = nIds)
    (hdiv : nIds ∣ nBottom) (hpos : 0 < nIds) :
    (hierIds nIds nBottom nTop ids).length = nBottom + nTop ∧
    (∀ k, nBottom ≤ k → k < nBottom + nTop → (hierIds nIds nBottom nTop ids)[k]? = some none) ∧
    (∀ k, k < nBottom → ∃ i, (hierIds nIds nBottom nTop ids)[k]? = some (some i) ∧ i ∈ ids) := by
  have hlen : (ids.flatMap (fun i => List.replicate (nBottom / nIds) (some i))).length = nBottom := by
    simp only [List.length_flatMap, List.length_replicate, List.map_const',
      List.sum_replicate_nat]
    rw [h, Nat.mul_div_cancel' hdiv]
  refine ⟨length_hierIds nIds nBottom nTop ids h hdiv hpos, ?_, ?_⟩
  · intro k hk1 hk2
    unfold hierIds
    rw [List.getElem?_append_right (by omega), hlen]
    simp [List.getElem?_replicate]
    omega
  · intro k hk
    unfold hierIds
    rw [List.getElem?_append_left (by omega)]
    have hk' : k < (ids.flatMap (fun i => List.replicate (nBottom / nIds) (some i))).length := by omega
    rw [List.getElem?_eq_getElem hk']
    have hm := List.getElem_mem hk'
    rcases List.mem_flatMap.mp hm with ⟨i, hi, hmem⟩
    rw [List.mem_replicate] at hmem
    exact ⟨i, by rw [hmem.2], hi⟩

/-- C02 (names): one name per parameter — per individual the likelihood's names with the special
    dimensions removed, then the population model's names. -/
theorem C02_names_length (subs : List SubModel) (nIds : Nat) (llNames topNames : List String) :
    (hierNames subs nIds llNames topNames).length
      = nIds * (cutSpecial (specialBlocks subs 0) 0 llNames).length + topNames.length := by
  simp [hierNames, List.length_flatten]

/-! ## names describe positions -/

theorem totDim_cons (s : SubModel) (ss : List SubModel) : totDim (s :: ss) = s.nDim + totDim ss := by
  simp [totDim]
theorem totHier_cons (s : SubModel) (ss : List SubModel) : totHier (s :: ss) = s.nHier + totHier ss := by
  simp [totHier]

theorem cutSpecial_length {β : Type} : ∀ (subs : List SubModel) (off cur : Nat) (names : List β),
    cur ≤ off → names.length = off + totDim subs →
    (cutSpecial (specialBlocks subs off) cur names).length = (off - cur) + totHier subs
  | [], off, cur, names, h, hl => by
    simp [specialBlocks, cutSpecial, totDim, totHier] at *
    omega
  | s :: ss, off, cur, names, h, hl => by
    rw [totDim_cons] at hl
    rw [totHier_cons]
    unfold specialBlocks
    cases hs : s.kind.hierarchical with
    | true =>
      simp only [if_true, List.nil_append, SubModel.nHier, hs]
      have := cutSpecial_length ss (off + s.nDim) cur names (by omega) (by omega)
      rw [this]; omega
    | false =>
      simp only [Bool.false_eq_true, if_false, List.singleton_append, cutSpecial, SubModel.nHier, hs,
        List.length_append, List.length_take, List.length_drop]
      have := cutSpecial_length ss (off + s.nDim) (off + s.nDim) names (Nat.le_refl _) (by omega)
      rw [this]
      omega


theorem dimOff_cons_succ (s : SubModel) (ss : List SubModel) (k : Nat) :
    dimOff (s :: ss) (k + 1) = s.nDim + dimOff ss k := by simp [dimOff, totDim]
theorem hierOff_cons_succ (s : SubModel) (ss : List SubModel) (k : Nat) :
    hierOff (s :: ss) (k + 1) = s.nHier + hierOff ss k := by simp [hierOff, totHier]

theorem dimOff_add_lt_totDim : ∀ (subs : List SubModel) (k d : Nat) (hk : k < subs.length),
    d < (subs[k]).nDim → dimOff subs k + d < totDim subs
  | [], k, _, hk, _ => by simp at hk
  | s :: ss, 0, d, _, hd => by
    simp only [List.getElem_cons_zero] at hd
    simp [dimOff, totDim]; omega
  | s :: ss, k + 1, d, hk, hd => by
    simp only [List.getElem_cons_succ] at hd
    have := dimOff_add_lt_totDim ss k d (by simpa using hk) hd
    rw [dimOff_cons_succ, totDim_cons]; omega

/-- before the first special block the names are untouched -/
theorem cutSpecial_prefix {β : Type} : ∀ (blocks : List (Nat × Nat)) (cur lo j : Nat) (names : List β),
    WF lo blocks → cur ≤ lo → lo ≤ names.length → j < lo - cur →
    (cutSpecial blocks cur names)[j]? = names[cur + j]?
  | [], cur, lo, j, names, _, _, _, _ => by simp [cutSpecial]
  | (a, b) :: ss, cur, lo, j, names, hwf, hc, hlen, hj => by
    obtain ⟨h1, h2, h3⟩ := hwf
    unfold cutSpecial
    have hl : j < ((names.drop cur).take (a - cur)).length := by
      simp only [List.length_take, List.length_drop]; omega
    rw [List.getElem?_append_left hl, List.getElem?_take_of_lt (by omega), List.getElem?_drop]

/-- C02 (names describe positions): in the list of individual-level names (the individual
    likelihood's names with the special dimensions cut out), entry `hierOff k + d` is the name of
    dimension `dimOff k + d` — the same correspondence as `C02_shapeEta_routing` establishes for the
    values. -/
theorem cutSpecial_routing {β : Type} : ∀ (subs : List SubModel) (off cur k d : Nat) (names : List β)
    (hk : k < subs.length), (subs[k]).kind.hierarchical = true → d < (subs[k]).nDim →
    cur ≤ off → names.length = off + totDim subs →
    (cutSpecial (specialBlocks subs off) cur names)[(off - cur) + hierOff subs k + d]?
      = names[off + dimOff subs k + d]?
  | [], _, _, k, _, _, hk, _, _, _, _ => by simp at hk
  | s :: ss, off, cur, 0, d, names, _, hh, hd, hc, hlen => by
    simp only [List.getElem_cons_zero] at hh hd
    rw [totDim_cons] at hlen
    unfold specialBlocks
    simp only [hh, if_true, List.nil_append, hierOff, dimOff, totHier, totDim, List.take_zero,
      List.map_nil, List.sum_nil, Nat.add_zero]
    have := cutSpecial_prefix (specialBlocks ss (off + s.nDim)) cur (off + s.nDim) (off - cur + d) names
      (wf_specialBlocks ss _ _ (Nat.le_refl _)) (by omega) (by omega) (by omega)
    rw [this]
    congr 1; omega
  | s :: ss, off, cur, k + 1, d, names, hk, hh, hd, hc, hlen => by
    simp only [List.getElem_cons_succ] at hh hd
    have hk' : k < ss.length := by simpa using hk
    rw [totDim_cons] at hlen
    rw [hierOff_cons_succ, dimOff_cons_succ]
    unfold specialBlocks
    cases hs : s.kind.hierarchical with
    | true =>
      simp only [if_true, List.nil_append, SubModel.nHier, hs]
      have ih := cutSpecial_routing ss (off + s.nDim) cur k d names hk' hh hd (by omega) (by omega)
      have e1 : off - cur + (s.nDim + hierOff ss k) + d = off + s.nDim - cur + hierOff ss k + d := by omega
      have e2 : off + (s.nDim + dimOff ss k) + d = off + s.nDim + dimOff ss k + d := by omega
      rw [e1, e2]; exact ih
    | false =>
      simp only [Bool.false_eq_true, if_false, List.singleton_append, cutSpecial, SubModel.nHier, hs,
        Nat.zero_add]
      have hl : ((names.drop cur).take (off - cur)).length = off - cur := by
        simp only [List.length_take, List.length_drop]; omega
      rw [List.getElem?_append_right (by omega), hl]
      have ih := cutSpecial_routing ss (off + s.nDim) (off + s.nDim) k d names hk' hh hd
        (Nat.le_refl _) (by omega)
      have e1 : off - cur + hierOff ss k + d - (off - cur) = off + s.nDim - (off + s.nDim) + hierOff ss k + d := by omega
      have e2 : off + (s.nDim + dimOff ss k) + d = off + s.nDim + dimOff ss k + d := by omega
      rw [e1, e2]; exact ih

/-- C02 ("the name and ID published for position k describe exactly the quantity that position k
    controls"), individual-level block: for individual `i < n_ids`, hierarchical sub-model `k` and
    local dimension `d`, position `i·n_hier + hierOff k + d` of the published name list carries
    the individual likelihood's name of dimension `dimOff k + d` — the dimension to which
    `C02_shapeEta_routing` routes the VALUE at that position; population-level names follow. -/
theorem C02_name_of_position (subs : List SubModel) (nIds : Nat) (llNames topNames : List String)
    (hll : llNames.length = totDim subs) (i k d : Nat) (hi : i < nIds)
    (hk : k < subs.length) (hh : (subs[k]).kind.hierarchical = true) (hd : d < (subs[k]).nDim) :
    (hierNames subs nIds llNames topNames)[i * totHier subs + (hierOff subs k + d)]?
      = llNames[dimOff subs k + d]? := by
  have hcut := cutSpecial_length subs 0 0 llNames (Nat.le_refl 0) (by omega)
  simp only [Nat.sub_self, Nat.zero_add] at hcut
  have hr := cutSpecial_routing subs 0 0 k d llNames hk hh hd (Nat.le_refl 0) (by omega)
  simp only [Nat.sub_self, Nat.zero_add] at hr
  have hpos : hierOff subs k + d < totHier subs := by
    -- the routed index lies inside the cut list because the right-hand side is in range
    have hD := dimOff_add_lt_totDim subs k d hk hd
    rcases Nat.lt_or_ge (hierOff subs k + d) (totHier subs) with h | h
    · exact h
    · exfalso
      have h1 : (cutSpecial (specialBlocks subs 0) 0 llNames)[hierOff subs k + d]? = none := by
        rw [List.getElem?_eq_none_iff]; omega
      rw [h1] at hr
      have h2 : llNames[dimOff subs k + d]? ≠ none := by
        rw [Ne, List.getElem?_eq_none_iff]; omega
      exact h2 hr.symm
  unfold hierNames
  generalize hrow : cutSpecial (specialBlocks subs 0) 0 llNames = row at hcut hr
  have hflat : ∀ (n : Nat) (i c : Nat), i < n → c < row.length →
      ((List.replicate n row).flatten)[i * row.length + c]? = row[c]? := by
    intro n
    induction n with
    | zero => intro i c hi; omega
    | succ m ih =>
      intro i c hi hc
      rw [List.replicate_succ, List.flatten_cons]
      cases i with
      | zero => simp [List.getElem?_append_left hc]
      | succ j =>
        rw [List.getElem?_append_right (by rw [Nat.succ_mul]; omega)]
        have : (j + 1) * row.length + c - row.length = j * row.length + c := by
          rw [Nat.succ_mul]; omega
        rw [this]
        exact ih j c (by omega) hc
  have hin : i * totHier subs + (hierOff subs k + d) < ((List.replicate nIds row).flatten).length := by
    simp only [List.length_flatten, List.map_replicate, List.sum_replicate_nat, hcut]
    calc i * totHier subs + (hierOff subs k + d) < i * totHier subs + totHier subs := by omega
      _ = (i + 1) * totHier subs := by rw [Nat.succ_mul]
      _ ≤ nIds * totHier subs := Nat.mul_le_mul_right _ hi
  rw [List.getElem?_append_left hin]
  have := hflat nIds i (hierOff subs k + d) hi (by omega)
  rw [hcut] at this
  rw [this, hr]

end ChiModel

/-! ## population-level names: defaults, renaming, reset (model: `ChiModel/TopNames.lean`) -/

namespace ChiModel
namespace TopNames

/-- blocks of `m` equal entries: entry `p·m + d` is the `p`-th block's value -/
theorem get_flatMap_replicate {β γ : Type} (g : β → γ) (m : Nat) : ∀ (l : List β) (p d : Nat), d < m →
    (l.flatMap (fun x => List.replicate m (g x)))[p * m + d]? = (l[p]?).map g
  | [], p, d, _ => by simp
  | x :: xs, 0, d, hd => by
    simp only [List.flatMap_cons, Nat.zero_mul, Nat.zero_add, List.getElem?_cons_zero, Option.map_some]
    rw [List.getElem?_append_left (by simpa using hd)]
    simp [List.getElem?_replicate, hd]
  | x :: xs, p + 1, d, hd => by
    simp only [List.flatMap_cons, List.getElem?_cons_succ]
    rw [List.getElem?_append_right (by simp [Nat.succ_mul]; omega)]
    have : (p + 1) * m + d - (List.replicate m (g x)).length = p * m + d := by
      simp [Nat.succ_mul]; omega
    rw [this]
    exact get_flatMap_replicate g m xs p d hd

theorem length_flatMap_replicate {β γ : Type} (g : β → γ) (m : Nat) : ∀ (l : List β),
    (l.flatMap (fun x => List.replicate m (g x))).length = l.length * m
  | [] => by simp
  | x :: xs => by
    simp only [List.flatMap_cons, List.length_append, List.length_replicate, List.length_cons,
      length_flatMap_replicate g m xs, Nat.succ_mul]
    omega

theorem length_defaultRaw (k : Kind) (nDim nIds : Nat) :
    (defaultRaw k nDim nIds).length = k.perDim nIds * nDim := by
  cases k with
  | hetero => simp only [defaultRaw, Kind.perDim]; rw [length_flatMap_replicate]; simp
  | _ => simp [defaultRaw, Kind.perDim, Nat.two_mul]

/-- the raw default name at `p·nDim + d` is the label of row `p` -/
theorem defaultRaw_get (k : Kind) (nDim nIds p d : Nat) (hp : p < k.perDim nIds) (hd : d < nDim) :
    (defaultRaw k nDim nIds)[p * nDim + d]? = some (label k p) := by
  have two : ∀ (a b : String), p < 2 →
      (List.replicate nDim a ++ List.replicate nDim b)[p * nDim + d]? = some (if p = 0 then a else b) := by
    intro a b h2
    rcases p with _ | _ | p
    · simp [List.getElem?_append_left, List.getElem?_replicate, hd]
    · rw [List.getElem?_append_right (by simp)]
      simp [List.getElem?_replicate, hd]
    · omega
  cases k with
  | gauss c => exact two _ _ (by simpa [Kind.perDim] using hp)
  | logn c => exact two _ _ (by simpa [Kind.perDim] using hp)
  | trunc => exact two _ _ (by simpa [Kind.perDim] using hp)
  | pooled =>
    have : p = 0 := by simpa [Kind.perDim] using hp
    subst this
    simp [defaultRaw, label, List.getElem?_replicate, hd]
  | hetero =>
    simp only [defaultRaw, label]
    rw [get_flatMap_replicate idLabel nDim _ p d hd]
    have : p < nIds := by simpa [Kind.perDim] using hp
    simp [List.getElem?_range, this]

theorem length_withDims (nDim : Nat) (dims raw : List String) : (withDims nDim dims raw).length = raw.length := by
  simp [withDims]

theorem withDims_get (nDim : Nat) (dims raw : List String) (j : Nat) (r : String)
    (hr : raw[j]? = some r) :
    (withDims nDim dims raw)[j]? = some (r ++ " " ++ dims.getD (j % nDim) "") := by
  have hj : j < raw.length := by
    rcases Nat.lt_or_ge j raw.length with h | h
    · exact h
    · rw [List.getElem?_eq_none_iff.mpr h] at hr; cases hr
  have hg : raw[j] = r := by
    have := List.getElem?_eq_getElem hj
    rw [hr] at this; exact (Option.some.inj this).symm
  simp [withDims, List.getElem?_map, List.getElem?_range, hj, List.getD_eq_getElem?_getD, hr, hg]

theorem length_withCovs (nCov : Nat) (raw : List String) : (withCovs nCov raw).length = raw.length := by
  simp [withCovs]

theorem withCovs_get (nCov : Nat) (raw : List String) (j : Nat) (r : String) (hr : raw[j]? = some r) :
    (withCovs nCov raw)[j]? = some (r ++ " " ++ covLabel (j % nCov)) := by
  have hj : j < raw.length := by
    rcases Nat.lt_or_ge j raw.length with h | h
    · exact h
    · rw [List.getElem?_eq_none_iff.mpr h] at hr; cases hr
  have hg : raw[j] = r := by
    have := List.getElem?_eq_getElem hj
    rw [hr] at this; exact (Option.some.inj this).symm
  simp [withCovs, List.getElem?_map, List.getElem?_range, hj, List.getD_eq_getElem?_getD, hr, hg]


/-! ### one sub-model -/

theorem reset_basePub (s : SubModel) (st : St) :
    (st.reset s).basePub s = withDims s.nDim st.dims (defaultRaw s.kind s.nDim st.nIds) := by
  simp [St.reset, St.refreshCov, St.basePub]

theorem reset_covRaw (s : SubModel) (st : St) :
    (st.reset s).covRaw = covRawOf s.nDim s.nCov s.sel ((st.reset s).basePub s) := by
  simp [St.reset, St.refreshCov, St.basePub]

theorem length_covRawOf (nDim nCov : Nat) (sel : List (Nat × Nat)) (bp : List String) :
    (covRawOf nDim nCov sel bp).length = sel.length * nCov := by
  unfold covRawOf
  exact length_flatMap_replicate (fun pd : Nat × Nat => bp.getD (pd.1 * nDim + pd.2) "") nCov sel

theorem length_reset_pub (s : SubModel) (st : St) : ((st.reset s).pub s).length = s.nTop st.nIds := by
  unfold St.pub
  rw [List.length_append, length_withCovs, reset_covRaw, length_covRawOf, reset_basePub, length_withDims,
    length_defaultRaw]
  simp [SubModel.nTop, SubModel.nPop, Nat.mul_comm]

theorem idx_lt (a b p d : Nat) (hp : p < a) (hd : d < b) : p * b + d < a * b := by
  calc p * b + d < p * b + b := by omega
    _ = (p + 1) * b := by rw [Nat.succ_mul]
    _ ≤ a * b := Nat.mul_le_mul_right _ hp

theorem reset_basePub_get (s : SubModel) (st : St) (p d : Nat) (hp : p < s.kind.perDim st.nIds)
    (hd : d < s.nDim) :
    ((st.reset s).basePub s)[p * s.nDim + d]? = some (label s.kind p ++ " " ++ st.dims.getD d "") := by
  rw [reset_basePub, withDims_get _ _ _ _ _ (defaultRaw_get s.kind s.nDim st.nIds p d hp hd)]
  rw [Nat.mul_add_mod_of_lt hd]

/-- default names of ONE sub-model, population parameters: position `p·n_dim + d` — the entry that
    `SubModel.th` reads as row `p` (location / scale / the pooled value / INDIVIDUAL `p`), dimension `d` —
    is called `<label of row p> <name of dimension d>` -/
theorem reset_pub_get (s : SubModel) (st : St) (p d : Nat) (hp : p < s.kind.perDim st.nIds)
    (hd : d < s.nDim) :
    ((st.reset s).pub s)[p * s.nDim + d]? = some (label s.kind p ++ " " ++ st.dims.getD d "") := by
  unfold St.pub
  rw [List.getElem?_append_left]
  · exact reset_basePub_get s st p d hp hd
  · rw [reset_basePub, length_withDims, length_defaultRaw]
    exact idx_lt _ _ p d hp hd

/-- default names of ONE sub-model, covariate coefficients: the coefficient of covariate `c` for the
    `k`-th selected population parameter `(p, d)` — the entry `SubModel.th` reads as
    `top (nPop + k·nCov + c)` — is called `<name of that population parameter> Cov. c+1` -/
theorem reset_pub_cov_get (s : SubModel) (st : St) (k c p d : Nat) (hk : s.sel[k]? = some (p, d))
    (hc : c < s.nCov) (hp : p < s.kind.perDim st.nIds) (hd : d < s.nDim) :
    ((st.reset s).pub s)[s.nPop st.nIds + (k * s.nCov + c)]?
      = some (label s.kind p ++ " " ++ st.dims.getD d "" ++ " " ++ covLabel c) := by
  unfold St.pub
  have hl : ((st.reset s).basePub s).length = s.nPop st.nIds := by
    rw [reset_basePub, length_withDims, length_defaultRaw]; rfl
  rw [List.getElem?_append_right (by omega), hl, Nat.add_sub_cancel_left]
  have hraw : ((st.reset s).covRaw)[k * s.nCov + c]?
      = some (label s.kind p ++ " " ++ st.dims.getD d "") := by
    rw [reset_covRaw]
    unfold covRawOf
    rw [get_flatMap_replicate
      (fun pd : Nat × Nat => ((st.reset s).basePub s).getD (pd.1 * s.nDim + pd.2) "") s.nCov s.sel k c hc, hk]
    simp only [Option.map_some, List.getD_eq_getElem?_getD, reset_basePub_get s st p d hp hd,
      Option.getD_some]
  rw [withCovs_get _ _ _ _ hraw, Nat.mul_add_mod_of_lt hc]

/-- renaming: position `j` carries the `j`-th name the user gave (plus the dimension / covariate suffix) -/
theorem rename_pub_get (s : SubModel) (st : St) (names : List String)
    (hlen : names.length = st.raw.length + st.covRaw.length) (j : Nat) :
    (j < st.raw.length →
      ((st.rename names).pub s)[j]? = some (names.getD j "" ++ " " ++ st.dims.getD (j % s.nDim) "")) ∧
    (j < st.covRaw.length →
      ((st.rename names).pub s)[st.raw.length + j]?
        = some (names.getD (st.raw.length + j) "" ++ " " ++ covLabel (j % s.nCov))) := by
  have hbl : ((st.rename names).basePub s).length = st.raw.length := by
    simp [St.basePub, St.rename, length_withDims]; omega
  constructor
  · intro hj
    unfold St.pub
    rw [List.getElem?_append_left (by omega)]
    have : (names.take st.raw.length)[j]? = some (names.getD j "") := by
      rw [List.getElem?_take_of_lt hj, List.getD_eq_getElem?_getD,
        List.getElem?_eq_getElem (by omega : j < names.length)]
      simp
    simpa [St.basePub, St.rename] using withDims_get s.nDim st.dims _ j _ this
  · intro hj
    unfold St.pub
    rw [List.getElem?_append_right (by omega), hbl, Nat.add_sub_cancel_left]
    have : (names.drop st.raw.length)[j]? = some (names.getD (st.raw.length + j) "") := by
      rw [List.getElem?_drop, List.getD_eq_getElem?_getD,
        List.getElem?_eq_getElem (by omega : st.raw.length + j < names.length)]
      simp
    simpa [St.rename] using withCovs_get s.nCov _ j _ this


/-! ### the composite -/

theorem topOff_zero (subs : List SubModel) (nIds : Nat) : topOff subs nIds 0 = 0 := by
  simp [topOff, totTop]
theorem topOff_cons_succ (s : SubModel) (ss : List SubModel) (nIds k : Nat) :
    topOff (s :: ss) nIds (k + 1) = s.nTop nIds + topOff ss nIds k := by
  simp [topOff, totTop]

/-- after a reset of everything, the names of sub-model `k` start at `topOff k` — the sum of its
    predecessors' parameter counts, the same offset at which `C02_call_offsets` places its VALUES -/
theorem pubAll_resetAll_get (nIds : Nat) : ∀ (subs : List SubModel) (sts : List St) (k j : Nat) (st : St)
    (hk : k < subs.length), (∀ st' ∈ sts, st'.nIds = nIds) → sts[k]? = some st → j < (subs[k]).nTop nIds →
    (pubAll subs (resetAll subs sts))[topOff subs nIds k + j]? = ((st.reset (subs[k])).pub (subs[k]))[j]?
  | [], _, k, _, _, hk, _, _, _ => by simp at hk
  | s :: ss, [], k, _, _, _, _, hst, _ => by simp at hst
  | s :: ss, st0 :: sts, 0, j, st, _, hn, hst, hj => by
    simp only [List.getElem?_cons_zero, Option.some.injEq] at hst
    subst hst
    simp only [List.getElem_cons_zero] at hj ⊢
    have h0 := hn st0 (by simp)
    rw [topOff_zero, Nat.zero_add]
    simp only [resetAll, pubAll]
    rw [List.getElem?_append_left (by rw [length_reset_pub, h0]; exact hj)]
  | s :: ss, st0 :: sts, k + 1, j, st, hk, hn, hst, hj => by
    simp only [List.getElem?_cons_succ] at hst
    simp only [List.getElem_cons_succ] at hj ⊢
    have h0 := hn st0 (by simp)
    simp only [resetAll, pubAll]
    rw [topOff_cons_succ, List.getElem?_append_right (by rw [length_reset_pub, h0]; omega), length_reset_pub, h0]
    have : s.nTop nIds + topOff ss nIds k + j - s.nTop nIds = topOff ss nIds k + j := by omega
    rw [this]
    exact pubAll_resetAll_get nIds ss sts k j st (by simpa using hk)
      (fun st' h => hn st' (by simp [h])) hst hj

/-! ### what a reset gives does not depend on the names set before -/

/-- what a reset reads: the number of individuals and the dimension names -/
def frame (sts : List St) : List (Nat × List String) := sts.map (fun st => (st.nIds, st.dims))

theorem resetAll_of_frame : ∀ (subs : List SubModel) (a b : List St), frame a = frame b →
    resetAll subs a = resetAll subs b
  | [], a, b, _ => by cases a <;> cases b <;> simp [resetAll]
  | s :: ss, [], [], _ => rfl
  | s :: ss, [], _ :: _, h => by simp [frame] at h
  | s :: ss, _ :: _, [], h => by simp [frame] at h
  | s :: ss, x :: xs, y :: ys, h => by
    simp only [frame, List.map_cons, List.cons.injEq, Prod.mk.injEq] at h
    obtain ⟨⟨h1, h2⟩, h3⟩ := h
    simp only [resetAll, List.cons.injEq]
    refine ⟨?_, resetAll_of_frame ss xs ys h3⟩
    simp [St.reset, St.refreshCov, St.basePub, h1, h2]

theorem frame_renameAll : ∀ (sts : List St) (names : List String), frame (renameAll sts names) = frame sts
  | [], _ => rfl
  | st :: sts, names => by
    simp only [renameAll, frame, List.map_cons, List.cons.injEq]
    exact ⟨by simp [St.rename], frame_renameAll sts _⟩

theorem frame_resetAll : ∀ (subs : List SubModel) (sts : List St), subs.length = sts.length →
    frame (resetAll subs sts) = frame sts
  | [], [], _ => rfl
  | [], _ :: _, h => by simp at h
  | _ :: _, [], h => by simp at h
  | s :: ss, st :: sts, h => by
    simp only [resetAll, frame, List.map_cons, List.cons.injEq]
    exact ⟨by simp [St.reset, St.refreshCov], frame_resetAll ss sts (by simpa using h)⟩

theorem frame_resetSub : ∀ (k : Nat) (subs : List SubModel) (sts : List St),
    frame (resetSub k subs sts) = frame sts
  | 0, [], sts => by simp [resetSub]
  | 0, s :: ss, [] => by simp [resetSub]
  | 0, s :: ss, st :: sts => by simp [resetSub, frame, St.reset, St.refreshCov]
  | k + 1, [], sts => by simp [resetSub]
  | k + 1, s :: ss, [] => by simp [resetSub]
  | k + 1, s :: ss, st :: sts => by
    simp only [resetSub, frame, List.map_cons, List.cons.injEq, true_and]
    exact frame_resetSub k ss sts

/-- the calls that touch names only (not the dimension names, not the number of individuals) -/
def Op.namesOnly : Op → Bool
  | .reset | .rename _ | .resetSub _ | .renameFree _ _ => true
  | _ => false

theorem frame_step (subs : List SubModel) (sts sts' : List St) (op : Op) (hlen : subs.length = sts.length)
    (hop : op.namesOnly = true) (h : step subs sts op = .ok sts') : frame sts' = frame sts := by
  cases op with
  | reset => simp only [step, Except.ok.injEq] at h; subst h; exact frame_resetAll subs sts hlen
  | rename names =>
    simp only [step] at h
    split at h
    · cases h
    · simp only [Except.ok.injEq] at h; subst h; exact frame_renameAll sts names
  | setDims d => simp [Op.namesOnly] at hop
  | setNIds n => simp [Op.namesOnly] at hop
  | resetSub k => simp only [step, Except.ok.injEq] at h; subst h; exact frame_resetSub k subs sts
  | renameFree mask names =>
    simp only [step] at h
    split at h
    · cases h
    · simp only [Except.ok.injEq] at h; subst h; exact frame_renameAll sts _

theorem length_of_frame (a b : List St) (h : frame a = frame b) : a.length = b.length := by
  have := congrArg List.length h
  simpa [frame] using this

theorem frame_run (subs : List SubModel) : ∀ (ops : List Op) (sts sts' : List St),
    subs.length = sts.length → (∀ op ∈ ops, op.namesOnly = true) → run subs sts ops = .ok sts' →
    frame sts' = frame sts
  | [], sts, sts', _, _, h => by simp only [run, Except.ok.injEq] at h; rw [h]
  | op :: ops, sts, sts', hlen, hops, h => by
    simp only [run] at h
    cases hs : step subs sts op with
    | error e => rw [hs] at h; cases h
    | ok mid =>
      rw [hs] at h
      have hf := frame_step subs sts mid op hlen (hops op (by simp)) hs
      have := frame_run subs ops mid sts' (by rw [hlen]; exact (length_of_frame _ _ hf).symm)
        (fun o ho => hops o (by simp [ho])) h
      rw [this, hf]


end TopNames

open TopNames

/-! ### C02: the names published for the population-level positions -/

/-- C02 ("the name published for position k describes exactly the quantity that position k controls"),
    population-level block, default names. After `set_parameter_names(None)` on a population model that
    knows `nIds` individuals, the name at offset `topOff k + p·n_dim + d` — the entry that `SubModel.th`
    (hence `hierCall`, `C02_call_offsets`) reads as row `p`, dimension `d` of sub-model `k` — is
    `<label of row p> <name of dimension d>`, where the label of a HETEROGENEOUS model's row `p` is
    `ID p+1`: individual by individual, not dimension by dimension. -/
theorem C02_default_top_name_of_position (subs : List SubModel) (sts : List St) (nIds k p d : Nat) (st : St)
    (hk : k < subs.length) (hn : ∀ st' ∈ sts, st'.nIds = nIds) (hst : sts[k]? = some st)
    (hp : p < (subs[k]).kind.perDim nIds) (hd : d < (subs[k]).nDim) :
    (pubAll subs (resetAll subs sts))[topOff subs nIds k + (p * (subs[k]).nDim + d)]?
      = some (label (subs[k]).kind p ++ " " ++ st.dims.getD d "") := by
  have hnst : st.nIds = nIds := hn st (List.mem_of_getElem? hst)
  have hj : p * (subs[k]).nDim + d < (subs[k]).nTop nIds := by
    have := idx_lt _ _ p d hp hd
    simp only [SubModel.nTop, SubModel.nPop]; omega
  rw [pubAll_resetAll_get nIds subs sts k _ st hk hn hst hj]
  exact reset_pub_get (subs[k]) st p d (by rw [hnst]; exact hp) hd

/-- … and the coefficient of covariate `c` for the `m`-th selected population parameter `(p, d)` of
    sub-model `k` (read by `SubModel.th` at `nPop + m·nCov + c`) is called after that parameter. -/
theorem C02_default_cov_name_of_position (subs : List SubModel) (sts : List St) (nIds k m c p d : Nat) (st : St)
    (hk : k < subs.length) (hn : ∀ st' ∈ sts, st'.nIds = nIds) (hst : sts[k]? = some st)
    (hm : (subs[k]).sel[m]? = some (p, d)) (hc : c < (subs[k]).nCov)
    (hp : p < (subs[k]).kind.perDim nIds) (hd : d < (subs[k]).nDim) :
    (pubAll subs (resetAll subs sts))[topOff subs nIds k + ((subs[k]).nPop nIds + (m * (subs[k]).nCov + c))]?
      = some (label (subs[k]).kind p ++ " " ++ st.dims.getD d "" ++ " " ++ covLabel c) := by
  have hnst : st.nIds = nIds := hn st (List.mem_of_getElem? hst)
  have hml : m < (subs[k]).sel.length := by
    rcases Nat.lt_or_ge m (subs[k]).sel.length with h | h
    · exact h
    · rw [List.getElem?_eq_none_iff.mpr h] at hm; cases hm
  have hj : (subs[k]).nPop nIds + (m * (subs[k]).nCov + c) < (subs[k]).nTop nIds := by
    have := idx_lt _ _ m c hml hc
    simp only [SubModel.nTop]
    rw [Nat.mul_comm (subs[k]).nCov]; omega
  rw [pubAll_resetAll_get nIds subs sts k _ st hk hn hst hj, ← hnst]
  exact reset_pub_cov_get (subs[k]) st m c p d hm hc (by rw [hnst]; exact hp) hd

/-- C02, heterogeneous dimensions ("each individual its own population-level entry"): the entry that
    individual `i` reads for dimension `d` is `top (i·n_dim + d)`, and that entry's default name is
    `ID i+1 <dimension d>`. -/
theorem C02_hetero_name_matches_value {α : Type} [Add α] [Sub α] [Mul α] [Div α] [Neg α] [ScalarFns α]
    (s : SubModel) (hk : s.kind = .hetero) (hc : s.nCov = 0) (st : St) (top : Nat → α) (cov : Nat → Nat → α)
    (i d : Nat) (hi : i < st.nIds) (hd : d < s.nDim) :
    s.th st.nIds top cov i i d = top (i * s.nDim + d) ∧
    ((st.reset s).pub s)[i * s.nDim + d]? = some (idLabel i ++ " " ++ st.dims.getD d "") := by
  refine ⟨by simp [SubModel.th, hc], ?_⟩
  have := reset_pub_get s st i d (by rw [hk]; simpa [Kind.perDim] using hi) hd
  rw [this, hk]; rfl

/-- C02 (call histories): whatever names were set, reset or set through a reduced wrapper before — as
    long as the dimension names and the number of individuals were left alone — a reset gives the names a
    reset of the original model gives, i.e. those of `C02_default_top_name_of_position`. -/
theorem C02_reset_forgets_naming_history (subs : List SubModel) (sts sts' : List St) (ops : List TopNames.Op)
    (hlen : subs.length = sts.length) (hops : ∀ op ∈ ops, op.namesOnly = true)
    (h : run subs sts ops = .ok sts') :
    resetAll subs sts' = resetAll subs sts :=
  resetAll_of_frame subs sts' sts (frame_run subs ops sts sts' hlen hops h)

/-- C02 (renaming): after `set_parameter_names(names)` on a sub-model, position `j` carries the `j`-th
    name the user gave, followed by the name of the dimension (`j mod n_dim`) resp. covariate
    (`j mod n_cov`) it belongs to. -/
theorem C02_rename_name_of_position (s : SubModel) (st : St) (names : List String)
    (hlen : names.length = st.raw.length + st.covRaw.length) (j : Nat) :
    (j < st.raw.length →
      ((st.rename names).pub s)[j]? = some (names.getD j "" ++ " " ++ st.dims.getD (j % s.nDim) "")) ∧
    (j < st.covRaw.length →
      ((st.rename names).pub s)[st.raw.length + j]?
        = some (names.getD (st.raw.length + j) "" ++ " " ++ covLabel (j % s.nCov))) :=
  rename_pub_get s st names hlen j

/-- C02 (`set_n_ids`): a heterogeneous model that is told a different number of individuals publishes
    the default names for that number (names set before are dropped); told the same number, or any
    other kind of model, it keeps its names. -/
theorem C02_setNIds_names (s : SubModel) (st : St) (n : Nat) :
    (s.kind = .hetero → n ≠ st.nIds → st.setNIds s n = St.reset s { st with nIds := n }) ∧
    ((s.kind ≠ .hetero ∨ n = st.nIds) → st.setNIds s n = st) := by
  constructor
  · intro hk hn
    simp [St.setNIds, St.reset, hk, hn]
  · intro h
    rcases h with h | h
    · simp [St.setNIds, h]
    · simp [St.setNIds, h]

/-- non-vacuity / the layout that is NOT published: two individuals, dimensions `b`, `S` -/
example : (St.pub ⟨.hetero, 2, 0, []⟩ (St.reset ⟨.hetero, 2, 0, []⟩ ⟨2, ["b", "S"], ["x", "y", "z", "w"], []⟩))
    = ["ID 1 b", "ID 1 S", "ID 2 b", "ID 2 S"] := by decide
example : (St.pub ⟨.hetero, 2, 0, []⟩ ⟨2, ["b", "S"], ["ID 1", "ID 2", "ID 1", "ID 2"], []⟩)
    ≠ (St.pub ⟨.hetero, 2, 0, []⟩ (St.reset ⟨.hetero, 2, 0, []⟩ ⟨2, ["b", "S"], [], []⟩)) := by decide

end ChiModel
