import ChiModel.Mechanistic
import Mathlib.Data.List.Sort
import Mathlib.Data.List.Perm.Basic
import Mathlib.Data.List.Range
import Mathlib.Order.Basic
import Mathlib.Data.String.Basic
import Mathlib.Analysis.Calculus.Deriv.Basic

/-!
# C09 — simulation returns the ODE solution and its derivatives in parameter order

The solution of the initial-value problem is a *parameter* (`sol : Solve τ α T`) of every theorem:
what is proved is that chi hands the solver the i-th vector entry under the i-th published
parameter name, requests the sensitivities of exactly the (free) published parameters in the
published order, and returns the logged variables in the published output order — for every model
declaration (any number of states / constants / intermediary variables in any declaration order),
every parameter vector, and every `argsort` that returns *a* sorting permutation.
-/
set_option linter.unusedSectionVars false
set_option linter.unusedSimpArgs false
set_option linter.unusedVariables false
namespace ChiModel.Mech

variable {τ : Type} [LinearOrder τ] [Inhabited τ] {α : Type}

/-- the comparison chi's `sorted` / `np.argsort` use on names -/
abbrev ltD {κ : Type} [LinearOrder κ] : κ → κ → Bool := fun a b => decide (a < b)

/-- `a` is *an* argsort of `l`: a permutation of the indices whose image is sorted.
    No stability and no particular algorithm assumed. -/
def IsArgsort {κ : Type} [LinearOrder κ] [Inhabited κ] (l : List κ) (a : List Nat) : Prop :=
  a.Perm (List.range l.length) ∧ (a.map (l[·]!)).Pairwise (· ≤ ·)

/-! ## sorting lemmas -/
section sorting
variable {β κ : Type} [LinearOrder κ]

theorem perm_insertBy (lt : β → β → Bool) (x : β) (l : List β) :
    (insertBy lt x l).Perm (x :: l) := by
  induction l with
  | nil => simp [insertBy]
  | cons y ys ih =>
    unfold insertBy
    split
    · exact List.Perm.refl _
    · exact (List.Perm.cons y ih).trans (List.Perm.swap x y ys)

theorem perm_sortBy (lt : β → β → Bool) (l : List β) : (sortBy lt l).Perm l := by
  induction l with
  | nil => simp [sortBy]
  | cons x xs ih =>
    have : sortBy lt (x :: xs) = insertBy lt x (sortBy lt xs) := rfl
    rw [this]
    exact (perm_insertBy lt x _).trans (List.Perm.cons x ih)

/-- a comparator that compares keys in a linear order -/
def KeyLt (lt : β → β → Bool) (key : β → κ) : Prop := ∀ p q, lt p q = decide (key p < key q)

theorem sorted_insertBy (lt : β → β → Bool) (key : β → κ) (hk : KeyLt lt key) (x : β)
    (l : List β) (h : l.Pairwise (fun p q => key p ≤ key q)) :
    (insertBy lt x l).Pairwise (fun p q => key p ≤ key q) := by
  induction l with
  | nil => simp [insertBy]
  | cons y ys ih =>
    unfold insertBy
    rw [List.pairwise_cons] at h
    split
    · rename_i hlt
      have hlt' : key x < key y := by simpa [hk x y] using hlt
      refine List.pairwise_cons.mpr ⟨?_, List.pairwise_cons.mpr h⟩
      intro a ha
      rcases List.mem_cons.mp ha with rfl | ha
      · exact le_of_lt hlt'
      · exact le_trans (le_of_lt hlt') (h.1 a ha)
    · rename_i hnlt
      have hyx : key y ≤ key x := by
        have : ¬ key x < key y := by simpa [hk x y] using hnlt
        exact not_lt.mp this
      refine List.pairwise_cons.mpr ⟨?_, ih h.2⟩
      intro a ha
      rcases List.mem_cons.mp ((perm_insertBy lt x ys).mem_iff.mp ha) with rfl | ha
      · exact hyx
      · exact h.1 a ha

theorem sorted_sortBy (lt : β → β → Bool) (key : β → κ) (hk : KeyLt lt key) (l : List β) :
    (sortBy lt l).Pairwise (fun p q => key p ≤ key q) := by
  induction l with
  | nil => simp [sortBy]
  | cons x xs ih =>
    have : sortBy lt (x :: xs) = insertBy lt x (sortBy lt xs) := rfl
    rw [this]
    exact sorted_insertBy lt key hk x _ ih

theorem sortBy_names_sorted (l : List κ) : (sortBy ltD l).Pairwise (· ≤ ·) :=
  sorted_sortBy ltD id (fun _ _ => rfl) l

/-- two sorted arrangements of the same duplicate-free-or-not multiset coincide -/
theorem sorted_perm_unique (l₁ l₂ : List κ) (hp : l₁.Perm l₂) (h₁ : l₁.Pairwise (· ≤ ·))
    (h₂ : l₂.Pairwise (· ≤ ·)) : l₁ = l₂ :=
  hp.eq_of_pairwise' h₁ h₂

/-- Python's `sorted` of distinct names is strictly increasing -/
theorem sortBy_strict (l : List κ) (hnd : l.Nodup) : (sortBy ltD l).Pairwise (· < ·) := by
  have hs := sortBy_names_sorted l
  have hnd' : (sortBy ltD l).Nodup := (perm_sortBy ltD l).nodup_iff.mpr hnd
  exact (List.Pairwise.and hs hnd').imp (fun h => lt_of_le_of_ne h.1 h.2)

end sorting

/-! ## the executable argsort is an argsort (the hypotheses below are satisfiable) -/

theorem zipIdx_snd_range {β : Type} (l : List β) : l.zipIdx.map (·.2) = List.range l.length := by
  apply List.ext_getElem
  · simp
  · intro i h1 h2; simp

theorem zipIdx_key {κ' : Type} [Inhabited κ'] (l : List κ') (p : κ' × Nat) (hp : p ∈ l.zipIdx) :
    l[p.2]! = p.1 := by
  obtain ⟨x, i⟩ := p
  rw [List.mem_zipIdx_iff_getElem?] at hp
  simp only at hp
  simp [getElem!_def, hp]

theorem argsortBy_isArgsort {κ : Type} [LinearOrder κ] [Inhabited κ] (l : List κ) :
    IsArgsort l (argsortBy ltD l) := by
  constructor
  · unfold argsortBy
    have := (perm_sortBy (fun p q : κ × Nat => ltD p.1 q.1) l.zipIdx).map (·.2)
    rwa [zipIdx_snd_range] at this
  · unfold argsortBy
    rw [List.map_map]
    have hs := sorted_sortBy (fun p q : κ × Nat => ltD p.1 q.1) (fun p => p.1)
      (fun _ _ => rfl) l.zipIdx
    rw [List.pairwise_map]
    refine hs.imp_of_mem ?_
    intro a b ha hb hab
    have ha' := (perm_sortBy _ l.zipIdx).mem_iff.mp ha
    have hb' := (perm_sortBy _ l.zipIdx).mem_iff.mp hb
    simp only [Function.comp]
    rw [zipIdx_key l a ha', zipIdx_key l b hb']
    exact hab

/-! ## `np.argsort(np.argsort(names))` is the inverse of the sorting permutation -/

/-- argsort of a permutation of `0..n-1` is its inverse: `srt[inv[j]] = j`. -/
theorem argsort_perm_inverse (srt inv : List Nat) (n : Nat)
    (hs : srt.Perm (List.range n)) (hi : IsArgsort srt inv) :
    inv.map (srt[·]!) = List.range n := by
  obtain ⟨hp, hsorted⟩ := hi
  have hlen : srt.length = n := by simpa using hs.length_eq
  rw [hlen] at hp
  have h1 : (inv.map (srt[·]!)).Perm ((List.range n).map (srt[·]!)) := hp.map _
  have h2 : (List.range n).map (srt[·]!) = srt := by
    apply List.ext_getElem
    · simp [hlen]
    · intro i h1 h2
      simp at h1
      simp [getElem!_pos, h1, hlen]
  rw [h2] at h1
  exact (h1.trans hs).eq_of_pairwise' hsorted List.pairwise_le_range

theorem range_map_getElemD (l : List τ) : (List.range l.length).map (l[·]!) = l := by
  apply List.ext_getElem
  · simp
  · intro i h1 h2
    simp at h1
    simp [getElem!_pos, h1]

/-- `sorted(names)` is the list of names read through any argsort of the names -/
theorem sortBy_eq_argsort_map (names : List τ) (srt : List Nat) (hs : IsArgsort names srt) :
    sortBy ltD names = srt.map (names[·]!) := by
  apply sorted_perm_unique _ _ _ (sortBy_names_sorted names) hs.2
  have h1 : (srt.map (names[·]!)).Perm ((List.range names.length).map (names[·]!)) := hs.1.map _
  rw [range_map_getElemD] at h1
  exact (perm_sortBy ltD names).trans h1.symm

theorem fancyIndex_ok (a : List α) (idx : List Nat) (h : ∀ i ∈ idx, i < a.length) :
    ∃ vec, fancyIndex a idx = .ok vec ∧ vec.length = idx.length ∧
      ∀ k (hk : k < idx.length), vec[k]? = a[idx[k]]? := by
  induction idx with
  | nil => exact ⟨[], rfl, rfl, fun k hk => absurd hk (by simp)⟩
  | cons i is ih =>
    obtain ⟨r, hr, hlen, hget⟩ := ih (fun j hj => h j (List.mem_cons_of_mem _ hj))
    have hi : i < a.length := h i (List.mem_cons_self)
    refine ⟨a[i] :: r, ?_, by simp [hlen], ?_⟩
    · simp [fancyIndex, List.getElem?_eq_getElem hi, hr]
    · intro k hk
      cases k with
      | zero => simp [List.getElem?_eq_getElem hi]
      | succ k =>
        have hk' : k < is.length := by simpa using hk
        simpa using hget k hk'

theorem fancyIndex_error (a : List α) (idx : List Nat) (i : Nat) (hi : i ∈ idx)
    (hbad : a.length ≤ i) : fancyIndex a idx = .error .indexError := by
  induction idx with
  | nil => cases hi
  | cons j js ih =>
    unfold fancyIndex
    rcases List.mem_cons.mp hi with rfl | hmem
    · simp [List.getElem?_eq_none hbad]
    · cases h : a[j]? with
      | none => rfl
      | some x => simp only []; rw [ih hmem]

/-- the permutation table and the published state names, for any admissible `argsort` -/
theorem tables_facts (d : Decl τ) (asT : List τ → List Nat) (asN : List Nat → List Nat)
    (hT : ∀ l, IsArgsort l (asT l)) (hN : ∀ l, IsArgsort l (asN l)) (hnd : d.states.Nodup) :
    let T := setNumberAndNames ltD asT asN d
    T.originalOrder.length = d.states.length ∧
    (∀ i ∈ T.originalOrder, i < d.states.length) ∧
    ∀ j (hj : j < d.states.length),
      T.stateNames.idxOf d.states[j] = T.originalOrder[j]! := by
  intro T
  set names := d.states with hnames
  set srt := asT names with hsrt
  set inv := asN srt with hinv
  have hs := hT names
  have hi := hN srt
  have hperm : srt.Perm (List.range names.length) := hs.1
  have hsl : srt.length = names.length := by simpa using hperm.length_eq
  have hinvmap := argsort_perm_inverse srt inv names.length hperm hi
  have hil : inv.length = names.length := by
    have := congrArg List.length hinvmap; simpa using this
  have hbound : ∀ i ∈ inv, i < names.length := by
    intro i him
    have := (hi.1.mem_iff).1 him
    simpa [hsl] using this
  have hT0 : T.originalOrder = inv := rfl
  have hTs : T.stateNames = srt.map (names[·]!) := sortBy_eq_argsort_map names srt hs
  refine ⟨by rw [hT0, hil], by rw [hT0]; exact hbound, ?_⟩
  intro j hj
  rw [hT0, hTs]
  have hj' : j < inv.length := by omega
  have key : srt[inv[j]!]! = j := by
    have := congrArg (fun l => l[j]!) hinvmap
    simpa [getElem!_pos, hj', hj] using this
  have hb : inv[j]! < srt.length := by
    have hm : inv[j]! ∈ inv := by simp [getElem!_pos, hj']
    rw [hsl]; exact hbound _ hm
  have hndS : (srt.map (names[·]!)).Nodup := by
    have : (srt.map (names[·]!)).Perm names := by
      have h1 : (srt.map (names[·]!)).Perm ((List.range names.length).map (names[·]!)) :=
        hperm.map _
      rwa [range_map_getElemD] at h1
    exact this.nodup_iff.mpr hnd
  have hb' : inv[j]! < (srt.map (names[·]!)).length := by simpa using hb
  have hval : (srt.map (names[·]!))[inv[j]!]'hb' = names[j] := by
    rw [List.getElem_map]
    have h3 : srt[inv[j]!]'hb = j := by
      have := key; rwa [getElem!_pos srt _ hb] at this
    show names[srt[inv[j]!]'hb]! = names[j]
    rw [h3, getElem!_pos names j hj]
  rw [← hval]
  exact hndS.idxOf_getElem _ hb'

/-- **State assignment.** For every declaration order of distinct state names, every admissible
    `argsort` and every parameter vector: `_set_state` succeeds, and the value the solver receives
    for its `j`-th state is the vector entry at the position at which that state's own name is
    published. -/
theorem C09_state_assignment (d : Decl τ) (asT : List τ → List Nat) (asN : List Nat → List Nat)
    (hT : ∀ l, IsArgsort l (asT l)) (hN : ∀ l, IsArgsort l (asN l)) (hnd : d.states.Nodup)
    (params : List α) (hp : d.states.length ≤ params.length) :
    ∃ vec, setStateVec (setNumberAndNames ltD asT asN d) params = .ok vec ∧
      vec.length = d.states.length ∧
      ∀ j (hj : j < d.states.length),
        (setNumberAndNames ltD asT asN d).stateNames.idxOf d.states[j] < d.states.length ∧
        vec[j]? = params[(setNumberAndNames ltD asT asN d).stateNames.idxOf d.states[j]]? := by
  obtain ⟨hlen, hbound, hidx⟩ := tables_facts d asT asN hT hN hnd
  set T := setNumberAndNames ltD asT asN d with hTdef
  have hn : T.nStates = d.states.length := rfl
  have htake : (params.take T.nStates).length = d.states.length := by
    rw [List.length_take, hn]; omega
  obtain ⟨vec, hv, hvl, hget⟩ := fancyIndex_ok (params.take T.nStates) T.originalOrder
    (fun i hi => by rw [htake]; exact hbound i hi)
  refine ⟨vec, hv, by rw [hvl, hlen], ?_⟩
  intro j hj
  have hj' : j < T.originalOrder.length := by rw [hlen]; exact hj
  have hmem : T.originalOrder[j] ∈ T.originalOrder := List.getElem_mem hj'
  have hlt : T.originalOrder[j] < d.states.length := hbound _ hmem
  rw [hidx j hj, getElem!_pos T.originalOrder j hj']
  refine ⟨hlt, ?_⟩
  rw [hget j hj', List.getElem?_take_of_lt (by rw [hn]; exact hlt)]

/-! ## published order -/

theorem countConsts_eq (cs : List (τ × Bool)) : ∀ n, cs.length ≤ n →
    countConsts cs n = n - (cs.filter (fun x => !x.2)).length := by
  induction cs with
  | nil => intro n _; simp [countConsts]
  | cons c r ih =>
    intro n hn
    obtain ⟨nm, b⟩ := c
    simp only [List.length_cons] at hn
    cases b with
    | true => simp [countConsts, ih n (by omega)]
    | false =>
      have hf : ((r.filter (fun x => !x.2)).length) ≤ r.length := List.length_filter_le _ _
      simp [countConsts, ih (n - 1) (by omega)]
      omega

theorem length_literalConsts (d : Decl τ) :
    (literalConsts d).length = d.consts.length - (d.consts.filter (fun x => !x.2)).length := by
  unfold literalConsts
  rw [List.length_map]
  have h := List.length_eq_length_filter_add (l := d.consts) (fun x => x.2)
  omega

/-- **Published order.** The parameter names are the state names followed by the names of the
    *literal* constants, each a strictly increasing (alphabetical) rearrangement of what the model
    file declares, and `n_parameters` is their number. -/
theorem C09_published_order (d : Decl τ) (asT : List τ → List Nat) (asN : List Nat → List Nat)
    (hnd : d.states.Nodup) (hndc : (literalConsts d).Nodup) :
    let T := setNumberAndNames ltD asT asN d
    T.parameterNames = T.stateNames ++ T.constNames ∧
    T.stateNames.Perm d.states ∧ T.stateNames.Pairwise (· < ·) ∧
    T.constNames.Perm (literalConsts d) ∧ T.constNames.Pairwise (· < ·) ∧
    T.nStates = T.stateNames.length ∧
    T.nParameters = T.parameterNames.length := by
  intro T
  refine ⟨rfl, perm_sortBy _ _, sortBy_strict _ hnd, perm_sortBy _ _, sortBy_strict _ hndc, ?_, ?_⟩
  · exact ((perm_sortBy ltD d.states).length_eq).symm
  · show d.states.length + countConsts d.consts d.consts.length =
      (sortBy ltD d.states ++ sortBy ltD (literalConsts d)).length
    rw [List.length_append, (perm_sortBy ltD d.states).length_eq,
      (perm_sortBy ltD (literalConsts d)).length_eq, countConsts_eq _ _ (le_refl _),
      length_literalConsts]

/-! ## constants -/

theorem constLoop_ok (names : List τ) : ∀ (p : List α), names.length ≤ p.length →
    constLoop names p = .ok (names.zip p) := by
  induction names with
  | nil => intro p _; simp [constLoop]
  | cons nm r ih =>
    intro p hp
    cases p with
    | nil => simp at hp
    | cons x xs =>
      have := ih xs (by simpa using hp)
      simp [constLoop, this]

theorem constLoop_error (names : List τ) : ∀ (p : List α), p.length < names.length →
    constLoop names p = .error .indexError := by
  induction names with
  | nil => intro p hp; simp at hp
  | cons nm r ih =>
    intro p hp
    cases p with
    | nil => simp [constLoop]
    | cons x xs =>
      have := ih xs (by simpa using hp)
      simp [constLoop, this]

/-- **Constant assignment.** The k-th published constant (alphabetical among the literal
    constants) is set — exactly once, and no derived constant is touched — to the vector entry
    `n_states + k`; a vector that is too short raises instead of mis-assigning. -/
theorem C09_const_assignment (d : Decl τ) (asT : List τ → List Nat) (asN : List Nat → List Nat)
    (params : List α) :
    let T := setNumberAndNames ltD asT asN d
    (T.nParameters ≤ params.length →
      setConstCalls T params = .ok (T.constNames.zip (params.drop T.nStates)) ∧
      ∀ k (hk : k < T.constNames.length),
        (T.constNames.zip (params.drop T.nStates))[k]? =
          (params[T.nStates + k]?).map (fun v => (T.constNames[k], v))) ∧
    (params.length < T.nParameters → T.nStates ≤ params.length →
      setConstCalls T params = .error .indexError) := by
  intro T
  have hn : T.nParameters = T.nStates + T.constNames.length := by
    show d.states.length + countConsts d.consts d.consts.length =
      d.states.length + (sortBy ltD (literalConsts d)).length
    rw [(perm_sortBy ltD (literalConsts d)).length_eq, countConsts_eq _ _ (le_refl _),
      length_literalConsts]
  constructor
  · intro hp
    have hl : T.constNames.length ≤ (params.drop T.nStates).length := by
      rw [List.length_drop]; omega
    refine ⟨constLoop_ok _ _ hl, ?_⟩
    intro k hk
    have hk2 : T.nStates + k < params.length := by omega
    have h1 : (T.constNames.zip (params.drop T.nStates))[k]? =
        some (T.constNames[k], params[T.nStates + k]) :=
      List.getElem?_zip_eq_some.mpr ⟨List.getElem?_eq_getElem hk, by
        rw [List.getElem?_drop]; exact List.getElem?_eq_getElem hk2⟩
    rw [h1, List.getElem?_eq_getElem hk2]; rfl
  · intro hp hs
    apply constLoop_error
    rw [List.length_drop]; omega

/-! ## the environment the solver integrates with -/

theorem envOf_not_mem (assign : List (τ × α)) : ∀ (dflt : τ → α) (nm : τ),
    nm ∉ assign.map (·.1) → envOf dflt assign nm = dflt nm := by
  induction assign with
  | nil => intro dflt nm _; rfl
  | cons kv r ih =>
    intro dflt nm h
    simp only [List.map_cons, List.mem_cons, not_or] at h
    show envOf (upd dflt kv.1 kv.2) r nm = dflt nm
    rw [ih _ nm h.2]
    simp [upd, h.1]

theorem envOf_zip (keys : List τ) : ∀ (vals : List α) (dflt : τ → α), keys.Nodup →
    keys.length = vals.length → ∀ i (h1 : i < keys.length) (h2 : i < vals.length),
    envOf dflt (keys.zip vals) keys[i] = vals[i] := by
  induction keys with
  | nil => intro vals dflt _ _ i h1; simp at h1
  | cons k ks ih =>
    intro vals dflt hnd hlen i h1 h2
    cases vals with
    | nil => simp at h2
    | cons v vs =>
      rw [List.nodup_cons] at hnd
      show envOf (upd dflt k v) (ks.zip vs) (k :: ks)[i] = (v :: vs)[i]
      cases i with
      | zero =>
        simp only [List.getElem_cons_zero]
        rw [envOf_not_mem]
        · simp [upd]
        · intro hm
          have : k ∈ ks := by
            rw [List.mem_map] at hm
            obtain ⟨x, hx, rfl⟩ := hm
            exact (List.of_mem_zip hx).1
          exact hnd.1 this
      | succ i =>
        simp only [List.getElem_cons_succ]
        exact ih vs _ hnd.2 (by simpa using hlen) i (by simpa using h1) (by simpa using h2)

theorem zip_map_fst (keys : List τ) (vals : List α) (h : keys.length = vals.length) :
    (keys.zip vals).map (·.1) = keys := by
  rw [List.map_fst_zip]; omega

/-- common core of the three statements below: what `simulate` does once the solver has been fed -/
theorem simulate_core {Tm : Type} (legacy : Bool) (sol : Solve τ α Tm) (dflt0 dfltC : τ → α)
    (d : Decl τ) (asT : List τ → List Nat) (asN : List Nat → List Nat)
    (hT : ∀ l, IsArgsort l (asT l)) (hN : ∀ l, IsArgsort l (asN l))
    (hnd : (d.states ++ literalConsts d).Nodup) (outs : List τ) (params : List α)
    (times : List Tm)
    (hp : params.length = (setNumberAndNames ltD asT asN d).nParameters) :
    let T := { setNumberAndNames ltD asT asN d with outputNames := outs }
    simulateValues legacy sol dflt0 dfltC d T params times =
      if legacy && times.isEmpty then .error .indexError else
      .ok (outs.map (fun o => times.map (fun t =>
        sol (specEnv dflt0 T.stateNames T.parameterNames params)
            (specEnv dfltC T.constNames T.parameterNames params) o t))) := by
  intro T
  have hnds : d.states.Nodup := (List.nodup_append.mp hnd).1
  have hndc : (literalConsts d).Nodup := (List.nodup_append.mp hnd).2.1
  have hdisj : ∀ a ∈ d.states, ∀ b ∈ literalConsts d, a ≠ b := (List.nodup_append.mp hnd).2.2
  obtain ⟨hpn, hsp, hss, hcp, hcs, hns, hnp⟩ := C09_published_order d asT asN hnds hndc
  have hsl : (setNumberAndNames ltD asT asN d).stateNames.length = d.states.length :=
    hsp.length_eq
  have hpl : d.states.length ≤ params.length := by
    rw [hp, hnp, hpn, List.length_append]; omega
  obtain ⟨vec, hv, hvl, hget⟩ := C09_state_assignment d asT asN hT hN hnds params hpl
  have hcc := (C09_const_assignment d asT asN params).1 (le_of_eq hp.symm)
  set T0 := setNumberAndNames ltD asT asN d with hT0
  have hnS : T0.nStates = d.states.length := rfl
  have hsim : simulateRecord d T params = .ok
      { stateAssign := d.states.zip vec,
        constCalls := T0.constNames.zip (params.drop T0.nStates), log := outs } := by
    unfold simulateRecord
    have h1 : setStateVec T params = .ok vec := hv
    have h2 : setConstCalls T params = _ := hcc.1
    rw [h1]
    simp only [bind, Except.bind, solverSetState, hvl, if_true, h2, pure, Except.pure]
    rfl
  -- the two environments
  have henv0 : envOf dflt0 (d.states.zip vec) =
      specEnv dflt0 T0.stateNames T0.parameterNames params := by
    funext nm
    unfold specEnv
    by_cases hm : nm ∈ T0.stateNames
    · rw [if_pos hm]
      have hm' : nm ∈ d.states := hsp.mem_iff.mp hm
      obtain ⟨j, hj, rfl⟩ := List.getElem_of_mem hm'
      rw [envOf_zip d.states vec dflt0 hnds hvl.symm j hj (by omega)]
      obtain ⟨hlt, hg⟩ := hget j hj
      have hidx : T0.parameterNames.idxOf d.states[j] = T0.stateNames.idxOf d.states[j] := by
        rw [hpn, List.idxOf_append_of_mem hm]
      rw [hidx, ← hg, List.getElem?_eq_getElem (by omega)]
    · rw [if_neg hm]
      apply envOf_not_mem
      rw [zip_map_fst _ _ hvl.symm]
      exact fun h => hm (hsp.mem_iff.mpr h)
  have henvC : envOf dfltC (T0.constNames.zip (params.drop T0.nStates)) =
      specEnv dfltC T0.constNames T0.parameterNames params := by
    funext nm
    unfold specEnv
    have hdl : T0.constNames.length = (params.drop T0.nStates).length := by
      rw [List.length_drop, hp, hnp, hpn, List.length_append, hns]; omega
    by_cases hm : nm ∈ T0.constNames
    · rw [if_pos hm]
      obtain ⟨k, hk, rfl⟩ := List.getElem_of_mem hm
      have hndC : T0.constNames.Nodup := hcp.nodup_iff.mpr hndc
      rw [envOf_zip T0.constNames _ dfltC hndC hdl k hk (by omega)]
      have hnot : T0.constNames[k] ∉ T0.stateNames := by
        intro h
        exact hdisj _ (hsp.mem_iff.mp h) _ (hcp.mem_iff.mp hm) rfl
      have hidx : T0.parameterNames.idxOf T0.constNames[k] = T0.stateNames.length + k := by
        rw [hpn, List.idxOf_append_of_notMem hnot, hndC.idxOf_getElem]
      have hk2 : T0.stateNames.length + k < params.length := by
        rw [hp, hnp, hpn, List.length_append]; omega
      rw [hidx, List.getElem?_eq_getElem hk2, List.getElem_drop]
      simp only [hns]
    · rw [if_neg hm]
      apply envOf_not_mem
      rw [zip_map_fst _ _ hdl]
      exact hm
  unfold simulateValues
  rw [hsim]
  simp only [bind, Except.bind, pure, Except.pure]
  split
  · rfl
  · rw [henv0, henvC]

/-- **Simulation = the initial-value problem with the i-th entry under the i-th published name.**
    (The code as it is since commit 3790485.)  For every model declaration with distinct names, every admissible
    `argsort`, every vector of the published length, every list of logged outputs and *every* time
    grid, and every solver `sol`: `simulate` returns, output by output in the order of the output
    list and time by time, the solution for the initial values and constants that the published
    names dictate — an empty grid gives one empty row per output.  Before commit 3790485 the
    empty grid raised, see `C09_empty_grid_counterexample_before_3790485`. -/
theorem C09_simulate_eq_spec {Tm : Type} (sol : Solve τ α Tm) (dflt0 dfltC : τ → α) (d : Decl τ)
    (asT : List τ → List Nat) (asN : List Nat → List Nat)
    (hT : ∀ l, IsArgsort l (asT l)) (hN : ∀ l, IsArgsort l (asN l))
    (hnd : (d.states ++ literalConsts d).Nodup) (outs : List τ) (params : List α)
    (times : List Tm)
    (hp : params.length = (setNumberAndNames ltD asT asN d).nParameters) :
    let T := { setNumberAndNames ltD asT asN d with outputNames := outs }
    simulateValues false sol dflt0 dfltC d T params times =
      .ok (outs.map (fun o => times.map (fun t =>
        sol (specEnv dflt0 T.stateNames T.parameterNames params)
            (specEnv dfltC T.constNames T.parameterNames params) o t))) := by
  intro T
  have := simulate_core false sol dflt0 dfltC d asT asN hT hN hnd outs params times hp
  simpa using this

/-- **Empty time grid, before commit 3790485.** For *every* model and every well-formed vector the
    old code (`times[-1] + 1`) raised `IndexError` on an empty grid, where the property demands —
    and the code now returns — one empty row per output. -/
theorem C09_empty_grid_counterexample_before_3790485 {Tm : Type} (sol : Solve τ α Tm) (dflt0 dfltC : τ → α)
    (d : Decl τ) (asT : List τ → List Nat) (asN : List Nat → List Nat)
    (hT : ∀ l, IsArgsort l (asT l)) (hN : ∀ l, IsArgsort l (asN l))
    (hnd : (d.states ++ literalConsts d).Nodup) (outs : List τ) (params : List α)
    (hp : params.length = (setNumberAndNames ltD asT asN d).nParameters) :
    let T := { setNumberAndNames ltD asT asN d with outputNames := outs }
    simulateValues true sol dflt0 dfltC d T params ([] : List Tm) = .error .indexError ∧
    simulateValues false sol dflt0 dfltC d T params ([] : List Tm) = .ok (outs.map (fun _ => [])) := by
  intro T
  have h1 := simulate_core true sol dflt0 dfltC d asT asN hT hN hnd outs params ([] : List Tm) hp
  have h2 := simulate_core false sol dflt0 dfltC d asT asN hT hN hnd outs params ([] : List Tm) hp
  exact ⟨by simpa using h1, by simpa using h2⟩

/-! ## sensitivities -/

theorem sensAll_eq (T : Tables τ) (h : T.parameterNames = T.stateNames ++ T.constNames)
    (hn : T.nStates = T.stateNames.length) :
    sensAll T = T.stateNames.map SensParam.init ++ T.constNames.map SensParam.const := by
  unfold sensAll
  apply List.ext_getElem
  · simp [h]
  · intro i h1 h2
    simp only [List.getElem_map, List.getElem_zipIdx, Nat.zero_add]
    by_cases hi : i < T.stateNames.length
    · rw [if_pos (by omega), List.getElem_append_left (by simpa using hi)]
      simp [h, List.getElem_append_left hi]
    · rw [if_neg (by omega), List.getElem_append_right (by simpa using hi)]
      simp [h, List.getElem_append_right (not_lt.mp hi)]

/-- **Sensitivity order (all parameters).** The sensitivities requested from the solver are, in
    this order, `init(s)` for the published state names `s` and then the published constants —
    i.e. entry `k` of the request is the `k`-th published parameter, and the request has
    `n_parameters` entries; the dependents are the current outputs in their order. -/
theorem C09_sens_order (d : Decl τ) (asT : List τ → List Nat) (asN : List Nat → List Nat)
    (hnd : d.states.Nodup) (hndc : (literalConsts d).Nodup) (pub : List τ) :
    let T := setNumberAndNames ltD asT asN d
    sensAll T = T.stateNames.map SensParam.init ++ T.constNames.map SensParam.const ∧
    (sensAll T).length = T.nParameters ∧
    (∀ k (hk : k < T.parameterNames.length), (sensAll T)[k]? =
      some (if k < T.nStates then .init T.parameterNames[k] else .const T.parameterNames[k])) ∧
    enableSens T pub none =
      if (sensAll T).isEmpty then .error .valueError else .ok (T.outputNames, sensAll T) := by
  intro T
  obtain ⟨hpn, _, _, _, _, hns, hnp⟩ := C09_published_order d asT asN hnd hndc
  refine ⟨sensAll_eq T hpn hns, ?_, ?_, rfl⟩
  · rw [hnp]; simp [sensAll, T]
  · intro k hk
    simp [sensAll, hk]

theorem restrictLoop_eq {σ : Type} (g : List τ) (all : List σ) (pub : List τ) :
    ∀ i, pub.length + i ≤ all.length →
    restrictLoop g all pub i =
      ((pub.zip (all.drop i)).filter (fun x => g.contains x.1)).map (·.2) := by
  induction pub with
  | nil => intro i _; simp [restrictLoop]
  | cons pn r ih =>
    intro i hi
    simp only [List.length_cons] at hi
    have hlt : i < all.length := by omega
    have hdrop : all.drop i = all[i] :: all.drop (i + 1) := List.drop_eq_getElem_cons hlt
    unfold restrictLoop
    rw [hdrop, List.zip_cons_cons, List.filter_cons, ih (i + 1) (by omega)]
    by_cases hg : pn ∈ g
    · simp [hg, List.getElem?_eq_getElem hlt]
    · simp [hg]

/-- **Sensitivity order (restricted).** With a list of parameter names the request contains the
    entries of exactly those published parameters whose public name is listed — in the
    *published* order, whatever the order of the given list. -/
theorem C09_sens_restricted (d : Decl τ) (asT : List τ → List Nat) (asN : List Nat → List Nat)
    (hnd : d.states.Nodup) (hndc : (literalConsts d).Nodup) (pub g : List τ)
    (hpub : pub.length = (setNumberAndNames ltD asT asN d).nParameters) :
    let T := setNumberAndNames ltD asT asN d
    let chosen := ((pub.zip (sensAll T)).filter (fun x => g.contains x.1)).map (·.2)
    enableSens T pub (some g) =
      if chosen.isEmpty then .error .valueError else .ok (T.outputNames, chosen) := by
  intro T chosen
  obtain ⟨_, hl, _, _⟩ := C09_sens_order d asT asN hnd hndc pub
  have := restrictLoop_eq g (sensAll T) pub 0 (by rw [hl]; omega)
  simp only [List.drop_zero] at this
  unfold enableSens
  simp only [this]
  rfl

theorem filter_zip_mask {σ : Type} (g : List τ) : ∀ (pub : List τ) (all : List σ)
    (m : List (Bool × α)), pub.length = all.length → pub.length = m.length →
    (∀ i (h1 : i < pub.length) (h2 : i < m.length), g.contains pub[i] = !(m[i]).1) →
    ((pub.zip all).filter (fun x => g.contains x.1)).map (·.2) =
      ((all.zip m).filter (fun x => !x.2.1)).map (·.1) := by
  intro pub
  induction pub with
  | nil =>
    intro all m h1 h2 _
    have : all = [] := List.length_eq_zero_iff.mp h1.symm
    subst this; simp
  | cons p ps ih =>
    intro all m h1 h2 hc
    cases all with
    | nil => simp at h1
    | cons a as =>
      cases m with
      | nil => simp at h2
      | cons b bs =>
        have h0 := hc 0 (by simp) (by simp)
        simp only [List.getElem_cons_zero] at h0
        have ih' := ih as bs (by simpa using h1) (by simpa using h2) (fun i h1 h2 => by
          have := hc (i + 1) (by simpa using h1) (by simpa using h2)
          simpa using this)
        simp only [List.zip_cons_cons, List.filter_cons, h0]
        cases hb : b.1 <;> simp [hb] <;> simpa using ih'

theorem mem_free_iff (pub : List τ) (m : List (Bool × α)) (hnd : pub.Nodup)
    (hl : pub.length = m.length) (i : Nat) (h1 : i < pub.length) (h2 : i < m.length) :
    (((pub.zip m).filter (fun x => !x.2.1)).map (·.1)).contains pub[i] = !(m[i]).1 := by
  rw [Bool.eq_iff_iff]
  simp only [List.contains_iff_mem, List.mem_map, List.mem_filter, Bool.not_eq_eq_eq_not,
    Bool.not_true]
  constructor
  · rintro ⟨⟨nm, b⟩, ⟨hmem, hb⟩, hnm⟩
    simp only at hnm hb
    obtain ⟨j, hj, hje⟩ := List.getElem_of_mem hmem
    rw [List.getElem_zip] at hje
    have hj1 : j < pub.length := by simp at hj; omega
    have : pub[j] = pub[i] := by rw [← hnm]; exact congrArg Prod.fst hje
    have hji : j = i := (List.Nodup.getElem_inj_iff hnd).mp this
    subst hji
    have : m[j] = b := congrArg Prod.snd hje
    rw [this]; exact hb
  · intro hb
    refine ⟨(pub[i], m[i]), ⟨?_, hb⟩, rfl⟩
    have : (pub.zip m)[i]'(by simp; omega) = (pub[i], m[i]) := List.getElem_zip
    rw [← this]; exact List.getElem_mem _

theorem length_filter_zip_mask {σ : Type} : ∀ (a : List σ) (b : List (Bool × α)),
    a.length = b.length →
    ((a.zip b).filter (fun x => !x.2.1)).length = (b.filter (fun x => !x.1)).length := by
  intro a
  induction a with
  | nil => intro b hb; cases b <;> simp_all
  | cons x xs ih =>
    intro b hb
    cases b with
    | nil => simp at hb
    | cons y ys =>
      have := ih ys (by simpa using hb)
      simp only [List.zip_cons_cons, List.filter_cons]
      cases y.1 <;> simp [this]

theorem length_free (pub : List τ) (m : List (Bool × α)) (hm : m.length = pub.length) :
    (Reduced.free ({ names := pub, fixed := some m } : Reduced τ α)).length = nFree m := by
  simp only [Reduced.free, List.length_map, nFree]
  exact length_filter_zip_mask pub m hm.symm

/-- **Sensitivity order (reduced model), code as it is.** A `ReducedMechanisticModel` requests the
    sensitivities of exactly its free parameters (mask `false`), in the published order: column
    `k` of the sensitivities is the `k`-th free parameter and there are `n_parameters − n_fixed`
    columns — also when every parameter is fixed: then nothing is requested from the wrapped model
    and the block has zero columns (since commit f18d571). -/
theorem C09_sens_reduced (d : Decl τ) (asT : List τ → List Nat) (asN : List Nat → List Nat)
    (hnd : d.states.Nodup) (hndc : (literalConsts d).Nodup) (pub : List τ) (hpn : pub.Nodup)
    (m : List (Bool × α))
    (hpub : pub.length = (setNumberAndNames ltD asT asN d).nParameters)
    (hm : m.length = pub.length) :
    let T := setNumberAndNames ltD asT asN d
    let r : Reduced τ α := { names := pub, fixed := some m }
    let chosen := (((sensAll T).zip m).filter (fun x => !x.2.1)).map (·.1)
    chosen.length = nFree m ∧
    r.enableSens false T pub =
      (if nFree m = 0 then .ok none else .ok (some (T.outputNames, chosen))) ∧
    ∀ q, r.enableSens false T pub = .ok q → sensColumns q = nFree m := by
  intro T r chosen
  obtain ⟨_, hl, _, _⟩ := C09_sens_order d asT asN hnd hndc pub
  have hlen : chosen.length = nFree m := by
    show ((((sensAll T).zip m).filter (fun x => !x.2.1)).map (·.1)).length = _
    rw [List.length_map, nFree]
    exact length_filter_zip_mask _ _ (by rw [hl, hm, hpub])
  have hfree : r.free.length = nFree m := length_free pub m hm
  have hmain : r.enableSens false T pub =
      (if nFree m = 0 then .ok none else .ok (some (T.outputNames, chosen))) := by
    unfold Reduced.enableSens
    by_cases h0 : nFree m = 0
    · have : r.free.isEmpty = true := by
        rw [List.isEmpty_iff]; exact List.length_eq_zero_iff.mp (by rw [hfree, h0])
      simp [this, h0]
    · have : r.free.isEmpty = false := by
        cases hf : r.free with
        | nil => rw [hf] at hfree; simp at hfree; omega
        | cons _ _ => rfl
      have h := C09_sens_restricted d asT asN hnd hndc pub r.free hpub
      have hfz := filter_zip_mask (α := α) r.free pub (sensAll T) m (by rw [hl, hpub]) hm.symm
        (fun i h1 h2 => mem_free_iff pub m hpn hm.symm i h1 h2)
      simp only [] at h
      rw [hfz] at h
      have hne : chosen.isEmpty = false := by
        cases hc : chosen with
        | nil => rw [hc] at hlen; simp at hlen; omega
        | cons _ _ => rfl
      simp only [this, Bool.not_false, Bool.true_and, Bool.false_eq_true, if_false, h0]
      rw [h]
      have hne' : (List.map (fun x => x.1) (List.filter (fun x => !x.2.1)
          ((sensAll (setNumberAndNames ltD asT asN d)).zip m))).isEmpty = false := hne
      rw [hne']
      rfl
  refine ⟨hlen, hmain, ?_⟩
  intro q hq
  rw [hmain] at hq
  by_cases h0 : nFree m = 0
  · rw [if_pos h0] at hq; injection hq with hq; subst hq; simp [sensColumns, h0]
  · rw [if_neg h0] at hq; injection hq with hq; subst hq; simp [sensColumns]; exact hlen

/-- before commit f18d571 the all-fixed case raised (`ValueError`): plain simulation worked,
    simulation with sensitivities did not -/
theorem C09_sens_all_fixed_counterexample_before_f18d571 (T : Tables τ) (pub : List τ)
    (m : List (Bool × α)) (hm : m.length = pub.length) (h0 : nFree m = 0) :
    (Reduced.enableSens true ({ names := pub, fixed := some m } : Reduced τ α) T pub) =
      .error .valueError := by
  have hfree := length_free pub m hm
  have hnil : (Reduced.free ({ names := pub, fixed := some m } : Reduced τ α)) = [] :=
    List.length_eq_zero_iff.mp (by rw [hfree, h0])
  unfold Reduced.enableSens Mech.enableSens
  simp only [Bool.not_true, Bool.false_and, Bool.false_eq_true, if_false, hnil]
  have : ∀ (all : List (SensParam τ)) (l : List τ) (i : Nat), restrictLoop [] all l i = [] := by
    intro all l
    induction l with
    | nil => intro i; rfl
    | cons x xs ih => intro i; simp [restrictLoop, ih]
  simp [this]

/-! ## the name map is aligned with the published order -/

theorem keys_identityMap (names : List τ) : (identityMap names).map (·.1) = names := by
  simp [identityMap, List.map_map, Function.comp_def]

theorem keys_renameMap (m : NameMap τ) (ren : List (τ × τ)) :
    (renameMap m ren).map (·.1) = m.map (·.1) := by
  simp [renameMap, List.map_map, Function.comp_def]

theorem keys_rebuildMap (old : NameMap τ) (newNames : List τ) :
    (rebuildMap old newNames).map (·.1) = newNames := by
  simp [rebuildMap, List.map_map, Function.comp_def]

theorem lookup_of_keys (m : NameMap τ) (hnd : (m.map (·.1)).Nodup) (i : Nat) (hi : i < m.length) :
    m.lookup (m[i]).1 = some (m[i]).2 := by
  induction m generalizing i with
  | nil => simp at hi
  | cons kv r ih =>
    simp only [List.map_cons, List.nodup_cons] at hnd
    cases i with
    | zero => simp [List.lookup]
    | succ j =>
      have hj : j < r.length := by simpa using hi
      have hne : ¬ (r[j]).1 = kv.1 := by
        intro h
        apply hnd.1
        rw [← h]
        exact List.mem_map.mpr ⟨r[j], List.getElem_mem _, rfl⟩
      simp only [List.getElem_cons_succ, List.lookup]
      have : ((r[j]).1 == kv.1) = false := by simpa using hne
      rw [this]
      exact ih hnd.2 j hj

/-- the values of an aligned map, read by position, are the published (public) names -/
theorem values_eq_publicNames (m : NameMap τ) (names : List τ) (hk : m.map (·.1) = names)
    (hnd : names.Nodup) : m.map (·.2) = publicNames m names := by
  subst hk
  unfold publicNames
  rw [List.map_map]
  apply List.ext_getElem
  · simp
  · intro i h1 h2
    simp only [List.getElem_map, Function.comp]
    have hi : i < m.length := by simpa using h1
    rw [lookup_of_keys m hnd i hi]

/-- **The name map stays aligned.** After the operations that create or change it —
    `_set_number_and_names` (identity), `set_parameter_names` (values replaced in place) and
    `PKPDModel.set_administration` (rebuilt over the new published names, in any number and order)
    — the keys of `_parameter_name_map` are the published myokit names *in the published order*;
    therefore what `enable_sensitivities` reads by position is `parameters()`. -/
inductive MapOp (τ : Type) where
  | rename (ren : List (τ × τ))
  | administration (newNames : List τ)

def mapStep (mn : NameMap τ × List τ) : MapOp τ → NameMap τ × List τ
  | .rename ren => (renameMap mn.1 ren, mn.2)
  | .administration newNames => (rebuildMap mn.1 newNames, newNames)

theorem C09_name_map_aligned (names : List τ) (ops : List (MapOp τ)) :
    let mn := ops.foldl mapStep (identityMap names, names)
    mn.1.map (·.1) = mn.2 := by
  intro mn
  have : ∀ (ops : List (MapOp τ)) (s : NameMap τ × List τ), s.1.map (·.1) = s.2 →
      (ops.foldl mapStep s).1.map (·.1) = (ops.foldl mapStep s).2 := by
    intro ops
    induction ops with
    | nil => intro s h; exact h
    | cons o os ih =>
      intro s h
      apply ih
      cases o with
      | rename ren => simp only [mapStep]; rw [keys_renameMap]; exact h
      | administration nn => simp only [mapStep]; exact keys_rebuildMap _ _
  exact this ops _ (keys_identityMap names)

/-- **Sensitivity order through the name map.** Whenever the map is aligned (always, by
    `C09_name_map_aligned`) a restricted request contains exactly the published parameters whose
    public name — as `parameters()` reports it — is listed, in the published order. -/
theorem C09_sens_restricted_map (d : Decl τ) (asT : List τ → List Nat) (asN : List Nat → List Nat)
    (hnd : d.states.Nodup) (hndc : (literalConsts d).Nodup) (m : NameMap τ) (g : List τ)
    (hk : m.map (·.1) = (setNumberAndNames ltD asT asN d).parameterNames)
    (hndp : (setNumberAndNames ltD asT asN d).parameterNames.Nodup) :
    let T := setNumberAndNames ltD asT asN d
    let chosen := (((publicNames m T.parameterNames).zip (sensAll T)).filter
      (fun x => g.contains x.1)).map (·.2)
    enableSensMap T m (some g) =
      if chosen.isEmpty then .error .valueError else .ok (T.outputNames, chosen) := by
  intro T chosen
  obtain ⟨_, _, _, _, _, _, hnp⟩ := C09_published_order d asT asN hnd hndc
  have hlen : (m.map (·.2)).length = T.nParameters := by
    rw [hnp, ← hk]; simp
  have h := C09_sens_restricted d asT asN hnd hndc (m.map (·.2)) g hlen
  simp only [] at h
  rw [values_eq_publicNames m _ hk hndp] at h
  unfold enableSensMap
  rw [values_eq_publicNames m _ hk hndp]
  exact h

/-! ## histories -/

/-- **Re-selection.** What the solver is asked for after an operation depends on the tables and
    that operation only, not on what was requested before: in particular
    `enable_sensitivities(True, g₂)` after `enable_sensitivities(True, g₁)` yields the request of
    `g₂` (a new solver is built although sensitivities are already on). -/
theorem C09_sens_step_indep (d : Decl τ) (pub : List τ) (s s' : SimState τ)
    (h : s.tables = s'.tables) (op : SensOp τ) :
    sensStep d pub s op = sensStep d pub s' op := by
  cases op <;> simp [sensStep, h]

theorem C09_sens_reselect (d : Decl τ) (pub : List τ) (s : SimState τ) (g₁ g₂ : Option (List τ))
    (s₁ : SimState τ) (h₁ : sensStep d pub s (.enable g₁) = .ok s₁) :
    sensRun d pub s [.enable g₁, .enable g₂] = sensRun d pub s [.enable g₂] := by
  have ht : s₁.tables = s.tables := by
    simp only [sensStep] at h₁
    cases he : enableSens s.tables pub g₁ with
    | error e => rw [he] at h₁; cases h₁
    | ok q => rw [he] at h₁; injection h₁ with h₁; rw [← h₁]
  simp only [sensRun, h₁]
  rw [C09_sens_step_indep d pub s₁ s ht]

/-- the request after any history is: nothing if the last solver-building operation was a
    disable / `set_outputs`, else the request of the last `enable` on the then current tables -/
theorem C09_sens_history (d : Decl τ) (pub : List τ) (ops : List (SensOp τ)) (s s' : SimState τ)
    (op : SensOp τ) (h : sensRun d pub s (ops ++ [op]) = .ok s') :
    ∃ sm, sensRun d pub s ops = .ok sm ∧
      sensStep d pub { tables := sm.tables, request := none } op = .ok s' := by
  induction ops generalizing s with
  | nil =>
    simp only [List.nil_append, sensRun] at h ⊢
    refine ⟨s, rfl, ?_⟩
    cases hs : sensStep d pub s op with
    | error e => rw [hs] at h; cases h
    | ok s1 =>
      rw [hs] at h; simp only [sensRun] at h
      rw [C09_sens_step_indep d pub { tables := s.tables, request := none } s rfl op, hs, h]
  | cons o os ih =>
    simp only [List.cons_append, sensRun] at h ⊢
    cases hs : sensStep d pub s o with
    | error e => rw [hs] at h; cases h
    | ok s1 => rw [hs] at h; simp only [] at h ⊢; exact ih s1 h

/-! ### a simulation leaves the fixed parameters alone -/

theorem mask_bufferAfter (m : List (Bool × α)) : ∀ ps, (bufferAfter m ps).map (·.1) = m.map (·.1) := by
  induction m with
  | nil => intro ps; rfl
  | cons b r ih =>
    intro ps
    obtain ⟨f, v⟩ := b
    cases f with
    | true => simp [bufferAfter, ih]
    | false => cases ps <;> simp [bufferAfter, ih]

theorem nFree_bufferAfter (m : List (Bool × α)) (ps : List α) : nFree (bufferAfter m ps) = nFree m := by
  have h : ∀ l : List (Bool × α), nFree l = ((l.map (·.1)).filter (fun b => !b)).length := by
    intro l; simp [nFree, List.filter_map, Function.comp_def]
  rw [h, h, mask_bufferAfter]

theorem free_bufferAfter (names : List τ) (m : List (Bool × α)) (ps : List α) :
    Reduced.free ({ names := names, fixed := some (bufferAfter m ps) } : Reduced τ α) =
      Reduced.free ({ names := names, fixed := some m } : Reduced τ α) := by
  simp only [Reduced.free]
  induction m generalizing names ps with
  | nil => simp [bufferAfter]
  | cons b r ih =>
    obtain ⟨f, v⟩ := b
    cases names with
    | nil => simp
    | cons n ns =>
      cases f with
      | true => simp [bufferAfter, List.filter_cons, ih ns ps]
      | false => cases ps <;> simp [bufferAfter, List.filter_cons, ih ns]

/-- **A simulation does not change what is fixed.** `simulate` writes the given entries into the
    stored value buffer, but only at the free positions: afterwards the same parameters are fixed,
    at the same values, so the next vector is routed exactly as it would have been before — for
    every mask, every simulated vector `ps` and every next vector `qs` of the free length. -/
theorem C09_simulate_keeps_fixed (m : List (Bool × α)) : ∀ (ps qs : List α), qs.length = nFree m →
    fillFree (bufferAfter m ps) qs = fillFree m qs := by
  induction m with
  | nil => intro ps qs _; rfl
  | cons b r ih =>
    intro ps qs hq
    obtain ⟨f, v⟩ := b
    cases f with
    | true =>
      have hq' : qs.length = nFree r := by simpa [nFree] using hq
      simp [bufferAfter, fillFree, ih ps qs hq']
    | false =>
      cases qs with
      | nil => simp [nFree] at hq
      | cons q qs' =>
        have hq' : qs'.length = nFree r := by simpa [nFree] using hq
        cases ps with
        | nil => simp [bufferAfter, fillFree, ih [] qs' hq']
        | cons p ps' => simp [bufferAfter, fillFree, ih ps' qs' hq']

theorem enableSens_bufferAfter (names : List τ) (m : List (Bool × α)) (ps : List α) (T : Tables τ)
    (pub : List τ) :
    Reduced.enableSens false ({ names := names, fixed := some (bufferAfter m ps) } : Reduced τ α) T pub =
      Reduced.enableSens false ({ names := names, fixed := some m } : Reduced τ α) T pub := by
  unfold Reduced.enableSens
  rw [free_bufferAfter]

/-- **Reduced model: the request follows the mask through any history.** After any sequence of
    enabling, disabling, fixing / releasing parameters and selecting outputs, the solver of the
    wrapped model is asked for the sensitivities of exactly the currently free parameters when
    sensitivities are on (zero columns if all are fixed), and for none when they are off —
    whether parameters were fixed before or after the sensitivities were enabled. -/
def RedInv (pub : List τ) (s : RedState τ α) : Prop :=
  (s.sensOn = true →
    Reduced.enableSens false { names := pub, fixed := s.fixed } s.tables pub = .ok s.request) ∧
  (s.sensOn = false → s.request = none)

theorem redStep_inv (d : Decl τ) (pub : List τ) (s s' : RedState τ α) (op : RedOp τ α)
    (hi : RedInv pub s) (h : redStep d pub s op = .ok s') : RedInv pub s' := by
  cases op with
  | enable =>
    simp only [redStep] at h
    cases he : Reduced.enableSens false { names := pub, fixed := s.fixed } s.tables pub with
    | error e => rw [he] at h; cases h
    | ok q =>
      rw [he] at h; injection h with h; subst h
      exact ⟨fun _ => he, fun h => by simp at h⟩
  | disable =>
    simp only [redStep] at h; injection h with h; subst h
    exact ⟨fun h => by simp at h, fun _ => rfl⟩
  | simulate ps =>
    simp only [redStep] at h
    cases hv : Reduced.fullVector ({ names := pub, fixed := s.fixed } : Reduced τ α) ps with
    | error e => rw [hv] at h; cases h
    | ok v =>
      rw [hv] at h; injection h with h; subst h
      refine ⟨fun hon => ?_, fun hoff => hi.2 hoff⟩
      have h1 := hi.1 hon
      cases hf : s.fixed with
      | none => simp only [hf, Option.map_none] at h1 ⊢; exact h1
      | some m =>
        simp only [hf, Option.map_some] at h1 ⊢
        rw [enableSens_bufferAfter]; exact h1
  | fix nf =>
    simp only [redStep] at h
    by_cases hon : s.sensOn = true
    · rw [if_pos hon] at h
      cases he : Reduced.enableSens false { names := pub, fixed := nf } s.tables pub with
      | error e => rw [he] at h; cases h
      | ok q =>
        rw [he] at h; injection h with h; subst h
        exact ⟨fun _ => he, fun h => by simp [hon] at h⟩
    · rw [if_neg hon] at h; injection h with h; subst h
      have hoff : s.sensOn = false := by simpa using hon
      exact ⟨fun h => by simp [hoff] at h, fun _ => hi.2 hoff⟩
  | setOutputs outs =>
    simp only [redStep] at h
    cases ho : setOutputs d s.tables outs with
    | error e => rw [ho] at h; cases h
    | ok T' =>
      rw [ho] at h; injection h with h; subst h
      exact ⟨fun h => by simp at h, fun _ => rfl⟩

theorem C09_reduced_history (d : Decl τ) (pub : List τ) (ops : List (RedOp τ α))
    (s s' : RedState τ α) (hi : RedInv pub s) (h : redRun d pub s ops = .ok s') :
    RedInv pub s' := by
  induction ops generalizing s with
  | nil => simp only [redRun] at h; injection h with h; subst h; exact hi
  | cons o os ih =>
    simp only [redRun] at h
    cases hs : redStep d pub s o with
    | error e => rw [hs] at h; cases h
    | ok s1 => rw [hs] at h; exact ih s1 (redStep_inv d pub s s1 o hi hs) h

/-! ## the reduced model's full vector -/

theorem fillFree_length (m : List (Bool × α)) : ∀ ps, (fillFree m ps).length = m.length := by
  induction m with
  | nil => intro ps; rfl
  | cons b r ih =>
    intro ps
    obtain ⟨f, v⟩ := b
    cases f with
    | true => simp [fillFree, ih]
    | false => cases ps <;> simp [fillFree, ih]

/-- **Reduced simulate.** `values[~mask] = parameters`: the vector handed to the wrapped model has
    the fixed values at the fixed positions and the given entries, in order, at the free
    positions — so the `k`-th given entry is simulated as the `k`-th free published parameter. -/
theorem C09_reduced_vector (m : List (Bool × α)) : ∀ (ps : List α), ps.length = nFree m →
    (((fillFree m ps).zip m).filter (fun x => !x.2.1)).map (·.1) = ps ∧
    ∀ i (h1 : i < m.length) (h2 : i < (fillFree m ps).length),
      (m[i]).1 = true → (fillFree m ps)[i] = (m[i]).2 := by
  induction m with
  | nil =>
    intro ps hps
    simp [nFree] at hps
    subst hps
    exact ⟨rfl, fun i h1 => absurd h1 (by simp)⟩
  | cons b r ih =>
    intro ps hps
    obtain ⟨f, v⟩ := b
    cases f with
    | true =>
      have hps' : ps.length = nFree r := by simpa [nFree] using hps
      obtain ⟨ih1, ih2⟩ := ih ps hps'
      refine ⟨by simpa [fillFree] using ih1, ?_⟩
      intro i h1 h2 hb
      cases i with
      | zero => simp [fillFree]
      | succ i =>
        simp only [fillFree, List.getElem_cons_succ] at hb ⊢
        exact ih2 i (by simpa using h1) (by simpa [fillFree] using h2) hb
    | false =>
      cases ps with
      | nil => simp [nFree] at hps
      | cons p ps =>
        have hps' : ps.length = nFree r := by simpa [nFree] using hps
        obtain ⟨ih1, ih2⟩ := ih ps hps'
        refine ⟨by simpa [fillFree] using ih1, ?_⟩
        intro i h1 h2 hb
        cases i with
        | zero => simp at hb
        | succ i =>
          simp only [fillFree, List.getElem_cons_succ] at hb ⊢
          exact ih2 i (by simpa using h1) (by simpa [fillFree] using h2) hb

theorem C09_reduced_fullVector (names : List τ) (m : List (Bool × α)) (ps : List α)
    (h : ps.length = nFree m) :
    (Reduced.fullVector { names := names, fixed := some m } ps) = .ok (fillFree m ps) ∧
    (Reduced.fullVector ({ names := names, fixed := none } : Reduced τ α) ps) = .ok ps := by
  simp [Reduced.fullVector, h]

/-- **The number type of the caller's vector does not touch the fixed values.** Whatever type the
    free-parameter vector has (Python ints, an int64 array, floats) and however it is converted:
    the vector handed to the wrapped model carries the stored fixed values unchanged at the fixed
    positions and the converted given entries, in order, at the free ones. -/
theorem C09_reduced_vector_cast {ι : Type} (cast : ι → α) (names : List τ) (m : List (Bool × α))
    (ps : List ι) (h : ps.length = nFree m) :
    Reduced.fullVectorCast cast ({ names := names, fixed := some m } : Reduced τ α) ps =
      .ok (fillFree m (ps.map cast)) ∧
    (((fillFree m (ps.map cast)).zip m).filter (fun x => !x.2.1)).map (·.1) = ps.map cast ∧
    ∀ i (h1 : i < m.length) (h2 : i < (fillFree m (ps.map cast)).length),
      (m[i]).1 = true → (fillFree m (ps.map cast))[i] = (m[i]).2 := by
  have hl : (ps.map cast).length = nFree m := by simpa using h
  refine ⟨?_, (C09_reduced_vector m (ps.map cast) hl).1, (C09_reduced_vector m (ps.map cast) hl).2⟩
  unfold Reduced.fullVectorCast
  exact (C09_reduced_fullVector names m (ps.map cast) hl).1

/-! ## outputs -/

/-- **Output order.** `set_outputs` accepts exactly lists of states / intermediary variables and
    keeps the given order; by `C09_simulate_eq_spec` row `k` of the simulation is then the
    solution of the `k`-th listed output. -/
theorem C09_output_order (d : Decl τ) (T T' : Tables τ) (outs : List τ)
    (h : setOutputs d T outs = .ok T') :
    T' = { T with outputNames := outs, nOutputs := outs.length } ∧
    ∀ o ∈ outs, o ∈ d.states ∨ o ∈ d.inter := by
  unfold setOutputs at h
  simp only at h
  split_ifs at h with h1 h2
  refine ⟨by injection h with h; exact h.symm, ?_⟩
  intro o ho
  simp only [List.any_eq_true, not_exists, not_and, Bool.not_eq_true'] at h2
  have := h2 o ho
  have h3 : ¬ o ∈ d.states → o ∈ d.inter := by simpa [List.contains_iff_mem] using this
  by_cases hs : o ∈ d.states
  · exact Or.inl hs
  · exact Or.inr (h3 hs)

theorem C09_output_rows {Tm : Type} (sol : Solve τ α Tm) (e0 ec : τ → α) (outs : List τ)
    (times : List Tm) (k : Nat) (hk : k < outs.length) :
    (outs.map (fun o => times.map (fun t => sol e0 ec o t)))[k]? =
      some (times.map (fun t => sol e0 ec outs[k] t)) := by
  simp [hk]

/-! ## the sensitivities are the derivatives with respect to the published parameters -/

theorem specEnv_at (dflt : τ → α) (dom pubd : List τ) (params : List α) (k : Nat)
    (hnd : pubd.Nodup) (hk : k < pubd.length) (hlen : params.length = pubd.length)
    (hm : pubd[k] ∈ dom) : specEnv dflt dom pubd params pubd[k] = params[k]'(by omega) := by
  unfold specEnv
  rw [if_pos hm, hnd.idxOf_getElem, List.getElem?_eq_getElem (by omega)]

/-- changing entry `k` of the vector changes the environment at the `k`-th published name only -/
theorem specEnv_set (dflt : τ → α) (dom pubd : List τ) (params : List α) (k : Nat) (x : α)
    (hnd : pubd.Nodup) (hk : k < pubd.length) (hlen : params.length = pubd.length) :
    specEnv dflt dom pubd (params.set k x) =
      if pubd[k] ∈ dom then upd (specEnv dflt dom pubd params) pubd[k] x
      else specEnv dflt dom pubd params := by
  funext nm
  by_cases hnm : nm = pubd[k]
  · subst hnm
    by_cases hm : pubd[k] ∈ dom
    · rw [if_pos hm]
      unfold specEnv upd
      rw [if_pos hm, hnd.idxOf_getElem, List.getElem?_set_self (by omega)]
      simp
    · rw [if_neg hm]
      unfold specEnv
      rw [if_neg hm, if_neg hm]
  · have hidx : k ≠ pubd.idxOf nm := by
      intro h
      apply hnm
      have hlt : pubd.idxOf nm < pubd.length := by omega
      have := List.getElem_idxOf hlt
      rw [← this]; congr 1; exact h.symm
    have hget : (params.set k x)[pubd.idxOf nm]? = params[pubd.idxOf nm]? :=
      List.getElem?_set_ne hidx
    have hlhs : specEnv dflt dom pubd (params.set k x) nm = specEnv dflt dom pubd params nm := by
      unfold specEnv; rw [hget]
    rw [hlhs]
    split
    · unfold upd; rw [if_neg hnm]
    · rfl

/-- **The sensitivity array holds the derivatives in published order.**  Assume the solver's
    contract: what it returns for `init(s)` / for a constant `c` is the derivative of its solution
    with respect to the initial value of `s` / the value of `c` (hypotheses `hD0`, `hDC`: the IVP
    solution and its differentiability are *not* proved here).  Then for every model declaration
    with distinct names, every vector of the published length and every `k`: the `k`-th entry of
    the sensitivities chi requests is the derivative of the simulated output with respect to the
    `k`-th entry of the parameter vector. -/
theorem C09_sens_is_derivative {Tm : Type} (sol : Solve τ ℝ Tm)
    (d0 dC : (τ → ℝ) → (τ → ℝ) → τ → Tm → τ → ℝ)
    (hD0 : ∀ e0 ec o t nm, HasDerivAt (fun x => sol (upd e0 nm x) ec o t) (d0 e0 ec o t nm) (e0 nm))
    (hDC : ∀ e0 ec o t nm, HasDerivAt (fun x => sol e0 (upd ec nm x) o t) (dC e0 ec o t nm) (ec nm))
    (dflt0 dfltC : τ → ℝ) (d : Decl τ) (asT : List τ → List Nat) (asN : List Nat → List Nat)
    (hnd : (d.states ++ literalConsts d).Nodup) (params : List ℝ)
    (hp : params.length = (setNumberAndNames ltD asT asN d).nParameters)
    (o : τ) (t : Tm) (k : Nat) (hk : k < params.length) :
    let T := setNumberAndNames ltD asT asN d
    let y := fun p : List ℝ => sol (specEnv dflt0 T.stateNames T.parameterNames p)
      (specEnv dfltC T.constNames T.parameterNames p) o t
    ∃ s, (sensAll T)[k]? = some s ∧
      HasDerivAt (fun x => y (params.set k x))
        (solverSens d0 dC (specEnv dflt0 T.stateNames T.parameterNames params)
          (specEnv dfltC T.constNames T.parameterNames params) o t s) params[k] := by
  intro T y
  have hnds : d.states.Nodup := (List.nodup_append.mp hnd).1
  have hndc : (literalConsts d).Nodup := (List.nodup_append.mp hnd).2.1
  obtain ⟨hpn0, hsp0, _, hcp0, _, hns0, hnp0⟩ := C09_published_order d asT asN hnds hndc
  obtain ⟨_, _, hget0, _⟩ := C09_sens_order d asT asN hnds hndc []
  have hpn : T.parameterNames = T.stateNames ++ T.constNames := hpn0
  have hsp : T.stateNames.Perm d.states := hsp0
  have hcp : T.constNames.Perm (literalConsts d) := hcp0
  have hns : T.nStates = T.stateNames.length := hns0
  have hnp : T.nParameters = T.parameterNames.length := hnp0
  have hget : ∀ k (hk : k < T.parameterNames.length), (sensAll T)[k]? =
      some (if k < T.nStates then .init T.parameterNames[k] else .const T.parameterNames[k]) := hget0
  have hp : params.length = T.nParameters := hp
  have hPlen : T.parameterNames.length = T.stateNames.length + T.constNames.length := by
    rw [hpn, List.length_append]
  have hndP : T.parameterNames.Nodup := by
    rw [hpn]; exact (List.Perm.append hsp hcp).nodup_iff.mpr hnd
  have hlen : params.length = T.parameterNames.length := by rw [hp, hnp]
  have hkP : k < T.parameterNames.length := by omega
  refine ⟨_, hget k hkP, ?_⟩
  have hdisj := (List.nodup_append.mp (by rw [hpn] at hndP; exact hndP)).2.2
  by_cases hks : k < T.nStates
  · have hks' : k < T.stateNames.length := by rw [← hns]; exact hks
    have hPk : T.parameterNames[k] = T.stateNames[k] := by
      simp only [hpn]; exact List.getElem_append_left hks'
    have hmS : T.parameterNames[k] ∈ T.stateNames := by rw [hPk]; exact List.getElem_mem _
    have hmC : T.parameterNames[k] ∉ T.constNames := fun h => hdisj _ hmS _ h rfl
    have hfun : (fun x => y (params.set k x)) = fun x =>
        sol (upd (specEnv dflt0 T.stateNames T.parameterNames params) T.parameterNames[k] x)
          (specEnv dfltC T.constNames T.parameterNames params) o t := by
      funext x
      show sol _ _ o t = _
      rw [specEnv_set dflt0 _ _ params k x hndP hkP hlen, if_pos hmS,
        specEnv_set dfltC _ _ params k x hndP hkP hlen, if_neg hmC]
    rw [hfun, if_pos hks]
    have := hD0 (specEnv dflt0 T.stateNames T.parameterNames params)
      (specEnv dfltC T.constNames T.parameterNames params) o t T.parameterNames[k]
    rw [specEnv_at dflt0 _ _ params k hndP hkP hlen hmS] at this
    exact this
  · have hks' : T.stateNames.length ≤ k := by rw [← hns]; omega
    have hPk : T.parameterNames[k] = T.constNames[k - T.stateNames.length]'(by omega) := by
      simp only [hpn]; exact List.getElem_append_right hks'
    have hmC : T.parameterNames[k] ∈ T.constNames := by rw [hPk]; exact List.getElem_mem _
    have hmS : T.parameterNames[k] ∉ T.stateNames := fun h => hdisj _ h _ hmC rfl
    have hfun : (fun x => y (params.set k x)) = fun x =>
        sol (specEnv dflt0 T.stateNames T.parameterNames params)
          (upd (specEnv dfltC T.constNames T.parameterNames params) T.parameterNames[k] x) o t := by
      funext x
      show sol _ _ o t = _
      rw [specEnv_set dflt0 _ _ params k x hndP hkP hlen, if_neg hmS,
        specEnv_set dfltC _ _ params k x hndP hkP hlen, if_pos hmC]
    rw [hfun, if_neg hks]
    have := hDC (specEnv dflt0 T.stateNames T.parameterNames params)
      (specEnv dfltC T.constNames T.parameterNames params) o t T.parameterNames[k]
    rw [specEnv_at dfltC _ _ params k hndP hkP hlen hmC] at this
    exact this

/-! ## non-vacuity: the erlotinib model declares `tumour_volume` before `drug_amount` -/

example : (setNumberAndNames (τ := String) ltD (argsortBy ltD) (argsortBy ltD)
    { states := ["global.tumour_volume", "central.drug_amount"],
      consts := [("central.size", true), ("global.kappa", true), ("global.derived", false)],
      inter := ["central.drug_concentration"] }).parameterNames =
    ["central.drug_amount", "global.tumour_volume", "central.size", "global.kappa"] := by decide

example : (simulateRecord (τ := String) (α := Nat)
    { states := ["c", "a", "b"], consts := [("k", true)], inter := [] }
    (setNumberAndNames ltD (argsortBy ltD) (argsortBy ltD)
      { states := ["c", "a", "b"], consts := [("k", true)], inter := [] }) [10, 20, 30, 40]).toOption.map
      (fun r => (r.stateAssign, r.constCalls)) =
    some ([("c", 30), ("a", 10), ("b", 20)], [("k", 40)]) := by decide

/-- the single-argsort slip is refuted by the model: a 3-cycle is not its own inverse -/
example : fancyIndex [10, 20, 30] (argsortBy ltD ["c", "a", "b"]) = .ok [20, 30, 10] := by decide

/-! ### a `PKPDModel` keeps its doses: the solver a `simulate` runs on integrates with the model's regimen after
    every history of switching sensitivities on / off (directly, through `set_outputs`, through a reduced
    wrapper) and of setting regimens -/

section dosing
variable {ρ : Type}

theorem C09_dose_step (s : DoseState ρ) (op : DoseOp ρ) (h : s.solver = s.regimen) :
    (doseStep s op).solver = (doseStep s op).regimen := by
  cases op with
  | setRegimen r => rfl
  | sens enabled =>
    cases enabled <;> cases hs : s.sensOn <;> simp [doseStep, sbmlSens, hs, h]

theorem C09_dose_history (ops : List (DoseOp ρ)) : ∀ s : DoseState ρ, s.solver = s.regimen →
    (doseRun s ops).solver = (doseRun s ops).regimen := by
  induction ops with
  | nil => intro s h; exact h
  | cons op ops ih => intro s h; exact ih _ (C09_dose_step s op h)

theorem C09_dose_sens_keeps_regimen (s : DoseState ρ) (b : Bool) :
    (doseStep s (.sens b)).regimen = s.regimen ∧ (doseStep s (.sens b)).sensOn = b := by
  cases b <;> cases hs : s.sensOn <;> simp [doseStep, sbmlSens, hs]

theorem doseRun_append (a b : List (DoseOp ρ)) : ∀ s : DoseState ρ,
    doseRun s (a ++ b) = doseRun (doseRun s a) b := by
  induction a with
  | nil => intro s; rfl
  | cons o os ih => intro s; exact ih _

theorem doseRun_sens_regimen (bs : List Bool) : ∀ s : DoseState ρ,
    (doseRun s (bs.map .sens)).regimen = s.regimen := by
  induction bs with
  | nil => intro s; rfl
  | cons b bs ih =>
    intro s
    simp only [List.map_cons, doseRun]
    rw [ih, (C09_dose_sens_keeps_regimen s b).1]

theorem C09_dose_last_regimen (ops : List (DoseOp ρ)) (s : DoseState ρ) (r : ρ) (bs : List Bool) :
    (doseRun s (ops ++ [.setRegimen r] ++ bs.map .sens)).regimen = some r := by
  rw [doseRun_append, doseRun_sens_regimen, doseRun_append]
  rfl

/-- the solver a `simulate` runs on integrates with the regimen set last, whatever was switched
    on and off in between, provided the model started consistent -/
theorem C09_dose_solver_last (ops : List (DoseOp ρ)) (s : DoseState ρ) (r : ρ) (bs : List Bool)
    (h : s.solver = s.regimen) :
    (doseRun s (ops ++ [.setRegimen r] ++ bs.map .sens)).solver = some r := by
  rw [C09_dose_history _ s h, C09_dose_last_regimen]

/-- taking the decision AFTER the base-class call (when `sensOn` already equals `enabled`) loses the doses -/
example : let s : DoseState Nat := { sensOn := true, regimen := some 1, solver := some 1 }
    let s1 := sbmlSens s false
    (if (false || s1.sensOn) then { s1 with solver := s1.regimen } else s1).solver = none := by
  decide
end dosing

end ChiModel.Mech
