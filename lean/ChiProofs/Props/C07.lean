import ChiModel.Covariate
import ChiModel.Hier
import ChiProofs.Lemmas.C07Sel
import ChiProofs.Lemmas.C07Num
import ChiProofs.Props.C05
import Mathlib.Tactic.NormNum
import Mathlib.Tactic.Linarith

/-!
# C07 — covariate models shift the selected population parameters linearly

Model: `ChiModel/Covariate.lean` (`LinearCovariateModel`, `CovariatePopulationModel`).
Helper lemmas: `ChiProofs/Lemmas/C07Sel.lean`, `ChiProofs/Lemmas/C07Num.lean`.

Reading of the statement.
* `ϑ_i = ϑ₀ + Σ_c β_c χ_{ic}` on the selected entries, `ϑ₀` elsewhere: `C07_transform`.
* zero covariates / zero β ⇒ the wrapped model: `C07_zero`, `C07_zero_ll`, `C07_zero_indiv`.
* likelihood / individual parameters / sampling = the wrapped model evaluated per individual with
  `ϑ_i`: `C07_equiv_per_individual`, `C07_equiv_indiv(_partial)`, `C07_equiv_sample`; the wrapped
  `HeterogeneousModel` violates it (`C07_hetero_ll_counterexample`, known finding).
* sensitivities w.r.t. `ϑ₀` and `β` = transpose of the linear map: `C07_grad_transpose`,
  `C07_grad_entries`, `C07_th_hasDerivAt`, `C07_grad_hasDerivAt`, `C07_grad`; the reduced
  form over pooled / heterogeneous models is wrong (`C07_grad_pooled_counterexample`, known
  finding; `C07_grad_reduced_partial` for the other kinds).
* every selection in range, any order, duplicates; names identify `(param, dim, covariate)`:
  `C07_selection`, `C07_selection_unique`, `C07_selection_order_irrelevant`,
  `C07_beta_index_bijection`, `C07_names`, `C07_names_invariant`, `C07_constructor_selection`,
  `C07_constructor_names`, `C07_setpop_checked`; the pre-fix variants:
  `C07_unstable_counterexample`, `C07_setpop_counterexample`, `C07_callerorder_counterexample`.
-/
set_option linter.unusedSectionVars false
set_option linter.unusedSimpArgs false
set_option linter.unusedVariables false
namespace ChiModel
open ScalarFns

/-! ## 1. the selection -/

/-- The stored selection is the de-duplicated input in strictly increasing `(param, dim)` order:
    no duplicates, lexicographically sorted, exactly the input's pairs — for every input list
    (any length, any order, any duplicates). -/
theorem C07_selection (input : List Pair) :
    (normSel input).Nodup ∧ (normSel input).Pairwise LexLt ∧ ∀ x, x ∈ normSel input ↔ x ∈ input :=
  ⟨normSel_nodup input, normSel_sorted input, mem_normSel input⟩

/-- ANY list that is strictly `(param, dim)`-sorted and has the input's members is the stored
    selection: whatever correct sort `np.lexsort` implements (stable or not), the result is this
    one. -/
theorem C07_selection_unique (input l : List Pair) (hs : l.Pairwise LexLt)
    (hm : ∀ x, x ∈ l ↔ x ∈ input) : l = normSel input :=
  normSel_unique input l hs hm

/-- order and multiplicity of the caller's list are irrelevant -/
theorem C07_selection_order_irrelevant (a b : List Pair) (h : ∀ x, x ∈ a ↔ x ∈ b) :
    normSel a = normSel b :=
  normSel_unique b (normSel a) (normSel_sorted a) (fun x => by rw [mem_normSel, h x])

/-- flat β index `k = s · n_cov + c` ↔ (selected pair `s`, covariate `c`): a bijection between
    `{k < n_sel · n_cov}` and `{s < n_sel} × {c < n_cov}` -/
theorem C07_beta_index_bijection (nSel nCov : Nat) :
    (∀ s c, s < nSel → c < nCov →
      s * nCov + c < nSel * nCov ∧ (s * nCov + c) / nCov = s ∧ (s * nCov + c) % nCov = c) ∧
    (∀ k, k < nSel * nCov →
      k / nCov < nSel ∧ k % nCov < nCov ∧ (k / nCov) * nCov + k % nCov = k) := by
  constructor
  · intro s c hs hc
    refine ⟨?_, (beta_index nCov s c hc).1, (beta_index nCov s c hc).2⟩
    calc s * nCov + c < s * nCov + nCov := by omega
      _ = (s + 1) * nCov := by rw [Nat.succ_mul]
      _ ≤ nSel * nCov := Nat.mul_le_mul_right _ hs
  · intro k hk
    have hpos : 0 < nCov := by
      rcases Nat.eq_zero_or_pos nCov with h | h
      · subst h; simp at hk
      · exact h
    exact ⟨by rw [Nat.div_lt_iff_lt_mul hpos]; exact hk, Nat.mod_lt _ hpos, div_mod_index nCov k hpos⟩

/-- names: β number `s · n_cov + c` is called
    `<population name of (p_s, d_s)> ++ " " ++ <covariate name c>`, where `(p_s, d_s)` is the
    `s`-th STORED pair — after `set_population_parameters` through the population model, for every
    selection. Together with `C07_transform` (that same β acts on `ϑ[p_s, d_s]` in proportion to
    covariate `c`) the name identifies the `(parameter, dimension, covariate)` it acts on. -/
theorem C07_names (m : CovModel) (indices : List Pair) (s c : Nat)
    (hs : s < (normSel indices).length) (hc : c < m.nCov) :
    let m' := m.setPop false indices
    m'.sel = normSel indices ∧
    (withCovNames m'.nCov m'.stored m'.covNames).length = (normSel indices).length * m.nCov ∧
    (withCovNames m'.nCov m'.stored m'.covNames)[s * m.nCov + c]?
      = some ((popFullNames m.nDim m.baseNames m.dimNames).getD
          ((normSel indices)[s].1 * m.nDim + (normSel indices)[s].2) "" ++ " " ++ m.covNames.getD c "") := by
  intro m'
  have hlen : m'.stored.length = (normSel indices).length * m.nCov := selNames_length _ _ _ _
  have hk : s * m.nCov + c < m'.stored.length := by
    rw [hlen]; exact ((C07_beta_index_bijection _ _).1 s c hs hc).1
  refine ⟨rfl, by simp [withCovNames, hlen], ?_⟩
  rw [withCovNames_getElem? _ _ _ _ hk]
  have h1 : m'.stored[s * m.nCov + c]? = some ((popFullNames m.nDim m.baseNames m.dimNames).getD
      ((normSel indices)[s].1 * m.nDim + (normSel indices)[s].2) "") :=
    selNames_getElem? m.nDim m.nCov (normSel indices) _ s c hs hc
  have h2 : m'.nCov = m.nCov := rfl
  rw [List.getD_eq_getElem?_getD, h1, h2, (beta_index m.nCov s c hc).2]
  rfl

/-- the names invariant: stored β names = names of the STORED selection under the current
    dimension names -/
def CovModel.NamesOk (m : CovModel) : Prop :=
  m.stored = selNames m.nDim m.nCov m.sel (popFullNames m.nDim m.baseNames m.dimNames)

/-- is the call a `set_parameter_names(names)` with user-chosen names? -/
def CovOp.isSetNames : CovOp → Bool
  | .setNames _ _ => true
  | _ => false

/-- `set_population_parameters`, `set_dim_names` and `set_parameter_names(None)` (re)establish the
    naming whatever the names were before — in particular a reset after user-chosen names gives
    the names a fresh model has -/
theorem C07_names_reset (m : CovModel) (o : CovOp)
    (ho : (∃ ix, o = .setPop ix) ∨ (∃ ns, o = .setDimNames ns) ∨ (∃ d, o = .resetNames d)) :
    (m.step o).NamesOk := by
  rcases ho with ⟨_, rfl⟩ | ⟨_, rfl⟩ | ⟨_, rfl⟩ <;> rfl

theorem C07_namesOk_step (m : CovModel) (o : CovOp) (ho : o.isSetNames = false) (hm : m.NamesOk) :
    (m.step o).NamesOk := by
  cases o with
  | setPop ix => rfl
  | setDimNames ns => rfl
  | setNIds n => exact hm
  | setNames a b => simp [CovOp.isSetNames] at ho
  | resetNames d => rfl

/-- the constructor selects every pair; its stored order is the flat (parameter-major) order of
    `ndarray.flatten`, although the index list is built dimension-major -/
theorem C07_constructor_selection (perDim nDim : Nat) :
    normSel (ctorIndices perDim nDim) = flatPairs perDim nDim ∧
    (∀ p d, p < perDim → d < nDim → (flatPairs perDim nDim)[p * nDim + d]? = some (p, d)) :=
  ⟨normSel_ctor perDim nDim, fun p d hp hd => flatPairs_getElem? perDim nDim p d hp hd⟩

/-- the constructor names the βs block by block in the population model's own flat order; that
    IS the stored-order naming (because of `C07_constructor_selection`) -/
theorem C07_constructor_names (perDim nDim nCov : Nat) (baseNames dimNames covNames : List String)
    (hb : baseNames.length = perDim * nDim) :
    (CovModel.construct perDim nDim nCov baseNames dimNames covNames).NamesOk := by
  unfold CovModel.NamesOk CovModel.construct
  simp only
  rw [normSel_ctor]
  exact ctor_names_eq perDim nDim nCov _ (by simp [popFullNames, hb])

/-- after the constructor and ANY history of `set_population_parameters` / `set_dim_names` /
    `set_n_ids` / `set_parameter_names(None)` calls the β names are those of the stored selection
    (so `C07_names` applies at every point) -/
theorem C07_names_invariant (perDim nDim nCov : Nat) (baseNames dimNames covNames : List String)
    (hb : baseNames.length = perDim * nDim) (ops : List CovOp)
    (hops : ∀ o ∈ ops, o.isSetNames = false) :
    (ops.foldl CovModel.step
      (CovModel.construct perDim nDim nCov baseNames dimNames covNames)).NamesOk := by
  induction ops using List.reverseRecOn with
  | nil => exact C07_constructor_names perDim nDim nCov baseNames dimNames covNames hb
  | append_singleton ops o ih =>
    rw [List.foldl_append]
    exact C07_namesOk_step _ o (hops o (by simp))
      (ih (fun o' ho' => hops o' (by simp [ho'])))

/-- `CovariatePopulationModel.set_population_parameters`: every non-empty list of in-range pairs
    (any order, duplicates) is accepted and stores `normSel`; a pair out of range is an
    `IndexError`; the stored pairs are in range. -/
theorem C07_setpop_checked (perDim nDim : Nat) (indices : List Pair) (hne : indices ≠ [])
    (hr : ∀ x ∈ indices, x.1 < perDim ∧ x.2 < nDim) :
    setPopChecked perDim nDim (indices.map (fun x => ((x.1 : Int), (x.2 : Int))))
      = .ok (normSel indices) ∧ ∀ x ∈ normSel indices, x.1 < perDim ∧ x.2 < nDim := by
  constructor
  · unfold setPopChecked
    have h1 : (indices.map (fun x => ((x.1 : Int), (x.2 : Int)))).isEmpty = false := by
      cases indices with
      | nil => exact absurd rfl hne
      | cons a as => rfl
    have h2 : (indices.map (fun x => ((x.1 : Int), (x.2 : Int)))).any (fun x =>
        decide (x.1 ≥ (perDim : Int)) || decide (x.2 ≥ (nDim : Int)) || decide (x.1 < 0)
          || decide (x.2 < 0)) = false := by
      rw [List.any_eq_false]
      intro x hx
      obtain ⟨y, hy, rfl⟩ := List.mem_map.mp hx
      have := hr y hy
      simp only [ge_iff_le, Bool.or_eq_true, decide_eq_true_eq, not_or, not_le, not_lt]
      omega
    simp only [h1, h2, Bool.false_eq_true, if_false]
    congr 2
    rw [List.map_map]
    conv_rhs => rw [← List.map_id indices]
    apply List.map_congr_left
    intro x _
    simp
  · intro x hx
    exact hr x ((mem_normSel indices x).mp hx)

theorem C07_setpop_out_of_range (perDim nDim : Nat) (indices : List (Int × Int)) (hne : indices ≠ [])
    (x : Int × Int) (hx : x ∈ indices)
    (hbad : x.1 ≥ perDim ∨ x.2 ≥ nDim ∨ x.1 < 0 ∨ x.2 < 0) :
    setPopChecked perDim nDim indices = .error .indexError := by
  unfold setPopChecked
  have h1 : indices.isEmpty = false := by
    cases indices with
    | nil => exact absurd rfl hne
    | cons a as => rfl
  have h2 : indices.any (fun x =>
      decide (x.1 ≥ (perDim : Int)) || decide (x.2 ≥ (nDim : Int)) || decide (x.1 < 0)
        || decide (x.2 < 0)) = true := by
    rw [List.any_eq_true]
    refine ⟨x, hx, ?_⟩
    simp only [ge_iff_le, Bool.or_eq_true, decide_eq_true_eq]
    omega
  simp [h1, h2]

/-! ### `set_n_ids` around a heterogeneous model (one parameter row per individual) -/

theorem C07_hetBaseNames_length (n nDim : Nat) : (hetBaseNames n nDim).length = n * nDim := by
  unfold hetBaseNames
  rw [flatMap_block_length _ nDim _ (by intro a _; simp), List.length_range]

/-- a freshly constructed wrapper around a heterogeneous model with `n` individuals: the names
    cover exactly `n_parameters()`, they name the stored selection, and a vector of that length
    passes the split -/
theorem C07_set_n_ids_fresh (n nDim nCov : Nat) (dims covs : List String) :
    let h := CovHet.construct n nDim nCov dims covs
    h.evaluable = true ∧ (h.m.parameterNames false).length = h.nParameters ∧ h.m.NamesOk := by
  intro h
  have hsel : h.m.sel.length = n * nDim := by
    show (normSel (ctorIndices n nDim)).length = _
    rw [normSel_ctor, flatPairs_length]
  have hnp : h.nParameters = n * nDim + nCov * (n * nDim) := by
    unfold CovHet.nParameters; rw [hsel]; rfl
  refine ⟨?_, ?_, C07_constructor_names n nDim nCov _ dims covs (C07_hetBaseNames_length n nDim)⟩
  · unfold CovHet.evaluable
    rw [hnp, hsel]
    have : h.nPopSplit = n * nDim := rfl
    have hm : h.m.nCov = nCov := rfl
    rw [this, hm, Nat.add_sub_cancel_left, Nat.mul_comm nCov]
    simp
  · rw [hnp]
    unfold CovModel.parameterNames
    simp only [Bool.false_eq_true, if_false, List.length_append]
    have h1 : (popFullNames h.m.nDim h.m.baseNames h.m.dimNames).length = n * nDim := by
      simp only [popFullNames, List.length_map, List.length_range]
      exact C07_hetBaseNames_length n nDim
    have h2 : (withCovNames h.m.nCov h.m.stored h.m.covNames).length = n * nDim * nCov := by
      simp only [withCovNames, List.length_map, List.length_range]
      show ((popFullNames nDim (hetBaseNames n nDim) dims).flatMap (fun x => List.replicate nCov x)).length = _
      rw [flatMap_block_length _ nCov _ (by intro a _; simp)]
      simp [popFullNames, C07_hetBaseNames_length]
    rw [h1, h2, Nat.mul_comm nCov]

theorem normSel_flatPairs (perDim nDim : Nat) : normSel (flatPairs perDim nDim) = flatPairs perDim nDim :=
  (normSel_unique _ _ (flatPairs_sorted perDim nDim) (fun _ => Iff.rfl)).symm

/-- ONE `set_n_ids(n)` on a wrapper whose selection is still the constructor's "all parameters":
    the result is EXACTLY the wrapper a fresh construction with `n` individuals gives (selection,
    names, split point, and the all-selected mark) -/
theorem C07_set_n_ids_all_selected (n0 n nDim nCov : Nat) (hD : 0 < nDim) (dims covs : List String) :
    (CovHet.construct n0 nDim nCov dims covs).setNIds n = .ok (CovHet.construct n nDim nCov dims covs) := by
  unfold CovHet.setNIds
  by_cases e : n = n0
  · subst e; simp [CovHet.construct, CovModel.construct]
  · have hne : ¬ (n * (CovHet.construct n0 nDim nCov dims covs).m.nDim
        = (CovHet.construct n0 nDim nCov dims covs).m.perDim * (CovHet.construct n0 nDim nCov dims covs).m.nDim) := by
      show ¬ (n * nDim = n0 * nDim)
      intro h; exact e (Nat.eq_of_mul_eq_mul_right hD h)
    rw [if_neg hne]
    show Except.ok _ = Except.ok _
    congr 1
    unfold CovHet.construct CovModel.construct CovModel.setPop
    simp only [normSel_flatPairs, normSel_ctor, Bool.false_eq_true, if_false]
    congr 2
    exact (ctor_names_eq n nDim nCov _ (by
      simp only [popFullNames, List.length_map, List.length_range]
      exact C07_hetBaseNames_length n nDim)).symm

/-- ANY sequence of `set_n_ids` calls on a wrapper without user selection never raises and ends
    in the state of a fresh wrapper with the LAST number of individuals: growing, shrinking,
    repeating — the all-parameters default survives every call -/
theorem C07_set_n_ids_history (n0 nDim nCov : Nat) (hD : 0 < nDim) (dims covs : List String)
    (ns : List Nat) :
    (ns.map CovOp.setNIds).foldl CovHet.stepKeep (CovHet.construct n0 nDim nCov dims covs)
      = CovHet.construct (ns.getLastD n0) nDim nCov dims covs := by
  induction ns generalizing n0 with
  | nil => rfl
  | cons n rest ih =>
    rw [List.map_cons, List.foldl_cons]
    have : (CovHet.construct n0 nDim nCov dims covs).stepKeep (.setNIds n)
        = CovHet.construct n nDim nCov dims covs := by
      have e := C07_set_n_ids_all_selected n0 n nDim nCov hD dims covs
      simp only [CovHet.stepKeep, CovHet.step, e]
    rw [this, ih n]
    cases rest <;> rfl

/-- a selection made by the user survives `set_n_ids(n)` when all of it still exists: same
    stored selection, still marked as the user's, names of the stored selection, evaluable; and
    if some selected row no longer exists the call raises and nothing changes -/
theorem C07_set_n_ids_keeps_selection (h : CovHet) (n : Nat) (ix : List Pair)
    (hsel : h.m.sel = normSel ix) (hall : h.allSelected = false)
    (hsplit : n * h.m.nDim ≠ h.m.perDim * h.m.nDim) :
    ((∀ x ∈ ix, x.1 < n) →
      ∃ h', h.setNIds n = .ok h' ∧ h'.m.sel = normSel ix ∧ h'.allSelected = false ∧ h'.m.NamesOk ∧
        h'.m.perDim = n ∧ h'.evaluable = true) ∧
    ((∃ x ∈ ix, n ≤ x.1) → h.setNIds n = .error .valueError ∧
      h.stepKeep (.setNIds n) = h.afterRaise ∧
      (h.m.baseNames = hetBaseNames h.m.perDim h.m.nDim → h.stepKeep (.setNIds n) = h)) := by
  constructor
  · intro hr
    have hin : h.m.sel.all (fun x => decide (x.1 < n)) = true := by
      rw [List.all_eq_true]
      intro x hx
      rw [hsel, mem_normSel] at hx
      simpa using hr x hx
    refine ⟨⟨({ h.m with perDim := n, baseNames := hetBaseNames n h.m.nDim } : CovModel).setPop false h.m.sel,
        n * h.m.nDim, h.allSelected⟩,
      by unfold CovHet.setNIds; simp only [hsplit, if_false, hall, Bool.false_eq_true, hin, if_true],
      ?_, hall, rfl, rfl, ?_⟩
    · show normSel h.m.sel = normSel ix
      rw [hsel]
      exact C07_selection_order_irrelevant _ _ (fun x => mem_normSel ix x)
    · unfold CovHet.evaluable CovHet.nParameters
      simp only [CovModel.setPop]
      have : n * h.m.nDim + h.m.nCov * (normSel h.m.sel).length - n * h.m.nDim
          = (normSel h.m.sel).length * h.m.nCov := by
        rw [Nat.add_sub_cancel_left, Nat.mul_comm]
      simp [this]
  · rintro ⟨x, hx, hge⟩
    have hin : h.m.sel.all (fun x => decide (x.1 < n)) = false := by
      rw [Bool.eq_false_iff]
      intro hall'
      rw [List.all_eq_true] at hall'
      have := hall' x (by rw [hsel, mem_normSel]; exact hx)
      simp at this
      omega
    have herr : h.setNIds n = .error .valueError := by
      unfold CovHet.setNIds
      simp only [hsplit, if_false, hall, Bool.false_eq_true, hin]
    have hk : h.stepKeep (.setNIds n) = h.afterRaise := by
      simp only [CovHet.stepKeep, CovHet.step, herr]
    refine ⟨herr, hk, fun hb => ?_⟩
    rw [hk]
    unfold CovHet.afterRaise
    rw [← hb]

/-- …but "left unchanged" fails for user-chosen population names: two individuals, selection
    `[(1,0)]`, names set by the user, then `set_n_ids(1)` (row 1 would disappear → `ValueError`):
    the population names are back to `ID 1`, `ID 2`; selection, β names and counts are kept. -/
theorem C07_set_n_ids_raise_counterexample :
    let h := (((CovHet.construct 2 1 1 ["Dim. 1"] ["Cov. 1"]).setPop [(1, 0)]).stepKeep
      (.setNames ["mine1", "mine2"] ["b"]))
    h.setNIds 1 = .error .valueError ∧
    (h.m.parameterNames true) = ["mine1", "mine2", "b Cov. 1"] ∧
    ((h.stepKeep (.setNIds 1)).m.parameterNames true) = ["ID 1", "ID 2", "b Cov. 1"] ∧
    (h.stepKeep (.setNIds 1)).m.sel = h.m.sel ∧ (h.stepKeep (.setNIds 1)).nParameters = h.nParameters := by
  intro h
  decide

/-- before `ec83423`: wrap a 1-individual heterogeneous model (the default), then `set_n_ids(2)`:
    `n_parameters()` said 3, there were 3 names (`ID 1`, `ID 2` and ONE β — the new row had no β),
    and no vector of that length could be evaluated (the β block was read from position
    `_n_pop = 1`: 2 entries for 1 β → reshape `ValueError`); the repaired code gives 4 / 4 /
    evaluable. -/
theorem C07_set_n_ids_counterexample :
    let h := (CovHet.construct 1 1 1 ["Dim. 1"] ["Cov. 1"]).setNIdsLegacy 2
    h.nParameters = 3 ∧ (h.m.parameterNames false).length = 3 ∧ h.evaluable = false ∧
    ((CovHet.construct 1 1 1 ["Dim. 1"] ["Cov. 1"]).stepKeep (.setNIds 2)).nParameters = 4 ∧
    ((CovHet.construct 1 1 1 ["Dim. 1"] ["Cov. 1"]).stepKeep (.setNIds 2)).evaluable = true := by
  decide


/-! ### the pre-fix selection -/

/-- pre-fix, through the population model (rows arrive as numpy arrays): ANY two or more pairs
    raise (`ValueError`: ambiguous truth value), where the repaired code stores the selection -/
theorem C07_setpop_counterexample :
    (∀ a b rest, legacyDedupArray (a :: b :: rest) = .error .ambiguousTruth) ∧
    legacyDedupArray [(0, 0), (1, 1)] = .error .ambiguousTruth ∧
    setPopChecked 2 2 [(0, 0), (1, 1)] = .ok [(0, 0), (1, 1)] := by
  refine ⟨fun _ _ _ => rfl, rfl, by decide⟩

/-- pre-fix ordering with numpy's default `argsort` specified only as "a permutation that
    sorts": for the constructor's own selection of a 2-parameter model with `n_dim = 4` there are
    admissible argsort results (`permD` sorts by `d`, `permP` sorts by `p`) that leave `(0,3)`
    before `(0,2)` — exactly what this machine's numpy does. The constructor names slot 2 for
    `(0,2)` (flat order, `C07_constructor_names`), but β-slot 2 then acts on `ϑ[0,3]`. -/
theorem C07_unstable_counterexample :
    let uniq := dedupFirst (ctorIndices 2 4)
    let permD := [0, 1, 2, 3, 4, 5, 6, 7]
    let permP := [0, 2, 6, 4, 1, 3, 5, 7]
    isArgsortBy (·.2) uniq permD = true ∧
    isArgsortBy (·.1) (applyPerm permD uniq) permP = true ∧
    legacyOrder permD permP uniq
      = [(0, 0), (0, 1), (0, 3), (0, 2), (1, 0), (1, 1), (1, 2), (1, 3)] ∧
    legacyOrder permD permP uniq ≠ normSel (ctorIndices 2 4) ∧
    (legacyOrder permD permP uniq)[2]? = some (0, 3) ∧ (flatPairs 2 4)[2]? = some (0, 2) := by
  decide

/-- with that stored order the slot named for `(0,2)` shifts `ϑ[0,3]` -/
theorem C07_unstable_acts_on {α : Type} [Add α] [Sub α] [Mul α] [Div α] [Neg α] [ScalarFns α]
    (nCov : Nat) (params : Nat → α) (cov : Nat → Nat → α) (i : Nat) :
    let c : CovCfg := ⟨4, 2, nCov, [(0, 0), (0, 1), (0, 3), (0, 2), (1, 0), (1, 1), (1, 2), (1, 3)]⟩
    covTh c params cov i 0 3 = c.base params 0 3 + isum nCov (fun k => cov i k * c.beta params 2 k) := by
  intro c
  have hn : c.sel.Nodup := by
    show ([(0, 0), (0, 1), (0, 3), (0, 2), (1, 0), (1, 1), (1, 2), (1, 3)] : List Pair).Nodup
    decide
  have hs : 2 < c.sel.length := by
    show 2 < ([(0, 0), (0, 1), (0, 3), (0, 2), (1, 0), (1, 1), (1, 2), (1, 3)] : List Pair).length
    decide
  exact covTh_selected c hn params cov i 2 hs

/-- pre-fix names came from the caller's order: for `[[1,0],[0,0]]` the stored selection is
    `[(0,0),(1,0)]`, but slot 0 (acting on `(0,0)`) carries the name of `(1,0)` -/
theorem C07_callerorder_counterexample :
    let m := CovModel.construct 2 1 1 ["A", "B"] ["x"] ["c"]
    (m.setPop true [(1, 0), (0, 0)]).sel = [(0, 0), (1, 0)] ∧
    (m.setPop true [(1, 0), (0, 0)]).stored = ["B x", "A x"] ∧
    (m.setPop false [(1, 0), (0, 0)]).stored = ["A x", "B x"] ∧
    ¬ (m.setPop true [(1, 0), (0, 0)]).NamesOk := by
  intro m
  refine ⟨by decide, by decide, by decide, ?_⟩
  unfold CovModel.NamesOk
  decide


/-! ## 2. the transform -/

section generic
variable {α : Type} [Add α] [Sub α] [Mul α] [Div α] [Neg α] [ScalarFns α]

/-- `ϑ_i[p,d] = ϑ₀[p,d] + Σ_c χ_{i,c} · β[s · n_cov + c]` for the `s`-th stored pair `(p,d)`, and
    `ϑ₀[p,d]` for every pair that is not selected — for every scalar type (so also for the
    executable `Float` instance), every `n_dim`, `n_cov`, every duplicate-free selection
    (`C07_selection`), every covariate matrix, every individual. `ϑ₀[p,d]` is entry
    `p · n_dim + d` and `β[s,c]` entry `n_pop + s · n_cov + c` of the flat parameter vector. -/
theorem C07_transform (c : CovCfg) (hn : c.sel.Nodup) (params : Nat → α) (cov : Nat → Nat → α)
    (i : Nat) :
    (∀ s (hs : s < c.sel.length),
      covTh c params cov i c.sel[s].1 c.sel[s].2
        = params (c.sel[s].1 * c.nDim + c.sel[s].2)
          + isum c.nCov (fun k => cov i k * params (c.nPop + s * c.nCov + k))) ∧
    (∀ p d, (p, d) ∉ c.sel → covTh c params cov i p d = params (p * c.nDim + d)) :=
  ⟨fun s hs => covTh_selected c hn params cov i s hs,
   fun p d h => covTh_unselected c params cov i p d h⟩

/-- the model's transform is the prototype `SubModel.th` of `Hier.lean` (C02's value path) -/
theorem C07_th_bridge (k : Kind) (c : CovCfg) (hc : c.nCov ≠ 0) (nIds : Nat)
    (hp : k.perDim nIds = c.perDim) (params : Nat → α) (cov : Nat → Nat → α) :
    covTh c params cov = (SubModel.mk k c.nDim c.nCov c.sel).th nIds params cov := by
  funext i p d
  unfold covTh SubModel.th
  simp only [hc, if_false, SubModel.nPop, hp, CovCfg.base, CovCfg.beta, CovCfg.nPop]
  rfl

/-- sampling: row `i` of `CovariatePopulationModel.sample` is the wrapped model's own sampling
    transformation applied to `ϑ_i` and to row `i`'s primitive draws; the call raises exactly
    when some row's wrapped call would raise -/
theorem C07_equiv_sample (k : Kind) (c : CovCfg) (nSamples : Nat) (params : List α)
    (hlen : params.length = c.nParams) (cov : Nat → Nat → α) (z : Nat → Nat → α) (pick : Nat → Nat) :
    let th := covTh c (vecOf params) cov
    covSample k c nSamples params cov z pick =
      if iany nSamples (fun i => sampleRaises k c.nDim (fun _ p d => th i p d) 0) then .error .valueError
      else .ok ((List.range nSamples).map (fun i => (List.range c.nDim).map (fun d =>
        sampleEntry k (fun _ p d => th i p d) (fun _ d' => z i d') (fun _ => pick i) 0 d))) := by
  intro th
  unfold covSample
  simp only [hlen, ne_eq, not_true_eq_false, if_false]
  have h1 : ∀ i, sampleRaises k c.nDim (fun _ p d => th i p d) 0 = sampleRaises k c.nDim th i := by
    intro i; cases k with
    | gauss b => cases b <;> rfl
    | logn b => cases b <;> rfl
    | trunc => rfl
    | pooled => rfl
    | hetero => rfl
  have h2 : ∀ i d, sampleEntry k (fun _ p d => th i p d) (fun _ d' => z i d') (fun _ => pick i) 0 d
      = sampleEntry k th z pick i d := by
    intro i d; cases k with
    | gauss b => cases b <;> rfl
    | logn b => cases b <;> rfl
    | trunc => rfl
    | pooled => rfl
    | hetero => rfl
  simp only [h1, h2]
  rfl

end generic

/-! ## 3. zero covariates / zero β -/

/-- all covariates zero, or all β zero ⇒ every individual sees the wrapped model's own
    parameters `ϑ₀` -/
theorem C07_zero (c : CovCfg) (params : Nat → ℝ) (cov : Nat → Nat → ℝ)
    (h : (∀ i k, cov i k = 0) ∨ (∀ j, c.nPop ≤ j → params j = 0)) (i p d : Nat) :
    covTh c params cov i p d = params (p * c.nDim + d) := by
  unfold covTh
  cases c.sel.idxOf? (p, d) with
  | none => rfl
  | some s =>
    simp only [CovCfg.base]
    rw [isum_zero_real, add_zero]
    intro k _
    rcases h with h | h
    · rw [h i k, zero_mul]
    · rw [CovCfg.beta, h _ (by omega), mul_zero]

section erf
variable [HasErf ℝ]

/-- … hence likelihood and individual parameters coincide with the wrapped model evaluated on
    `ϑ₀` (the first `n_pop` entries, as `(n_per_dim, n_dim)`) — for every wrapped kind. -/
theorem C07_zero_ll (k : Kind) (c : CovCfg) (nIds : Nat) (params : List ℝ)
    (hlen : params.length = c.nParams) (cov : Nat → Nat → ℝ) (obs : Nat → Nat → ℝ)
    (h : (∀ i j, cov i j = 0) ∨ (∀ j, c.nPop ≤ j → vecOf params j = 0)) :
    covLL k c nIds params cov obs
      = .ok (popLL k nIds c.nDim (fun _ p d => vecOf params (p * c.nDim + d)) obs) := by
  unfold covLL covLLcore
  simp only [hlen, ne_eq, not_true_eq_false, if_false]
  have : covTh c (vecOf params) cov = fun _ p d => vecOf params (p * c.nDim + d) := by
    funext i p d; exact C07_zero c (vecOf params) cov h i p d
  rw [this]

theorem C07_zero_indiv (k : Kind) (c : CovCfg) (nIds : Nat) (params : List ℝ)
    (hlen : params.length = c.nParams) (cov : Nat → Nat → ℝ) (eta : Nat → Nat → ℝ)
    (h : (∀ i j, cov i j = 0) ∨ (∀ j, c.nPop ≤ j → vecOf params j = 0)) :
    covIndiv k c nIds params cov eta
      = .ok ((List.range nIds).map (fun i => (List.range c.nDim).map (fun d =>
          indiv false k nIds c.nDim (fun _ p d => vecOf params (p * c.nDim + d)) eta i d))) := by
  unfold covIndiv
  simp only [hlen, ne_eq, not_true_eq_false, if_false]
  have : covTh c (vecOf params) cov = fun _ p d => vecOf params (p * c.nDim + d) := by
    funext i p d; exact C07_zero c (vecOf params) cov h i p d
  rw [this]

/-! ## 4. per-individual equivalence -/

/-- The covariate model's log-likelihood is the wrapped model evaluated SEPARATELY for each
    individual `i` with the parameters `ϑ_i` (a one-individual call of `popLL` with parameters
    that do not vary; heterogeneous: the one-individual model holds individual `i`'s own row),
    added up with Python's float addition — for EVERY wrapped kind (Gaussian, log-normal, centred
    and not, truncated Gaussian, pooled, heterogeneous), every `n_ids`, `n_dim`, `n_cov`, selection,
    covariate matrix and parameter vector of the right length (a wrong length is a `ValueError`),
    support guards included. -/
theorem C07_equiv_per_individual (k : Kind) (c : CovCfg) (nIds : Nat)
    (params : List ℝ) (cov : Nat → Nat → ℝ) (obs : Nat → Nat → ℝ) :
    covLL k c nIds params cov obs =
      if params.length ≠ c.nParams then .error .valueError
      else .ok (scoreSum nIds (perIndividualLL k c.nDim (covTh c (vecOf params) cov) obs)) := by
  unfold covLL covLLcore
  split
  · rfl
  · rw [← popLL_per_individual k]

/-- the pre-`04b584d` code satisfied this for every kind but the heterogeneous one -/
theorem C07_equiv_per_individual_legacy_partial (k : Kind) (hk : k ≠ .hetero) (c : CovCfg) (nIds : Nat)
    (params : List ℝ) (cov : Nat → Nat → ℝ) (obs : Nat → Nat → ℝ) :
    covLLLegacy k c nIds params cov obs = covLL k c nIds params cov obs := by
  unfold covLLLegacy covLL covLLcoreLegacy covLLcore
  cases k with
  | hetero => exact absurd rfl hk
  | gauss b => rfl
  | logn b => rfl
  | trunc => rfl
  | pooled => rfl

/-- Pre-`04b584d`: a wrapped `HeterogeneousModel` with two individuals, one dimension, one
    covariate, all covariates zero, `ϑ₀ = (1, 2)`: the individuals' own parameters are `ψ = (1, 2)`
    (`compute_individual_parameters`: individual `i` ↔ row `i`), yet the legacy code scored them
    `-inf` (it compared everybody with row 0), where the wrapped model itself — and the repaired
    code — gives `0`. -/
theorem C07_hetero_ll_counterexample :
    let c : CovCfg := ⟨1, 2, 1, [(0, 0), (1, 0)]⟩
    let params : List ℝ := [1, 2, 0, 0]
    let cov : Nat → Nat → ℝ := fun _ _ => 0
    let obs : Nat → Nat → ℝ := fun i _ => if i = 0 then 1 else 2
    covIndiv .hetero c 2 params cov obs = .ok [[.val 1], [.val 2]] ∧
    covLLLegacy .hetero c 2 params cov obs = .ok .negInf ∧
    covLL .hetero c 2 params cov obs = .ok (.val 0) ∧
    popLL .hetero 2 1 (fun _ p d => vecOf params (p * 1 + d)) obs = .val 0 := by
  intro c params cov obs
  have hth : ∀ i p, p < 2 → covTh c (vecOf params) cov i p 0 = (if p = 0 then 1 else 2) := by
    intro i p hp
    rw [C07_zero c (vecOf params) cov (Or.inl (fun _ _ => rfl))]
    have hp' : p = 0 ∨ p = 1 := by omega
    rcases hp' with rfl | rfl <;> simp [vecOf, params, c]
  refine ⟨?_, ?_, ?_, ?_⟩
  · simp [covIndiv, params, c, CovCfg.nParams, CovCfg.nPop, CovCfg.nBeta, indiv, List.range_succ, hth]
  · simp [covLLLegacy, covLLcoreLegacy, params, c, CovCfg.nParams, CovCfg.nPop, CovCfg.nBeta, iany2, iany,
      List.range_succ, hth, obs]
  · simp [covLL, covLLcore, popLL, params, c, CovCfg.nParams, CovCfg.nPop, CovCfg.nBeta, iany2, iany,
      List.range_succ, hth, obs, zero]
  · simp [popLL, iany2, iany, List.range_succ, vecOf, params, obs, zero]

/-- individual parameters: for the kinds that do not look at other individuals' scales the
    covariate model hands individual `i` exactly what the wrapped model returns for `i` alone
    with `ϑ_i` (centred models and the truncated Gaussian: `η_i`; pooled: `ϑ_i[0, ·]`) -/
theorem C07_equiv_indiv (k : Kind) (hk : k = .gauss true ∨ k = .logn true ∨ k = .trunc ∨ k = .pooled)
    (nIds nDim : Nat) (th : Nat → Nat → Nat → ℝ) (eta : Nat → Nat → ℝ) (i d : Nat) :
    indiv false k nIds nDim th eta i d
      = indiv false k 1 nDim (fun _ p d => th i p d) (fun _ d => eta i d) 0 d := by
  rcases hk with rfl | rfl | rfl | rfl <;> rfl

/-- `return_eta=True` (the call `HierarchicalLogLikelihood` and `ComposedPopulationModel` make
    first): for EVERY wrapped kind the covariate model returns what the wrapped model returns for
    individual `i` alone with `ϑ_i` — `η_i` for the kinds with individual-level entries, and for
    pooled / heterogeneous models, which ignore the flag, the covariate-shifted population
    parameters `ϑ_i[0, ·]` resp. `ϑ_i[i, ·]`, i.e. exactly the `return_eta=False` value. -/
theorem C07_equiv_indiv_return_eta (k : Kind) (c : CovCfg) (nIds : Nat) (params : List ℝ)
    (cov : Nat → Nat → ℝ) (eta : Nat → Nat → ℝ) :
    let th := covTh c (vecOf params) cov
    covIndivEta k c nIds params cov eta =
      (if params.length ≠ c.nParams then .error .valueError
       else .ok ((List.range nIds).map (fun i => (List.range c.nDim).map (fun d =>
          indivEta k (fun _ p d => th i (p + ownRow k i) d) (fun _ d => eta i d) 0 d)))) ∧
    (k.hierarchical = true → ∀ i d, indivEta k th eta i d = .val (eta i d)) ∧
    (k.hierarchical = false → ∀ i d, indivEta k th eta i d = indiv false k nIds c.nDim th eta i d) := by
  intro th
  refine ⟨?_, ?_, ?_⟩
  · unfold covIndivEta
    split
    · rfl
    · show Except.ok _ = Except.ok _
      congr 1
      apply List.map_congr_left; intro i _
      apply List.map_congr_left; intro d _
      cases k with
      | gauss b => rfl
      | logn b => rfl
      | trunc => rfl
      | pooled => rfl
      | hetero => simp only [indivEta, ownRow, Nat.zero_add]; rfl
  · intro hk i d
    cases k with
    | gauss b => rfl
    | logn b => rfl
    | trunc => rfl
    | pooled => simp [Kind.hierarchical] at hk
    | hetero => simp [Kind.hierarchical] at hk
  · intro hk i d
    cases k with
    | gauss b => simp [Kind.hierarchical] at hk
    | logn b => simp [Kind.hierarchical] at hk
    | trunc => simp [Kind.hierarchical] at hk
    | pooled => rfl
    | hetero => rfl

/-- non-centred models (`ψ_i = ϑ_i[0] + ϑ_i[1] η_i`, resp. its exponential): equal to the wrapped
    model on `i` alone PROVIDED no individual's shifted scale is negative — chi blanks the whole
    block with `nan` as soon as any scale is negative (`np.any(sigma < 0)`) -/
theorem C07_equiv_indiv_partial (k : Kind) (hk : k = .gauss false ∨ k = .logn false)
    (nIds nDim : Nat) (th : Nat → Nat → Nat → ℝ) (eta : Nat → Nat → ℝ)
    (hpos : ∀ i, i < nIds → ∀ d, d < nDim → ¬ th i 1 d < 0) (i d : Nat) (hi : i < nIds) :
    indiv false k nIds nDim th eta i d
      = indiv false k 1 nDim (fun _ p d => th i p d) (fun _ d => eta i d) 0 d := by
  have h1 : iany2 nIds nDim (fun i d => lt (th i 1 d) zero) = false := by
    rw [Bool.eq_false_iff]
    intro h
    simp only [iany2, iany_real] at h
    obtain ⟨i', hi', d', hd', h⟩ := h
    simp only [lt_real, zero, ofNat_real, Nat.cast_zero, decide_eq_true_eq] at h
    exact hpos i' hi' d' hd' h
  have h2 : iany2 1 nDim (fun _ d => lt (th i 1 d) zero) = false := by
    rw [Bool.eq_false_iff]
    intro h
    simp only [iany2, iany_real] at h
    obtain ⟨_, _, d', hd', h⟩ := h
    simp only [lt_real, zero, ofNat_real, Nat.cast_zero, decide_eq_true_eq] at h
    exact hpos i hi d' hd' h
  rcases hk with rfl | rfl <;> simp only [indiv, h1, h2]

/-- without that proviso it fails: two individuals, scales `-1` and `1`: the covariate model
    returns `nan` for the second individual, the wrapped model on that individual alone a value -/
theorem C07_indiv_negscale_counterexample :
    let th : Nat → Nat → Nat → ℝ := fun i p _ => if p = 1 then (if i = 0 then -1 else 1) else 0
    let eta : Nat → Nat → ℝ := fun _ _ => 0
    indiv false (.gauss false) 2 1 th eta 1 0 = .nan ∧
    indiv false (.gauss false) 1 1 (fun _ p d => th 1 p d) (fun _ d => eta 1 d) 0 0 = .val 0 := by
  intro th eta
  constructor
  · simp [indiv, iany2, iany, List.range_succ, th, zero]
  · simp [indiv, iany2, iany, List.range_succ, th, eta, zero]


end erf

/-! ## 5. sensitivities: the transpose of the linear map -/

/-- layout of `dtheta = hstack(dpop, dcov)`: `n_parameters` entries; entry `p · n_dim + d` is
    `∂/∂ϑ₀[p,d] = Σ_i ∂/∂ϑ_i[p,d]`, entry `n_pop + s · n_cov + c` is
    `∂/∂β[s,c] = Σ_i χ_{i,c} · ∂/∂ϑ_i[p_s, d_s]` (for every scalar type) -/
theorem C07_grad_entries {α : Type} [Add α] [Sub α] [Mul α] [Div α] [Neg α] [ScalarFns α]
    (c : CovCfg) (nIds : Nat) (g : Nat → Nat → Nat → α) (cov : Nat → Nat → α) :
    (covSens c nIds g cov).length = c.nParams ∧
    (∀ p d, p < c.perDim → d < c.nDim →
      (covSens c nIds g cov)[p * c.nDim + d]? = some (isum nIds (fun i => g i p d))) ∧
    (∀ s k (hs : s < c.sel.length), k < c.nCov →
      (covSens c nIds g cov)[c.nPop + s * c.nCov + k]?
        = some (isum nIds (fun i => g i c.sel[s].1 c.sel[s].2 * cov i k))) := by
  have hl1 : ((List.range c.perDim).flatMap (fun p => (List.range c.nDim).map
      (fun d => covSensPop nIds g p d))).length = c.nPop := by
    rw [flatMap_block_length _ c.nDim _ (by intro a _; simp), List.length_range]; rfl
  have hl2 : ((List.range c.sel.length).flatMap (fun s => (List.range c.nCov).map
      (fun k => covSensBeta c nIds g cov s k))).length = c.nBeta := by
    rw [flatMap_block_length _ c.nCov _ (by intro a _; simp), List.length_range]; rfl
  refine ⟨by unfold covSens; rw [List.length_append, hl1, hl2]; rfl, ?_, ?_⟩
  · intro p d hp hd
    unfold covSens
    have hlt : p * c.nDim + d < c.nPop := ((C07_beta_index_bijection c.perDim c.nDim).1 p d hp hd).1
    rw [List.getElem?_append_left (by rw [hl1]; exact hlt)]
    rw [flatMap_block_getElem? _ c.nDim _ (by intro a _; simp) p d (by simpa using hp) hd]
    simp [hd, covSensPop]
  · intro s k hs hk
    unfold covSens
    rw [List.getElem?_append_right (by rw [hl1]; omega), hl1]
    have : c.nPop + s * c.nCov + k - c.nPop = s * c.nCov + k := by omega
    rw [this, flatMap_block_getElem? _ c.nCov _ (by intro a _; simp) s k (by simpa using hs) hk]
    simp [hk, covSensBeta, List.getD_eq_getElem?_getD, hs]

/-- The sensitivity map is the TRANSPOSE of the linear map `(ϑ₀, β) ↦ (ϑ_i)_i`: for every upstream
    gradient `g_i = ∂L/∂ϑ_i` and every direction `δ = (δϑ₀, δβ)`,
    `Σ_i ⟨g_i, ϑ_i(δ)⟩ = ⟨dpop, δϑ₀⟩ + ⟨dcov, δβ⟩` — for all `n_ids`, `n_dim`, `n_cov`, all
    duplicate-free in-range selections and all covariate matrices. -/
theorem C07_grad_transpose (c : CovCfg) (hn : c.sel.Nodup) (hr : c.InRange) (nIds : Nat)
    (g : Nat → Nat → Nat → ℝ) (cov : Nat → Nat → ℝ) (δ : Nat → ℝ) :
    ∑ i ∈ Finset.range nIds, ∑ p ∈ Finset.range c.perDim, ∑ d ∈ Finset.range c.nDim,
        g i p d * covTh c δ cov i p d
      = ∑ p ∈ Finset.range c.perDim, ∑ d ∈ Finset.range c.nDim,
          covSensPop nIds g p d * δ (p * c.nDim + d)
        + ∑ s ∈ Finset.range c.sel.length, ∑ k ∈ Finset.range c.nCov,
            covSensBeta c nIds g cov s k * δ (c.nPop + s * c.nCov + k) :=
  grad_transpose c hn hr nIds g cov δ

/-- the same against the flat gradient vector: `Σ_i ⟨g_i, ϑ_i(δ)⟩ = ⟨dtheta, δ⟩` -/
theorem C07_grad (c : CovCfg) (hn : c.sel.Nodup) (hr : c.InRange) (nIds : Nat)
    (g : Nat → Nat → Nat → ℝ) (cov : Nat → Nat → ℝ) (δ : Nat → ℝ) :
    ∑ i ∈ Finset.range nIds, ∑ p ∈ Finset.range c.perDim, ∑ d ∈ Finset.range c.nDim,
        g i p d * covTh c δ cov i p d
      = ∑ j ∈ Finset.range c.nParams, covSensAt c nIds g cov j * δ j := by
  rw [grad_positional]
  exact grad_transpose c hn hr nIds g cov δ

/-- the transform is linear, so along any differentiable curve `t ↦ (ϑ₀(t), β(t))` each `ϑ_i[p,d]`
    has the transform of the velocity as derivative (its Jacobian is the map itself) -/
theorem C07_th_hasDerivAt (c : CovCfg) (θ : ℝ → Nat → ℝ) (θ' : Nat → ℝ) (t : ℝ)
    (hθ : ∀ j, HasDerivAt (fun s => θ s j) (θ' j) t) (cov : Nat → Nat → ℝ) (i p d : Nat) :
    HasDerivAt (fun s => covTh c (θ s) cov i p d) (covTh c θ' cov i p d) t :=
  covTh_hasDerivAt c θ θ' t hθ cov i p d

/-- Chain rule with the transpose. Let `L` be ANY function of the per-individual parameter
    tensor whose derivative along every differentiable curve of tensors through the current point
    is `Σ_{i,p,d} g_i[p,d] · ϑ_i'[p,d]` (the wrapped model's gradient contract, C05/C03: `g` is
    its `dvartheta`). Then along every differentiable curve of flat parameter vectors the
    covariate model's `L ∘ ϑ` has derivative `⟨dtheta, θ'⟩` with chi's `dtheta = covSens g`. -/
theorem C07_grad_hasDerivAt (c : CovCfg) (hn : c.sel.Nodup) (hr : c.InRange) (nIds : Nat)
    (cov : Nat → Nat → ℝ) (L : (Nat → Nat → Nat → ℝ) → ℝ) (g : Nat → Nat → Nat → ℝ)
    (θ : ℝ → Nat → ℝ) (θ' : Nat → ℝ) (t : ℝ)
    (hL : ∀ (Θ : ℝ → Nat → Nat → Nat → ℝ) (Θ' : Nat → Nat → Nat → ℝ),
      Θ t = covTh c (θ t) cov → (∀ i p d, HasDerivAt (fun s => Θ s i p d) (Θ' i p d) t) →
      HasDerivAt (fun s => L (Θ s))
        (∑ i ∈ Finset.range nIds, ∑ p ∈ Finset.range c.perDim, ∑ d ∈ Finset.range c.nDim,
          g i p d * Θ' i p d) t)
    (hθ : ∀ j, HasDerivAt (fun s => θ s j) (θ' j) t) :
    HasDerivAt (fun s => L (covTh c (θ s) cov))
      (∑ j ∈ Finset.range c.nParams, covSensAt c nIds g cov j * θ' j) t := by
  rw [← C07_grad c hn hr nIds g cov θ']
  exact hL (fun s => covTh c (θ s) cov) (covTh c θ' cov) rfl
    (fun i p d => covTh_hasDerivAt c θ θ' t hθ cov i p d)

/-- in particular entry `j` of `dtheta` is the partial derivative w.r.t. the `j`-th flat
    parameter (`ϑ₀` entries first, then `β` in the order `s · n_cov + c`) -/
theorem C07_grad_partial (c : CovCfg) (hn : c.sel.Nodup) (hr : c.InRange) (nIds : Nat)
    (cov : Nat → Nat → ℝ) (L : (Nat → Nat → Nat → ℝ) → ℝ) (g : Nat → Nat → Nat → ℝ)
    (θ₀ : Nat → ℝ) (j : Nat) (hj : j < c.nParams)
    (hL : ∀ (Θ : ℝ → Nat → Nat → Nat → ℝ) (Θ' : Nat → Nat → Nat → ℝ),
      Θ (θ₀ j) = covTh c θ₀ cov → (∀ i p d, HasDerivAt (fun s => Θ s i p d) (Θ' i p d) (θ₀ j)) →
      HasDerivAt (fun s => L (Θ s))
        (∑ i ∈ Finset.range nIds, ∑ p ∈ Finset.range c.perDim, ∑ d ∈ Finset.range c.nDim,
          g i p d * Θ' i p d) (θ₀ j)) :
    HasDerivAt (fun s => L (covTh c (Function.update θ₀ j s) cov)) (covSensAt c nIds g cov j) (θ₀ j) := by
  have hθ : ∀ j', HasDerivAt (fun s => Function.update θ₀ j s j') (if j' = j then (1 : ℝ) else 0) (θ₀ j) := by
    intro j'
    by_cases e : j' = j
    · subst e
      simp only [Function.update_self, if_true]
      exact hasDerivAt_id' (θ₀ j')
    · simpa [Function.update_of_ne e, e] using hasDerivAt_const (θ₀ j) (θ₀ j')
  have := C07_grad_hasDerivAt c hn hr nIds cov L g (fun s => Function.update θ₀ j s)
    (fun j' => if j' = j then 1 else 0) (θ₀ j) (by simpa using hL) hθ
  have hsum : ∑ j' ∈ Finset.range c.nParams, covSensAt c nIds g cov j' * (if j' = j then (1 : ℝ) else 0)
      = covSensAt c nIds g cov j := by
    rw [Finset.sum_eq_single j]
    · simp
    · intro b _ hb; simp [hb]
    · intro h; exact absurd (Finset.mem_range.mpr hj) h
  rw [hsum] at this
  exact this

/-- The `reduce=True` form of the code as it is, for EVERY wrapped kind: it has the length
    `n_hierarchical_parameters` announces; kinds with individual-level entries (Gaussian,
    log-normal, truncated Gaussian) return the `n_ids · n_dim` bottom entries followed by `dtheta`;
    pooled / heterogeneous models return the top-level block only, which is the transposed map
    applied to `g + dpsi` on the row that IS the individual's parameter (`ψ_i = ϑ_i[0,·]` resp.
    `ϑ_i[i,·]`): `∂/∂ϑ₀[row,d] ∋ Σ_i dpsi_i[d]`, `∂/∂β[s,c] = Σ_i χ_{i,c} (g_i + dpsi_i)[p_s,d_s]`. -/
theorem C07_grad_reduced {α : Type} [Add α] [Sub α] [Mul α] [Div α] [Neg α] [ScalarFns α]
    (k : Kind) (c : CovCfg) (nIds : Nat)
    (dpsi : Nat → Nat → α) (g : Nat → Nat → Nat → α) (cov : Nat → Nat → α) :
    (covReduced k c nIds dpsi g cov).length = (covNHier k c nIds).1 + (covNHier k c nIds).2 ∧
    (k.hierarchical = true →
      (covReduced k c nIds dpsi g cov).take (nIds * c.nDim)
        = (List.range nIds).flatMap (fun i => (List.range c.nDim).map (fun d => dpsi i d)) ∧
      (covReduced k c nIds dpsi g cov).drop (nIds * c.nDim) = covSens c nIds g cov) ∧
    (k.hierarchical = false →
      covReduced k c nIds dpsi g cov
        = covSens c nIds (fun i p d => if p = ownRow k i then g i p d + dpsi i d else g i p d) cov) := by
  have hl : ((List.range nIds).flatMap (fun i => (List.range c.nDim).map (fun d => dpsi i d))).length
      = nIds * c.nDim := by
    rw [flatMap_block_length _ c.nDim _ (by intro a _; simp), List.length_range]
  refine ⟨?_, ?_, ?_⟩
  · cases hk : k.hierarchical
    · simp only [covReduced, hk, Bool.false_eq_true, if_false, (C07_grad_entries c nIds _ cov).1,
        covNHier, Nat.zero_add]
    · simp only [covReduced, hk, if_true, List.length_append, hl, (C07_grad_entries c nIds g cov).1,
        covNHier]
  · intro hk
    simp only [covReduced, hk, if_true]
    constructor
    · rw [List.take_append_of_le_length (by rw [hl]), ← hl, List.take_length]
    · rw [List.drop_append_of_le_length (by rw [hl]), ← hl, List.drop_length, List.nil_append]
  · intro hk
    simp only [covReduced, hk, Bool.false_eq_true, if_false]

/-- pre-`3d6f67b` the code returned `hstack(dpsi.flatten(), dtheta)` for every kind: right for
    the kinds with individual-level entries … -/
theorem C07_grad_reduced_legacy_partial {α : Type} [Add α] [Sub α] [Mul α] [Div α] [Neg α] [ScalarFns α]
    (k : Kind) (hk : k.hierarchical = true) (c : CovCfg) (nIds : Nat)
    (dpsi : Nat → Nat → α) (g : Nat → Nat → Nat → α) (cov : Nat → Nat → α) :
    covReducedLegacy c nIds dpsi g cov = covReduced k c nIds dpsi g cov := by
  simp [covReducedLegacy, covReduced, hk]

/-- …and for a wrapped `PooledModel` / `HeterogeneousModel` (no individual-level entries) it
    returned `n_ids · n_dim` entries too many — the composed model's slice assignment then failed
    to broadcast — and its top-level block ignored the upstream `dpsi`: with `g = 0` it is all
    zeros, whatever `dpsi` is, where the repaired code carries `Σ_i dpsi_i` to `ϑ₀`. -/
theorem C07_grad_pooled_counterexample (k : Kind) (hk : k.hierarchical = false) (c : CovCfg)
    (nIds : Nat) (hids : 0 < nIds) (hdim : 0 < c.nDim) (dpsi : Nat → Nat → ℝ) (cov : Nat → Nat → ℝ) :
    (covReducedLegacy c nIds dpsi (fun _ _ _ => 0) cov).length
      = nIds * c.nDim + ((covNHier k c nIds).1 + (covNHier k c nIds).2) ∧
    (covReducedLegacy c nIds dpsi (fun _ _ _ => 0) cov).length
      ≠ (covNHier k c nIds).1 + (covNHier k c nIds).2 ∧
    (∀ j, j < c.nParams → covSensAt c nIds (fun _ _ _ => (0 : ℝ)) cov j = 0) ∧
    (covReduced k c nIds dpsi (fun _ _ _ => 0) cov).length
      = (covNHier k c nIds).1 + (covNHier k c nIds).2 := by
  have hl : ((List.range nIds).flatMap (fun i => (List.range c.nDim).map (fun d => dpsi i d))).length
      = nIds * c.nDim := by
    rw [flatMap_block_length _ c.nDim _ (by intro a _; simp), List.length_range]
  have hlen : (covReducedLegacy c nIds dpsi (fun _ _ _ => 0) cov).length
      = nIds * c.nDim + ((covNHier k c nIds).1 + (covNHier k c nIds).2) := by
    simp only [covReducedLegacy, List.length_append, hl,
      (C07_grad_entries c nIds (fun _ _ _ => (0 : ℝ)) cov).1, covNHier, hk, Bool.false_eq_true, if_false,
      Nat.zero_add]
  refine ⟨hlen, ?_, ?_, (C07_grad_reduced k c nIds dpsi _ cov).1⟩
  · rw [hlen]
    have : 0 < nIds * c.nDim := Nat.mul_pos hids hdim
    omega
  · intro j _
    unfold covSensAt covSensPop covSensBeta
    split <;> simp [isum_eq]

/-- The pre-fix ordering (argsort by `d`, then argsort by `p`) is right PROVIDED the second sort
    is stable: whatever admissible permutation the first sort produced (`mid`), the stable sort by
    `p` of it is the stored selection. numpy's default `argsort` gives no such guarantee
    (`C07_unstable_counterexample`); the repaired code does not depend on it (`C07_selection_unique`). -/
theorem C07_legacy_stable_partial (input mid : List Pair) (hperm : mid.Perm (dedupFirst input))
    (hd : mid.Pairwise (fun a b => a.2 ≤ b.2)) : stableSortByP mid = normSel input :=
  legacy_stable input mid hperm hd

/-! ## 6. end to end for a wrapped centred Gaussian

The hypothesis of `C07_grad_hasDerivAt` (the wrapped model's gradient contract) is discharged for
`GaussianModel(centered=True)`: chi's covariate-model sensitivities are the partial derivatives of
chi's covariate-model log-likelihood. -/


/-- value of the centred Gaussian population log-likelihood inside its support -/
noncomputable def gaussVal (nIds nDim : Nat) (th : Nat → Nat → Nat → ℝ) (obs : Nat → Nat → ℝ) : ℝ :=
  -(∑ i ∈ Finset.range nIds, ∑ d ∈ Finset.range nDim,
      (Real.log (2 * Real.pi * (th i 1 d * th i 1 d)) / 2
        + (obs i d - th i 0 d) * (obs i d - th i 0 d) / (2 * (th i 1 d * th i 1 d))))

/-- `GaussianModel._compute_sensitivities`: `dtheta[:, 0] = (ψ-μ)/σ²`, `dtheta[:, 1] = (-1 + (ψ-μ)²/σ²)/σ` -/
noncomputable def gaussDVartheta (th : Nat → Nat → Nat → ℝ) (obs : Nat → Nat → ℝ) (i p d : Nat) : ℝ :=
  if p = 0 then (obs i d - th i 0 d) / (th i 1 d * th i 1 d)
  else if p = 1 then (-1 + (obs i d - th i 0 d) * (obs i d - th i 0 d) / (th i 1 d * th i 1 d)) / th i 1 d
  else 0

theorem C07_gauss_term_hasDerivAt (μ σ : ℝ → ℝ) (μ' σ' y t : ℝ) (hμ : HasDerivAt μ μ' t)
    (hσ : HasDerivAt σ σ' t) (hpos : 0 < σ t) :
    HasDerivAt (fun s => Real.log (2 * Real.pi * (σ s * σ s)) / 2
        + (y - μ s) * (y - μ s) / (2 * (σ s * σ s)))
      (-(((y - μ t) / (σ t * σ t)) * μ'
        + ((-1 + (y - μ t) * (y - μ t) / (σ t * σ t)) / σ t) * σ')) t := by
  have hne : σ t ≠ 0 := ne_of_gt hpos
  have hpi : (2 * Real.pi) ≠ 0 := by positivity
  have h1 : HasDerivAt (fun s => σ s * σ s) (σ' * σ t + σ t * σ') t := hσ.mul hσ
  have h2 : HasDerivAt (fun s => 2 * Real.pi * (σ s * σ s)) (2 * Real.pi * (σ' * σ t + σ t * σ')) t :=
    h1.const_mul _
  have h3 := (h2.log (by positivity)).div_const 2
  have h4 : HasDerivAt (fun s => y - μ s) (-μ') t := by
    have := hμ.const_sub y
    exact this
  have h5 := h4.mul h4
  have h6 : HasDerivAt (fun s => 2 * (σ s * σ s)) (2 * (σ' * σ t + σ t * σ')) t := h1.const_mul 2
  have h7 := h5.div h6 (by positivity)
  refine (h3.add h7).congr_deriv ?_
  simp only [Pi.mul_apply]
  field_simp
  ring

/-- the wrapped Gaussian model's gradient contract: along any differentiable curve of parameter
    tensors with positive scales, the derivative of the log-likelihood is `Σ g · Θ'` with chi's
    `dtheta` as `g` -/
theorem C07_gaussVal_contract (nIds nDim : Nat) (obs : Nat → Nat → ℝ) (Θ : ℝ → Nat → Nat → Nat → ℝ)
    (Θ' : Nat → Nat → Nat → ℝ) (t : ℝ)
    (hΘ : ∀ i p d, HasDerivAt (fun s => Θ s i p d) (Θ' i p d) t)
    (hpos : ∀ i, i < nIds → ∀ d, d < nDim → 0 < Θ t i 1 d) :
    HasDerivAt (fun s => gaussVal nIds nDim (Θ s) obs)
      (∑ i ∈ Finset.range nIds, ∑ p ∈ Finset.range 2, ∑ d ∈ Finset.range nDim,
        gaussDVartheta (Θ t) obs i p d * Θ' i p d) t := by
  unfold gaussVal
  have hterm : ∀ i ∈ Finset.range nIds, ∀ d ∈ Finset.range nDim, HasDerivAt
      (fun s => Real.log (2 * Real.pi * (Θ s i 1 d * Θ s i 1 d)) / 2
        + (obs i d - Θ s i 0 d) * (obs i d - Θ s i 0 d) / (2 * (Θ s i 1 d * Θ s i 1 d)))
      (-(((obs i d - Θ t i 0 d) / (Θ t i 1 d * Θ t i 1 d)) * Θ' i 0 d
        + ((-1 + (obs i d - Θ t i 0 d) * (obs i d - Θ t i 0 d) / (Θ t i 1 d * Θ t i 1 d)) / Θ t i 1 d)
          * Θ' i 1 d)) t := by
    intro i hi d hd
    exact C07_gauss_term_hasDerivAt (fun s => Θ s i 0 d) (fun s => Θ s i 1 d) _ _ (obs i d) t (hΘ i 0 d)
      (hΘ i 1 d) (hpos i (Finset.mem_range.mp hi) d (Finset.mem_range.mp hd))
  have h := (HasDerivAt.fun_sum (fun i hi => HasDerivAt.fun_sum (fun d hd => hterm i hi d hd))).neg
  refine h.congr_deriv ?_
  rw [← Finset.sum_neg_distrib]
  apply Finset.sum_congr rfl
  intro i _
  rw [← Finset.sum_neg_distrib]
  simp only [Finset.sum_range_succ, Finset.sum_range_zero, zero_add, gaussDVartheta, if_true,
    one_ne_zero, if_false, neg_neg]
  rw [← Finset.sum_add_distrib]

/-- inside the support the modelled score of the centred Gaussian is that value -/
theorem C07_popLL_gauss_val [HasErf ℝ] (nIds nDim : Nat) (th : Nat → Nat → Nat → ℝ) (obs : Nat → Nat → ℝ)
    (hpos : ∀ i, i < nIds → ∀ d, d < nDim → 0 < th i 1 d) :
    popLL (.gauss true) nIds nDim th obs = .val (gaussVal nIds nDim th obs) := by
  have hg : iany2 nIds nDim (fun i d => le (th i 1 d) zero) = false := by
    rw [Bool.eq_false_iff]
    intro h
    simp only [iany2, iany_real] at h
    obtain ⟨i, hi, d, hd, h⟩ := h
    simp only [le_real, zero, ofNat_real, Nat.cast_zero, decide_eq_true_eq] at h
    exact absurd (hpos i hi d hd) (not_lt.mpr h)
  simp only [popLL, hg, Bool.false_eq_true, if_false, gaussVal, isum2, isum_eq, log_real, two_real, pi_real]

/-- END TO END for a wrapped centred Gaussian: inside the support, entry `j` of chi's
    `dtheta = hstack(dpop, dcov)` (the wrapped model's `dtheta` pushed through the covariate model)
    IS the partial derivative of the covariate model's log-likelihood w.r.t. the `j`-th entry of
    `(ϑ₀, β)` — for every `n_ids`, `n_dim`, `n_cov`, selection, covariate matrix. -/
theorem C07_grad_gauss (c : CovCfg) (hn : c.sel.Nodup) (hr : c.InRange) (hper : c.perDim = 2)
    (nIds : Nat) (cov obs : Nat → Nat → ℝ) (θ₀ : Nat → ℝ) (j : Nat) (hj : j < c.nParams)
    (hpos : ∀ i, i < nIds → ∀ d, d < c.nDim → 0 < covTh c θ₀ cov i 1 d) :
    HasDerivAt (fun s => gaussVal nIds c.nDim (covTh c (Function.update θ₀ j s) cov) obs)
      (covSensAt c nIds (gaussDVartheta (covTh c θ₀ cov) obs) cov j) (θ₀ j) := by
  refine C07_grad_partial c hn hr nIds cov (fun Θ => gaussVal nIds c.nDim Θ obs)
    (gaussDVartheta (covTh c θ₀ cov) obs) θ₀ j hj ?_
  intro Θ Θ' h0 hΘ
  have := C07_gaussVal_contract nIds c.nDim obs Θ Θ' (θ₀ j) hΘ (by rw [h0]; exact hpos)
  rw [h0] at this
  rw [hper]
  exact this


/-! ## 6b. end to end for every wrapped kind, through the C05 theorems

`C05_<kind>_grad` (Props/C05.lean) give, for the wrapped model on the per-individual parameter
tensor, the total derivative along any differentiable curve of individual parameters, locations and
scales. Composed with `C07_th_hasDerivAt` (the curve of `ϑ_i` induced by a curve of `(ϑ₀, β)`) and
`C07_grad` (the transpose) they yield: the vector chi returns with `reduce=True` is the gradient of
`upstream part + covariate-model log-likelihood` w.r.t. (individual-level entries, `ϑ₀`, `β`). -/


/-- entry `j` of the gradient list is `covSensAt j` -/
theorem C07_covSens_getElem_opt (c : CovCfg) (nIds : Nat) (g : Nat → Nat → Nat → ℝ) (cov : Nat → Nat → ℝ)
    (j : Nat) (hj : j < c.nParams) : (covSens c nIds g cov)[j]? = some (covSensAt c nIds g cov j) := by
  obtain ⟨_, h1, h2⟩ := C07_grad_entries c nIds g cov
  unfold covSensAt
  by_cases hlt : j < c.nPop
  · have hpos : 0 < c.nDim := by
      rcases Nat.eq_zero_or_pos c.nDim with h | h
      · simp [CovCfg.nPop, h] at hlt
      · exact h
    have hp : j / c.nDim < c.perDim := by
      rw [Nat.div_lt_iff_lt_mul hpos]; exact hlt
    have := h1 (j / c.nDim) (j % c.nDim) hp (Nat.mod_lt _ hpos)
    rw [div_mod_index c.nDim j hpos] at this
    simp only [hlt, if_true, covSensPop]
    exact this
  · have hge : c.nPop ≤ j := Nat.le_of_not_lt hlt
    have hjb : j - c.nPop < c.sel.length * c.nCov := by
      unfold CovCfg.nParams CovCfg.nBeta at hj; omega
    have hpos : 0 < c.nCov := by
      rcases Nat.eq_zero_or_pos c.nCov with h | h
      · simp [h] at hjb
      · exact h
    have hs : (j - c.nPop) / c.nCov < c.sel.length := by
      rw [Nat.div_lt_iff_lt_mul hpos]; exact hjb
    have := h2 ((j - c.nPop) / c.nCov) ((j - c.nPop) % c.nCov) hs (Nat.mod_lt _ hpos)
    rw [Nat.add_assoc, div_mod_index c.nCov _ hpos, Nat.add_sub_cancel' hge] at this
    simp only [hlt, if_false, covSensBeta, List.getD_eq_getElem?_getD, List.getElem?_eq_getElem hs,
      Option.getD_some]
    exact this

/-- pushing a `(location, scale)` gradient through the covariate model: the part of a total
    derivative that goes through `ϑ_i[0,·]` and `ϑ_i[1,·]` is `⟨covSens dth, θ'⟩` -/
theorem C07_cov_chain (c : CovCfg) (hn : c.sel.Nodup) (hr : c.InRange) (hper : c.perDim = 2) (nIds : Nat)
    (cov : Nat → Nat → ℝ) (θ' : Nat → ℝ) (F : ℝ → ℝ) (t : ℝ) (a b : Nat → Nat → ℝ)
    (dth : Nat → Nat → Nat → ℝ)
    (h : HasDerivAt F (isum2 nIds c.nDim (fun i d => a i d * b i d
      + dth i 0 d * covTh c θ' cov i 0 d + dth i 1 d * covTh c θ' cov i 1 d)) t) :
    HasDerivAt F (isum2 nIds c.nDim (fun i d => a i d * b i d)
      + ∑ j ∈ Finset.range c.nParams, covSensAt c nIds dth cov j * θ' j) t := by
  refine h.congr_deriv ?_
  rw [← C07_grad c hn hr nIds dth cov θ', hper]
  simp only [isum2_eq, Finset.sum_range_succ, Finset.sum_range_zero, zero_add,
    ← Finset.sum_add_distrib]
  refine Finset.sum_congr rfl fun i _ => Finset.sum_congr rfl fun d _ => ?_
  ring


/-- END TO END, centred Gaussian wrapped model, via C05: along ANY differentiable curve of individual parameters `ψ` and flat covariate-model parameters `θ = (ϑ₀, β)` with positive shifted scales, `upstream part + covariate-model log-likelihood` has derivative `⟨dpsi, ψ'⟩ + ⟨dtheta, θ'⟩` with chi's outputs (`dpsi` incl. `dlogp_dpsi`; `dtheta = hstack(dpop, dcov)` = the wrapped model's `dtheta` through the covariate model): the `reduce` vector `[dpsi.flatten(), dtheta]` is the full gradient -/
theorem C07_grad_gauss_centred (c : CovCfg) (hn : c.sel.Nodup) (hr : c.InRange) (hper : c.perDim = 2)
    (nIds : Nat) (cov : Nat → Nat → ℝ) (θ : ℝ → Nat → ℝ) (θ' : Nat → ℝ) (t : ℝ)
    (hθ : ∀ j, HasDerivAt (fun s => θ s j) (θ' j) t)
    (psi : Nat → Nat → ℝ → ℝ) (psi' : Nat → Nat → ℝ)
    (hpsi : ∀ i d, i < nIds → d < c.nDim → HasDerivAt (psi i d) (psi' i d) t)
    (up : Option (Nat → Nat → ℝ)) (L : (Nat → Nat → ℝ) → ℝ)
    (hL : HasGradientAt nIds c.nDim L (upAt up) (fun i d => psi i d t))
    (hpos : ∀ i d, i < nIds → d < c.nDim → 0 < covTh c (θ t) cov i 1 d) :
    let so := popSens (.gauss true) nIds c.nDim (covTh c (θ t) cov) (fun i d => psi i d t) up
    so.defined = true ∧
    covLLcore (.gauss true) nIds c.nDim (covTh c (θ t) cov) (fun i d => psi i d t) = so.score ∧
    HasDerivAt (fun s => L (fun i d => psi i d s)
        + gaussCLLraw nIds c.nDim (fun i d => covTh c (θ s) cov i 0 d) (fun i d => covTh c (θ s) cov i 1 d)
            (fun i d => psi i d s))
      (isum2 nIds c.nDim (fun i d => so.dpsi i d * psi' i d)
        + ∑ j ∈ Finset.range c.nParams, covSensAt c nIds so.dtheta cov j * θ' j) t := by
  intro so
  have h := C05_gauss_grad nIds c.nDim (fun i d s => covTh c (θ s) cov i 0 d)
    (fun i d s => covTh c (θ s) cov i 1 d) psi (fun i d => covTh c θ' cov i 0 d)
    (fun i d => covTh c θ' cov i 1 d) psi' t up L
    (fun i d _ _ => covTh_hasDerivAt c θ θ' t hθ cov i 0 d)
    (fun i d _ _ => covTh_hasDerivAt c θ θ' t hθ cov i 1 d) hpsi hpos hL
  have e1 := popSens_gauss nIds c.nDim (thOf (fun i d => covTh c (θ t) cov i 0 d)
    (fun i d => covTh c (θ t) cov i 1 d)) (fun i d => psi i d t) up
    (by intro i d hi hd; simpa [thOf] using hpos i d hi hd)
  have e2 : so = _ := popSens_gauss nIds c.nDim (covTh c (θ t) cov) (fun i d => psi i d t) up hpos
  simp only [thOf, if_true, one_ne_zero, if_false] at e1
  rw [e1, ← e2] at h
  obtain ⟨hdef, hscore, hder⟩ := h
  refine ⟨hdef, ?_, C07_cov_chain c hn hr hper nIds cov θ' _ t so.dpsi psi' so.dtheta hder⟩
  rw [e2]
  exact popLL_gauss_val nIds c.nDim (covTh c (θ t) cov) (fun i d => psi i d t) hpos

/-- END TO END, centred log-normal wrapped model (via C05_logn_grad) -/
theorem C07_grad_logn_centred (c : CovCfg) (hn : c.sel.Nodup) (hr : c.InRange) (hper : c.perDim = 2)
    (nIds : Nat) (cov : Nat → Nat → ℝ) (θ : ℝ → Nat → ℝ) (θ' : Nat → ℝ) (t : ℝ)
    (hθ : ∀ j, HasDerivAt (fun s => θ s j) (θ' j) t)
    (psi : Nat → Nat → ℝ → ℝ) (psi' : Nat → Nat → ℝ)
    (hpsi : ∀ i d, i < nIds → d < c.nDim → HasDerivAt (psi i d) (psi' i d) t)
    (up : Option (Nat → Nat → ℝ)) (L : (Nat → Nat → ℝ) → ℝ)
    (hL : HasGradientAt nIds c.nDim L (upAt up) (fun i d => psi i d t))
    (hpos : ∀ i d, i < nIds → d < c.nDim → 0 < covTh c (θ t) cov i 1 d)
    (hppos : ∀ i d, i < nIds → d < c.nDim → 0 < psi i d t) :
    let so := popSens (.logn true) nIds c.nDim (covTh c (θ t) cov) (fun i d => psi i d t) up
    so.defined = true ∧
    covLLcore (.logn true) nIds c.nDim (covTh c (θ t) cov) (fun i d => psi i d t) = so.score ∧
    HasDerivAt (fun s => L (fun i d => psi i d s)
        + lognCLLraw nIds c.nDim (fun i d => covTh c (θ s) cov i 0 d) (fun i d => covTh c (θ s) cov i 1 d)
            (fun i d => psi i d s))
      (isum2 nIds c.nDim (fun i d => so.dpsi i d * psi' i d)
        + ∑ j ∈ Finset.range c.nParams, covSensAt c nIds so.dtheta cov j * θ' j) t := by
  intro so
  have h := C05_logn_grad nIds c.nDim (fun i d s => covTh c (θ s) cov i 0 d)
    (fun i d s => covTh c (θ s) cov i 1 d) psi (fun i d => covTh c θ' cov i 0 d)
    (fun i d => covTh c θ' cov i 1 d) psi' t up L
    (fun i d _ _ => covTh_hasDerivAt c θ θ' t hθ cov i 0 d)
    (fun i d _ _ => covTh_hasDerivAt c θ θ' t hθ cov i 1 d) hpsi hpos hppos hL
  have e1 := popSens_logn nIds c.nDim (thOf (fun i d => covTh c (θ t) cov i 0 d)
    (fun i d => covTh c (θ t) cov i 1 d)) (fun i d => psi i d t) up
    (by intro i d hi hd; simpa [thOf] using hpos i d hi hd) hppos
  have e2 : so = _ := popSens_logn nIds c.nDim (covTh c (θ t) cov) (fun i d => psi i d t) up hpos hppos
  simp only [thOf, if_true, one_ne_zero, if_false] at e1
  rw [e1, ← e2] at h
  obtain ⟨hdef, hscore, hder⟩ := h
  refine ⟨hdef, ?_, C07_cov_chain c hn hr hper nIds cov θ' _ t so.dpsi psi' so.dtheta hder⟩
  rw [e2]
  exact popLL_logn_val nIds c.nDim (covTh c (θ t) cov) (fun i d => psi i d t) hpos hppos

/-- END TO END, truncated-Gaussian wrapped model (via C05_trunc_grad) -/
theorem C07_grad_trunc (c : CovCfg) (hn : c.sel.Nodup) (hr : c.InRange) (hper : c.perDim = 2)
    (nIds : Nat) (cov : Nat → Nat → ℝ) (θ : ℝ → Nat → ℝ) (θ' : Nat → ℝ) (t : ℝ)
    (hθ : ∀ j, HasDerivAt (fun s => θ s j) (θ' j) t)
    (psi : Nat → Nat → ℝ → ℝ) (psi' : Nat → Nat → ℝ)
    (hpsi : ∀ i d, i < nIds → d < c.nDim → HasDerivAt (psi i d) (psi' i d) t)
    (up : Option (Nat → Nat → ℝ)) (L : (Nat → Nat → ℝ) → ℝ)
    (hL : HasGradientAt nIds c.nDim L (upAt up) (fun i d => psi i d t))
    (hpos : ∀ i d, i < nIds → d < c.nDim → 0 < covTh c (θ t) cov i 1 d)
    (hppos : ∀ i d, i < nIds → d < c.nDim → 0 ≤ psi i d t) :
    let so := popSens .trunc nIds c.nDim (covTh c (θ t) cov) (fun i d => psi i d t) up
    so.defined = true ∧
    covLLcore .trunc nIds c.nDim (covTh c (θ t) cov) (fun i d => psi i d t) = so.score ∧
    HasDerivAt (fun s => L (fun i d => psi i d s)
        + truncLLraw nIds c.nDim (fun i d => covTh c (θ s) cov i 0 d) (fun i d => covTh c (θ s) cov i 1 d)
            (fun i d => psi i d s))
      (isum2 nIds c.nDim (fun i d => so.dpsi i d * psi' i d)
        + ∑ j ∈ Finset.range c.nParams, covSensAt c nIds so.dtheta cov j * θ' j) t := by
  intro so
  have h := C05_trunc_grad nIds c.nDim (fun i d s => covTh c (θ s) cov i 0 d)
    (fun i d s => covTh c (θ s) cov i 1 d) psi (fun i d => covTh c θ' cov i 0 d)
    (fun i d => covTh c θ' cov i 1 d) psi' t up L
    (fun i d _ _ => covTh_hasDerivAt c θ θ' t hθ cov i 0 d)
    (fun i d _ _ => covTh_hasDerivAt c θ θ' t hθ cov i 1 d) hpsi hpos hppos hL
  have e1 := popSens_trunc nIds c.nDim (thOf (fun i d => covTh c (θ t) cov i 0 d)
    (fun i d => covTh c (θ t) cov i 1 d)) (fun i d => psi i d t) up
    (by intro i d hi hd; simpa [thOf] using hpos i d hi hd) hppos
  have e2 : so = _ := popSens_trunc nIds c.nDim (covTh c (θ t) cov) (fun i d => psi i d t) up hpos hppos
  simp only [thOf, if_true, one_ne_zero, if_false] at e1
  rw [e1, ← e2] at h
  obtain ⟨hdef, hscore, hder⟩ := h
  refine ⟨hdef, ?_, C07_cov_chain c hn hr hper nIds cov θ' _ t so.dpsi psi' so.dtheta hder⟩
  rw [e2]
  exact popLL_trunc_val nIds c.nDim (covTh c (θ t) cov) (fun i d => psi i d t) hpos hppos


/-- END TO END, non-centred Gaussian wrapped model (`ψ_i = ϑ_i[0] + ϑ_i[1] η_i`, via C05_gaussNC_grad): the derivative of `L(ψ(η, θ)) + log N(η; 0, 1)` along any curve of `(η, θ)` is `⟨deta, η'⟩ + ⟨dtheta, θ'⟩` with chi's outputs — the upstream sensitivities reach `ϑ₀` and `β` through `ψ` and the covariate model -/
theorem C07_grad_gauss_noncentred (c : CovCfg) (hn : c.sel.Nodup) (hr : c.InRange) (hper : c.perDim = 2)
    (nIds : Nat) (cov : Nat → Nat → ℝ) (θ : ℝ → Nat → ℝ) (θ' : Nat → ℝ) (t : ℝ)
    (hθ : ∀ j, HasDerivAt (fun s => θ s j) (θ' j) t)
    (eta : Nat → Nat → ℝ → ℝ) (eta' : Nat → Nat → ℝ)
    (heta : ∀ i d, i < nIds → d < c.nDim → HasDerivAt (eta i d) (eta' i d) t)
    (up : Option (Nat → Nat → ℝ)) (L : (Nat → Nat → ℝ) → ℝ)
    (hL : HasGradientAt nIds c.nDim L (upAt up) (fun i d => covTh c (θ t) cov i 0 d + covTh c (θ t) cov i 1 d * eta i d t))
    (hnn : ∀ i d, i < nIds → d < c.nDim → 0 ≤ covTh c (θ t) cov i 1 d) :
    let so := popSens (.gauss false) nIds c.nDim (covTh c (θ t) cov) (fun i d => eta i d t) up
    so.defined = true ∧
    covLLcore (.gauss false) nIds c.nDim (covTh c (θ t) cov) (fun i d => eta i d t) = so.score ∧
    HasDerivAt (fun s => L (fun i d => covTh c (θ s) cov i 0 d + covTh c (θ s) cov i 1 d * eta i d s)
        + stdNormalLL nIds c.nDim (fun i d => eta i d s))
      (isum2 nIds c.nDim (fun i d => so.dpsi i d * eta' i d)
        + ∑ j ∈ Finset.range c.nParams, covSensAt c nIds so.dtheta cov j * θ' j) t := by
  intro so
  have h := C05_gaussNC_grad nIds c.nDim (fun i d s => covTh c (θ s) cov i 0 d)
    (fun i d s => covTh c (θ s) cov i 1 d) eta (fun i d => covTh c θ' cov i 0 d)
    (fun i d => covTh c θ' cov i 1 d) eta' t up L
    (fun i d _ _ => covTh_hasDerivAt c θ θ' t hθ cov i 0 d)
    (fun i d _ _ => covTh_hasDerivAt c θ θ' t hθ cov i 1 d) heta hnn hL
  have e1 := popSens_gaussNC nIds c.nDim (thOf (fun i d => covTh c (θ t) cov i 0 d)
    (fun i d => covTh c (θ t) cov i 1 d)) (fun i d => eta i d t) up
    (by intro i d hi hd; simpa [thOf] using hnn i d hi hd)
  have e2 : so = _ := popSens_gaussNC nIds c.nDim (covTh c (θ t) cov) (fun i d => eta i d t) up hnn
  simp only [thOf, if_true, one_ne_zero, if_false] at e1
  rw [e1, ← e2] at h
  obtain ⟨hdef, hscore, hder⟩ := h
  refine ⟨hdef, ?_, C07_cov_chain c hn hr hper nIds cov θ' _ t so.dpsi eta' so.dtheta hder⟩
  rw [e2]
  rfl

/-- END TO END, non-centred log-normal wrapped model (`ψ_i = exp(ϑ_i[0] + ϑ_i[1] η_i)`, via C05_lognNC_grad) -/
theorem C07_grad_logn_noncentred (c : CovCfg) (hn : c.sel.Nodup) (hr : c.InRange) (hper : c.perDim = 2)
    (nIds : Nat) (cov : Nat → Nat → ℝ) (θ : ℝ → Nat → ℝ) (θ' : Nat → ℝ) (t : ℝ)
    (hθ : ∀ j, HasDerivAt (fun s => θ s j) (θ' j) t)
    (eta : Nat → Nat → ℝ → ℝ) (eta' : Nat → Nat → ℝ)
    (heta : ∀ i d, i < nIds → d < c.nDim → HasDerivAt (eta i d) (eta' i d) t)
    (up : Option (Nat → Nat → ℝ)) (L : (Nat → Nat → ℝ) → ℝ)
    (hL : HasGradientAt nIds c.nDim L (upAt up) (fun i d => Real.exp (covTh c (θ t) cov i 0 d + covTh c (θ t) cov i 1 d * eta i d t)))
    (hnn : ∀ i d, i < nIds → d < c.nDim → 0 ≤ covTh c (θ t) cov i 1 d) :
    let so := popSens (.logn false) nIds c.nDim (covTh c (θ t) cov) (fun i d => eta i d t) up
    so.defined = true ∧
    covLLcore (.logn false) nIds c.nDim (covTh c (θ t) cov) (fun i d => eta i d t) = so.score ∧
    HasDerivAt (fun s => L (fun i d => Real.exp (covTh c (θ s) cov i 0 d + covTh c (θ s) cov i 1 d * eta i d s))
        + stdNormalLL nIds c.nDim (fun i d => eta i d s))
      (isum2 nIds c.nDim (fun i d => so.dpsi i d * eta' i d)
        + ∑ j ∈ Finset.range c.nParams, covSensAt c nIds so.dtheta cov j * θ' j) t := by
  intro so
  have h := C05_lognNC_grad nIds c.nDim (fun i d s => covTh c (θ s) cov i 0 d)
    (fun i d s => covTh c (θ s) cov i 1 d) eta (fun i d => covTh c θ' cov i 0 d)
    (fun i d => covTh c θ' cov i 1 d) eta' t up L
    (fun i d _ _ => covTh_hasDerivAt c θ θ' t hθ cov i 0 d)
    (fun i d _ _ => covTh_hasDerivAt c θ θ' t hθ cov i 1 d) heta hnn hL
  have e1 := popSens_lognNC nIds c.nDim (thOf (fun i d => covTh c (θ t) cov i 0 d)
    (fun i d => covTh c (θ t) cov i 1 d)) (fun i d => eta i d t) up
    (by intro i d hi hd; simpa [thOf] using hnn i d hi hd)
  have e2 : so = _ := popSens_lognNC nIds c.nDim (covTh c (θ t) cov) (fun i d => eta i d t) up hnn
  simp only [thOf, if_true, one_ne_zero, if_false] at e1
  rw [e1, ← e2] at h
  obtain ⟨hdef, hscore, hder⟩ := h
  refine ⟨hdef, ?_, C07_cov_chain c hn hr hper nIds cov θ' _ t so.dpsi eta' so.dtheta hder⟩
  rw [e2]
  rfl


/-- END TO END, pooled / heterogeneous wrapped model (no individual-level entries; `ψ_i` IS the
    row `ownRow` of `ϑ_i`, so the model sits on its point mass and scores `0`): the reduced
    gradient the code returns — the transposed map applied to `dtheta + dpsi` on that row — is the
    derivative of the upstream part `L(ψ(θ))` along any differentiable curve of `θ = (ϑ₀, β)`: the
    upstream sensitivities `dlogp_dpsi` reach `ϑ₀` and `β`. -/
theorem C07_grad_pointmass (k : Kind) (hk : k = .pooled ∨ k = .hetero) (c : CovCfg)
    (hn : c.sel.Nodup) (hr : c.InRange) (nIds : Nat) (hrow : ∀ i, i < nIds → ownRow k i < c.perDim)
    (cov : Nat → Nat → ℝ) (θ : ℝ → Nat → ℝ) (θ' : Nat → ℝ) (t : ℝ)
    (hθ : ∀ j, HasDerivAt (fun s => θ s j) (θ' j) t)
    (up : Option (Nat → Nat → ℝ)) (L : (Nat → Nat → ℝ) → ℝ)
    (hL : HasGradientAt nIds c.nDim L (upAt up) (fun i d => covTh c (θ t) cov i (ownRow k i) d)) :
    let psi : Nat → Nat → ℝ := fun i d => covTh c (θ t) cov i (ownRow k i) d
    let so := popSens k nIds c.nDim (covTh c (θ t) cov) psi up
    so.defined = true ∧
    covLLcore k nIds c.nDim (covTh c (θ t) cov) psi = .val 0 ∧
    (covReduced k c nIds so.dpsi so.dtheta cov).length = c.nParams ∧
    (∀ j, j < c.nParams → (covReduced k c nIds so.dpsi so.dtheta cov)[j]?
      = some (covSensAt c nIds (fun i p d => if p = ownRow k i then so.dtheta i p d + so.dpsi i d
          else so.dtheta i p d) cov j)) ∧
    HasDerivAt (fun s => L (fun i d => covTh c (θ s) cov i (ownRow k i) d))
      (∑ j ∈ Finset.range c.nParams, covSensAt c nIds (fun i p d =>
        if p = ownRow k i then so.dtheta i p d + so.dpsi i d else so.dtheta i p d) cov j * θ' j) t := by
  intro psi so
  have hhier : k.hierarchical = false := by rcases hk with rfl | rfl <;> rfl
  have e : so = ⟨.val 0, true, addUp up (fun _ _ => zero), fun _ _ _ => zero⟩ := by
    rcases hk with rfl | rfl
    · exact popSens_pooled nIds c.nDim _ psi up (fun i d _ _ => rfl)
    · exact popSens_hetero nIds c.nDim _ psi up (fun i d _ _ => rfl)
  have hscore : covLLcore k nIds c.nDim (covTh c (θ t) cov) psi = .val 0 := by
    rcases hk with rfl | rfl
    · exact popLL_pooled_val nIds c.nDim _ psi (fun i d _ _ => rfl)
    · exact popLL_hetero_val nIds c.nDim _ psi (fun i d _ _ => rfl)
  have hred := (C07_grad_reduced k c nIds so.dpsi so.dtheta cov).2.2 hhier
  have hlen : (covReduced k c nIds so.dpsi so.dtheta cov).length = c.nParams := by
    rw [hred]; exact (C07_grad_entries c nIds _ cov).1
  refine ⟨by rw [e], hscore, hlen, ?_, ?_⟩
  · intro j hj
    rw [hred]
    exact C07_covSens_getElem_opt c nIds _ cov j hj
  · have h1 := hL (fun i d s => covTh c (θ s) cov i (ownRow k i) d)
      (fun i d => covTh c θ' cov i (ownRow k i) d) t (fun _ _ => rfl)
      (fun i d _ _ => covTh_hasDerivAt c θ θ' t hθ cov i (ownRow k i) d)
    refine h1.congr_deriv ?_
    rw [← C07_grad c hn hr nIds _ cov θ', isum2_eq]
    refine Finset.sum_congr rfl fun i hi => ?_
    have hi' : i < nIds := Finset.mem_range.mp hi
    symm
    rw [Finset.sum_eq_single (ownRow k i)]
    · refine Finset.sum_congr rfl fun d _ => ?_
      rw [e]
      simp [addUp_apply, zero]
    · intro p _ hp
      refine Finset.sum_eq_zero fun d _ => ?_
      rw [e]
      simp [hp, zero]
    · intro h
      exact absurd (Finset.mem_range.mpr (hrow i hi')) h


/-! ## 7. non-vacuity -/

/-- the hypotheses of the selection / transpose theorems are satisfiable: an out-of-order list with
    a duplicate is normalised to an in-range duplicate-free selection -/
example : normSel [(1, 1), (0, 0), (1, 1), (0, 2)] = [(0, 0), (0, 2), (1, 1)] := by decide

example : (⟨3, 2, 2, normSel [(1, 1), (0, 0), (1, 1), (0, 2)]⟩ : CovCfg).InRange := by
  intro x hx
  have : x = (0, 0) ∨ x = (0, 2) ∨ x = (1, 1) := by
    have e : normSel [(1, 1), (0, 0), (1, 1), (0, 2)] = [(0, 0), (0, 2), (1, 1)] := by decide
    simp only [e] at hx
    simpa using hx
  rcases this with rfl | rfl | rfl <;> decide

/-- the gradient contract `hL` of `C07_grad_hasDerivAt` is satisfiable (a linear `L`) -/
example (nIds P D : Nat) (g : Nat → Nat → Nat → ℝ) (Θ : ℝ → Nat → Nat → Nat → ℝ)
    (Θ' : Nat → Nat → Nat → ℝ) (t : ℝ) (h : ∀ i p d, HasDerivAt (fun s => Θ s i p d) (Θ' i p d) t) :
    HasDerivAt (fun s => ∑ i ∈ Finset.range nIds, ∑ p ∈ Finset.range P, ∑ d ∈ Finset.range D,
        g i p d * Θ s i p d)
      (∑ i ∈ Finset.range nIds, ∑ p ∈ Finset.range P, ∑ d ∈ Finset.range D, g i p d * Θ' i p d) t :=
  HasDerivAt.fun_sum (fun i _ => HasDerivAt.fun_sum (fun p _ => HasDerivAt.fun_sum
    (fun d _ => (h i p d).const_mul (g i p d))))

/-- a concrete transform: two individuals, β on the mean of dimension 1 only -/
example : covTh (⟨2, 2, 1, [(0, 1)]⟩ : CovCfg) (vecOf [1, 2, 3, 4, (1 / 2 : ℝ)])
    (fun i _ => if i = 0 then 0 else 2) 1 0 1 = 3 := by
  have h := covTh_selected (⟨2, 2, 1, [(0, 1)]⟩ : CovCfg) (by decide) (vecOf [1, 2, 3, 4, (1 / 2 : ℝ)])
    (fun i _ => if i = 0 then 0 else 2) 1 0 (by decide)
  simp only [List.getElem_cons_zero] at h
  rw [h]
  simp [CovCfg.base, CovCfg.beta, CovCfg.nPop, vecOf, isum, lsum]
  norm_num

/-! ### rejected selection calls in a history

`CovariatePopulationModel.set_population_parameters` checks the bounds BEFORE it touches the covariate
model: a caller who catches the error goes on with the wrapper as it was (the harness makes such calls —
op `X` of the generated histories — and compares names / counts / every evaluation afterwards). -/

/-- `CovariatePopulationModel.set_population_parameters` as a caller meets it inside a `try`: the bounds
    check comes first; a rejected call leaves the wrapper as it was -/
def CovModel.trySetPop (m : CovModel) (indices : List (Int × Int)) : CovModel × Bool :=
  match setPopChecked m.perDim m.nDim indices with
  | .ok sel => (m.setPop false sel, true)
  | .error _ => (m, false)

/-- a history of selection calls, accepted or not -/
def CovModel.tryAll (m : CovModel) (calls : List (List (Int × Int))) : CovModel :=
  calls.foldl (fun acc ix => (acc.trySetPop ix).1) m

/-- does the bounds check accept these indices (for `perDim` rows, `nDim` columns)? -/
def selAccepted (perDim nDim : Nat) (indices : List (Int × Int)) : Bool :=
  match setPopChecked perDim nDim indices with
  | .ok _ => true
  | .error _ => false

theorem CovModel.setPop_dims (m : CovModel) (b : Bool) (ix : List Pair) :
    (m.setPop b ix).perDim = m.perDim ∧ (m.setPop b ix).nDim = m.nDim := ⟨rfl, rfl⟩

theorem CovModel.trySetPop_dims (m : CovModel) (ix : List (Int × Int)) :
    (m.trySetPop ix).1.perDim = m.perDim ∧ (m.trySetPop ix).1.nDim = m.nDim := by
  unfold CovModel.trySetPop
  cases setPopChecked m.perDim m.nDim ix <;> exact ⟨rfl, rfl⟩

/-- a selection with a pair out of range (or an empty one) is rejected and the wrapper — selection,
    names, parameter count — is exactly what it was -/
theorem C07_rejected_selection_unchanged (m : CovModel) (indices : List (Int × Int))
    (hbad : indices = [] ∨ ∃ x ∈ indices, x.1 ≥ m.perDim ∨ x.2 ≥ m.nDim ∨ x.1 < 0 ∨ x.2 < 0) :
    m.trySetPop indices = (m, false) := by
  unfold CovModel.trySetPop
  rcases hbad with h | ⟨x, hx, hb⟩
  · subst h; rfl
  · have hne : indices ≠ [] := by
      intro h; subst h; cases hx
    rw [C07_setpop_out_of_range m.perDim m.nDim indices hne x hx hb]

/-- for every history of selection calls: the rejected ones can be erased — the wrapper ends up where
    the accepted calls alone take it -/
theorem C07_rejected_calls_erased (m : CovModel) (calls : List (List (Int × Int))) :
    m.tryAll calls = m.tryAll (calls.filter (selAccepted m.perDim m.nDim)) := by
  induction calls generalizing m with
  | nil => rfl
  | cons c cs ih =>
    have hd := m.trySetPop_dims c
    unfold CovModel.tryAll at ih ⊢
    simp only [List.foldl_cons, List.filter_cons]
    rw [ih, hd.1, hd.2]
    cases hc : setPopChecked m.perDim m.nDim c with
    | ok sel =>
      have : selAccepted m.perDim m.nDim c = true := by unfold selAccepted; rw [hc]
      simp only [this, if_true, List.foldl_cons]
    | error e =>
      have h1 : selAccepted m.perDim m.nDim c = false := by unfold selAccepted; rw [hc]
      have h2 : (m.trySetPop c).1 = m := by unfold CovModel.trySetPop; rw [hc]
      simp only [h1, h2]
      rfl

example : (CovModel.construct 2 2 1 ["Mean", "Std."] ["a", "b"] ["c"]).tryAll [[(0, 0)], [(5, 0)]]
    = (CovModel.construct 2 2 1 ["Mean", "Std."] ["a", "b"] ["c"]).tryAll [[(0, 0)]] := by decide

end ChiModel
