import ChiProofs.Lemmas.FilterCalc
import ChiProofs.Lemmas.FilterDoc
import ChiProofs.Lemmas.FilterPerm
import ChiProofs.Lemmas.FilterNested

/-!
# C12 — population filters use the documented estimators; missing-data invariant; exact gradients

Model: `ChiModel/Filters.lean` (namespace `ChiModel.PF`).  Measurements are `obs i r j : Option ℝ`
(`none` = missing), simulated measurements `y s r j`.  All theorems hold for every number of
measured individuals `m`, observables `R`, times `T`, every missing pattern and every number `n`
of simulated individuals allowed by the stated hypotheses.
-/
set_option linter.unusedSectionVars false
set_option linter.unusedSimpArgs false
set_option linter.unusedVariables false
namespace ChiModel
open ScalarFns Finset ProbabilityTheory PF

/-- `Σ_{r<R} Σ_{j<T} Σ_{i : obs i r j not missing} log (dens r j (obs i r j))` — the right-hand side
    of the property: every non-missing measurement scored once with the documented density of its
    own observable and time point -/
noncomputable def sumLogDensity (m R T : Nat) (obs : Nat → Nat → Nat → Option ℝ)
    (dens : Nat → Nat → ℝ → ℝ) : ℝ :=
  ∑ r ∈ range R, ∑ j ∈ range T,
    (((List.range m).filterMap (fun i => obs i r j)).map (fun v => Real.log (dens r j v))).sum

/-- all non-missing measurements are positive (needed by the log-normal densities) -/
def ObsPositive (m R T : Nat) (obs : Nat → Nat → Nat → Option ℝ) : Prop :=
  ∀ i, i < m → ∀ r, r < R → ∀ j, j < T → ∀ v, obs i r j = some v → 0 < v

/-! ## the building blocks are the documented ones -/

/-- numpy's masked reductions = sums over the non-missing measurements of the cell -/
theorem C12_msum_eq_filterMap (m : Nat) (o : Nat → Option ℝ) (f : ℝ → ℝ) :
    msum m o f = (((List.range m).filterMap o).map f).sum := msum_eq_filterMap m o f

/-- `μ = (1/n) Σ ỹ_s`, `σ² = (1/(n-1)) Σ (ỹ_s − μ)²` -/
theorem C12_mean_var_are_documented (n : Nat) (y : Nat → ℝ) :
    meanI n y = (∑ s ∈ range n, y s) / n
      ∧ varI n y = (∑ s ∈ range n, (y s - meanI n y) ^ 2) / ((n : ℝ) - 1) :=
  ⟨meanI_eq n y, varI_eq n y⟩

/-- `bw_squared = ((4/(3 n_s))^{1/5} · sd)²` -/
theorem C12_bandwidth_is_documented (n : Nat) (hn : 0 < n) (y : Nat → ℝ) (hv : 0 ≤ varI n y) :
    kdeBw2 n y = ((4 / (3 * (n:ℝ))) ^ ((1:ℝ) / 5) * Real.sqrt (varI n y)) ^ 2 :=
  kdeBw2_eq n hn y hv

/-- chi's masked-array-safe `logsumexp` is `log Σ exp` -/
theorem C12_logsumexp (n : Nat) (hn : 0 < n) (a : Nat → ℝ) :
    lse n a = Real.log (∑ s ∈ range n, Real.exp (a s)) := lse_eq n hn a

theorem C12_softmax (n : Nat) (hn : 0 < n) (a : Nat → ℝ) (s : Nat) :
    softmaxI n a s = Real.exp (a s) / ∑ s' ∈ range n, Real.exp (a s') := softmaxI_eq n hn a s

/-! ## value = sum over the non-missing measurements of the documented log-density -/

/-- generic step: a filter whose cell score is a masked sum of per-measurement terms -/
theorem filterVal_eq_sumLog (k : FKind) (m n R T : Nat) (obs : Nat → Nat → Nat → Option ℝ)
    (y : Nat → Nat → Nat → ℝ) (term : Nat → Nat → ℝ → ℝ) (dens : Nat → Nat → ℝ → ℝ)
    (hcell : ∀ r, r < R → ∀ j, j < T →
      cellVal k m n (fun i => obs i r j) (fun s => y s r j) = msum m (fun i => obs i r j) (term r j))
    (hterm : ∀ r, r < R → ∀ j, j < T → ∀ i, i < m → ∀ v, obs i r j = some v →
      term r j v = Real.log (dens r j v)) :
    filterVal k m n R T obs y = sumLogDensity m R T obs dens := by
  unfold filterVal sumLogDensity
  simp only [isum_eq]
  refine Finset.sum_congr rfl fun r hr => Finset.sum_congr rfl fun j hj => ?_
  rw [hcell r (mem_range.mp hr) j (mem_range.mp hj), ← msum_eq_filterMap]
  exact msum_congr m _ _ _ (fun i hi v hv => hterm r (mem_range.mp hr) j (mem_range.mp hj) i hi v hv)

/-- GaussianFilter: `Σ_{ijr} log N(y_ijr | μ_jr, σ²_jr)` over the non-missing measurements -/
theorem C12_gaussian_is_documented (m n R T : Nat) (obs : Nat → Nat → Nat → Option ℝ)
    (y : Nat → Nat → Nat → ℝ)
    (hv : ∀ r, r < R → ∀ j, j < T → 0 < varI n (fun s => y s r j)) :
    filterVal .gauss m n R T obs y
      = sumLogDensity m R T obs (fun r j v =>
          normalPDF (meanI n (fun s => y s r j)) (varI n (fun s => y s r j)) v) :=
  filterVal_eq_sumLog .gauss m n R T obs y
    (fun r j v => gscore (meanI n (fun s => y s r j)) (varI n (fun s => y s r j)) v
      - Real.log (2 * Real.pi) / 2) _
    (fun r _ j _ => gfCell_eq m n _ _)
    (fun r hr j hj i _ v _ => gauss_term_doc _ _ _ (hv r hr j hj))

/-- LogNormalFilter: `Σ log LN(y_ijr | μ_jr, σ_jr)`, statistics of the simulated log-values -/
theorem C12_lognormal_is_documented (m n R T : Nat) (obs : Nat → Nat → Nat → Option ℝ)
    (y : Nat → Nat → Nat → ℝ) (hpos : ObsPositive m R T obs)
    (hv : ∀ r, r < R → ∀ j, j < T → 0 < varI n (logv (fun s => y s r j))) :
    filterVal .lognorm m n R T obs y
      = sumLogDensity m R T obs (fun r j v =>
          logNormalPDFv (meanI n (logv (fun s => y s r j))) (varI n (logv (fun s => y s r j))) v) :=
  filterVal_eq_sumLog .lognorm m n R T obs y
    (fun r j v => gscore (meanI n (logv (fun s => y s r j))) (varI n (logv (fun s => y s r j)))
      (Real.log v) - Real.log (2 * Real.pi) / 2 - Real.log v) _
    (fun r _ j _ => by
      simp only [cellVal]
      rw [lnfCell_eq, gfCell_eq, msum_logo, msum_logo, ← msum_sub])
    (fun r hr j hj i hi v hiv => ln_term_doc _ _ _ (hv r hr j hj) (hpos i hi r hr j hj v hiv))

/-- GaussianKDEFilter: `Σ log ((1/n_s) Σ_s N(y_ijr | ỹ_sjr, bw²_jr))` with the rule-of-thumb
    bandwidth of `C12_bandwidth_is_documented` -/
theorem C12_gaussianKDE_is_documented (m n R T : Nat) (hn : 0 < n)
    (obs : Nat → Nat → Nat → Option ℝ) (y : Nat → Nat → Nat → ℝ)
    (hv : ∀ r, r < R → ∀ j, j < T → 0 < varI n (fun s => y s r j)) :
    filterVal .gkde m n R T obs y
      = sumLogDensity m R T obs (fun r j v =>
          (∑ s ∈ range n, normalPDF (y s r j)
            (((4 / (3 * (n:ℝ))) ^ ((1:ℝ) / 5) * Real.sqrt (varI n (fun s => y s r j))) ^ 2) v) / n) := by
  refine filterVal_eq_sumLog .gkde m n R T obs y (fun r j v => kdeTerm n (fun s => y s r j) v) _
    (fun r _ j _ => rfl) (fun r hr j hj i _ v _ => ?_)
  rw [kde_term_doc n hn _ v (hv r hr j hj), kdeBw2_eq n hn _ (hv r hr j hj).le]

/-- GaussianMixtureFilter with `K` kernels and `n = K·p` simulated individuals: kernel `k` is
    estimated from the consecutive block `k·p … k·p + p − 1` -/
theorem C12_mixture_is_documented (m K p R T : Nat) (hK : 0 < K)
    (obs : Nat → Nat → Nat → Option ℝ) (y : Nat → Nat → Nat → ℝ)
    (hv : ∀ r, r < R → ∀ j, j < T → ∀ k, k < K → 0 < varI p (blk p k (fun s => y s r j))) :
    filterVal (.mix K) m (K * p) R T obs y
      = sumLogDensity m R T obs (fun r j v =>
          ∑ k ∈ range K, normalPDF (meanI p (fun q => y (k * p + q) r j))
            (varI p (fun q => y (k * p + q) r j)) v / K) := by
  refine filterVal_eq_sumLog (.mix K) m (K * p) R T obs y
    (fun r j v => mixTerm K p (fun s => y s r j) v) _ (fun r _ j _ => ?_)
    (fun r hr j hj i _ v _ => ?_)
  · simp only [cellVal, Nat.mul_div_cancel_left p hK, mixCell]
  · exact mix_term_doc K p hK _ v (hv r hr j hj)

/-- the log-normal KDE density with the bandwidth from the SIMULATED log-values -/
noncomputable def lnkdeSimDensity (n : Nat) (y : Nat → ℝ) (v : ℝ) : ℝ :=
  (∑ s ∈ range n, logNormalPDFv (Real.log (y s)) (kdeBw2 n (logv y)) v) / n

/-- the documented log-normal KDE density: bandwidth from the MEASURED log-values of the cell -/
noncomputable def lnkdeDocDensity (m n : Nat) (o : Nat → Option ℝ) (y : Nat → ℝ) (v : ℝ) : ℝ :=
  (∑ s ∈ range n, logNormalPDFv (Real.log (y s))
    (bwDoc n (mvar m (logo o)) * bwDoc n (mvar m (logo o))) v) / n

/-- LogNormalKDEFilter (as repaired by 95a9ff7): `Σ log ((1/n_s) Σ_s LN(y_ijr | ỹ_sjr, bw_jr))` with the
    rule-of-thumb bandwidth of the SIMULATED log-values.  (The class docstring takes the bandwidth
    from the measured log-values: `lnkdeDocDensity`, `C12_lognormalKDE_bandwidth_counterexample`.) -/
theorem C12_lognormalKDE_is_documented (m n R T : Nat) (hn : 0 < n)
    (obs : Nat → Nat → Nat → Option ℝ) (y : Nat → Nat → Nat → ℝ) (hpos : ObsPositive m R T obs)
    (hv : ∀ r, r < R → ∀ j, j < T → 0 < varI n (logv (fun s => y s r j))) :
    filterVal .lnkde m n R T obs y
      = sumLogDensity m R T obs (fun r j v => lnkdeSimDensity n (fun s => y s r j) v) :=
  filterVal_eq_sumLog .lnkde m n R T obs y
    (fun r j v => kdeTerm n (logv (fun s => y s r j)) (Real.log v) - Real.log v) _
    (fun r _ j _ => by
      simp only [cellVal, lnkdeCell]
      rw [msum_logo])
    (fun r hr j hj i hi v hiv => by
      have := lnkde_term_doc n hn (fun s => y s r j) v (hv r hr j hj) (hpos i hi r hr j hj v hiv)
      unfold lnkdeSimDensity
      linarith)

/-- the `legacy` class (before 95a9ff7) exceeds that value by exactly `Σ log y` over the non-missing
    measurements: the Jacobian term of the log-normal density was missing -/
theorem C12_lognormalKDE_legacy_partial (m n R T : Nat) (hn : 0 < n)
    (obs : Nat → Nat → Nat → Option ℝ) (y : Nat → Nat → Nat → ℝ) (hpos : ObsPositive m R T obs)
    (hv : ∀ r, r < R → ∀ j, j < T → 0 < varI n (logv (fun s => y s r j))) :
    filterValLnkdeLegacy m n R T obs y
      = sumLogDensity m R T obs (fun r j v => lnkdeSimDensity n (fun s => y s r j) v)
        + ∑ r ∈ range R, ∑ j ∈ range T,
            (((List.range m).filterMap (fun i => obs i r j)).map Real.log).sum := by
  rw [← C12_lognormalKDE_is_documented m n R T hn obs y hpos hv]
  unfold filterValLnkdeLegacy filterVal
  simp only [isum_eq, ← Finset.sum_add_distrib]
  refine Finset.sum_congr rfl fun r _ => Finset.sum_congr rfl fun j _ => ?_
  simp only [cellVal]
  rw [lnkdeCellLegacy_eq, msum_logo, ← msum_eq_filterMap]

/-- Witness: two measurements `2, 3` of one observable at one time, two simulated values `2, 3`.
    Measured and simulated log-values coincide, so both bandwidth rules give the same number and
    the documented value is the LEGACY model's value minus `log 2 + log 3 ≠ 0` (regression witness for
    commit 95a9ff7; the harness replays it on chi, where it must now agree with the documented value). -/
theorem C12_lognormalKDE_jacobian_counterexample :
    let obs : Nat → Nat → Nat → Option ℝ := fun i _ _ => if i = 0 then some 2 else some 3
    let y : Nat → Nat → Nat → ℝ := fun s _ _ => if s = 0 then 2 else 3
    filterValLnkdeLegacy 2 2 1 1 obs y
      ≠ sumLogDensity 2 1 1 obs (fun r j v =>
          lnkdeDocDensity 2 2 (fun i => obs i r j) (fun s => y s r j) v) := by
  intro obs y
  have hlog : Real.log 2 < Real.log 3 := Real.log_lt_log (by norm_num) (by norm_num)
  have hl2 : 0 < Real.log 2 := Real.log_pos (by norm_num)
  -- statistics of the simulated log-values
  have hmean : meanI 2 (logv (fun s => y s 0 0)) = (Real.log 2 + Real.log 3) / 2 := by
    simp [meanI_eq, logv, y, Finset.sum_range_succ]
  have hvar : varI 2 (logv (fun s => y s 0 0))
      = ((Real.log 2 - (Real.log 2 + Real.log 3) / 2) ^ 2
          + (Real.log 3 - (Real.log 2 + Real.log 3) / 2) ^ 2) / (2 - 1) := by
    rw [varI_eq, hmean]
    simp [logv, y, Finset.sum_range_succ]
  have hvpos : 0 < varI 2 (logv (fun s => y s 0 0)) := by
    rw [hvar]
    have hne : Real.log 2 - (Real.log 2 + Real.log 3) / 2 ≠ 0 := by intro h; linarith
    have h1 : 0 < (Real.log 2 - (Real.log 2 + Real.log 3) / 2) ^ 2 := by positivity
    have h2 := sq_nonneg (Real.log 3 - (Real.log 2 + Real.log 3) / 2)
    exact div_pos (by linarith) (by norm_num)
  -- the measured log-values have the same mean and variance
  have hcount : mcount 2 (logo (fun i => obs i 0 0)) = 2 := by
    simp [mcount, msum_eq_sum, logo, obs, Finset.sum_range_succ]; norm_num
  have hmmean : mmean 2 (logo (fun i => obs i 0 0)) = (Real.log 2 + Real.log 3) / 2 := by
    unfold mmean
    rw [hcount]
    simp [msum_eq_sum, logo, obs, Finset.sum_range_succ]
  have hmvar : mvar 2 (logo (fun i => obs i 0 0)) = varI 2 (logv (fun s => y s 0 0)) := by
    unfold mvar
    rw [hcount, hmmean, hvar]
    simp [msum_eq_sum, logo, obs, Finset.sum_range_succ, sq]
  have hbw : bwDoc 2 (mvar 2 (logo (fun i => obs i 0 0))) * bwDoc 2 (mvar 2 (logo (fun i => obs i 0 0)))
      = kdeBw2 2 (logv (fun s => y s 0 0)) := by
    rw [hmvar]; exact bwDoc_sq 2 (by norm_num) _ hvpos.le
  have hpart := C12_lognormalKDE_legacy_partial 2 2 1 1 (by norm_num) obs y
    (by
      intro i _ r _ j _ v hv
      simp only [obs] at hv
      split_ifs at hv <;> (cases hv; norm_num))
    (by
      intro r hr j hj
      have hr0 : r = 0 := by omega
      have hj0 : j = 0 := by omega
      subst hr0; subst hj0
      exact hvpos)
  rw [hpart]
  have hsame : sumLogDensity 2 1 1 obs (fun r j v =>
        lnkdeDocDensity 2 2 (fun i => obs i r j) (fun s => y s r j) v)
      = sumLogDensity 2 1 1 obs (fun r j v => lnkdeSimDensity 2 (fun s => y s r j) v) := by
    unfold sumLogDensity lnkdeDocDensity lnkdeSimDensity
    simp only [Finset.sum_range_one, hbw]
  rw [hsame]
  have hjac : ∑ r ∈ range 1, ∑ j ∈ range 1,
      (((List.range 2).filterMap (fun i => obs i r j)).map Real.log).sum
      = Real.log 2 + Real.log 3 := by
    simp [obs, List.range_succ]
  rw [hjac]
  intro h
  linarith

/-- the bandwidth chi uses is not a function of the measurements (the docstring defines it from the
    measured log-values alone): it changes with the simulated values -/
theorem C12_lognormalKDE_bandwidth_counterexample :
    kdeBw2 2 (logv (fun s => if s = 0 then (1:ℝ) else 2))
      ≠ kdeBw2 2 (logv (fun s => if s = 0 then (1:ℝ) else 4)) := by
  have hl2 : 0 < Real.log 2 := Real.log_pos (by norm_num)
  have h4 : Real.log 4 = 2 * Real.log 2 := by
    rw [show (4:ℝ) = 2 ^ 2 by norm_num, Real.log_pow]; norm_num
  unfold kdeBw2
  intro h
  have hf := (kdeFactor_pos 2).ne'
  have h' := mul_left_cancel₀ hf h
  rw [varI_eq, varI_eq, meanI_eq, meanI_eq] at h'
  simp [logv, Finset.sum_range_succ, h4] at h'
  nlinarith [sq_nonneg (Real.log 2)]

/-- the executable spec `docVal` (written from the docstrings; run by the harness as
    `C12.filter`'s third reply) is the same sum of documented log-densities as the model -/
theorem C12_spec_twin (k : FKind) (m n R T : Nat) (hn : 0 < n)
    (obs : Nat → Nat → Nat → Option ℝ) (y : Nat → Nat → Nat → ℝ)
    (hk : match k with
      | .gauss => ∀ r, r < R → ∀ j, j < T → 0 < varI n (fun s => y s r j)
      | .gkde => ∀ r, r < R → ∀ j, j < T → 0 < varI n (fun s => y s r j)
      | .mix K => 0 < K ∧ K ∣ n ∧
          ∀ r, r < R → ∀ j, j < T → ∀ c, c < K → 0 < varI (n / K) (blk (n / K) c (fun s => y s r j))
      | .lognorm => ObsPositive m R T obs ∧
          ∀ r, r < R → ∀ j, j < T → 0 < varI n (logv (fun s => y s r j))
      | .lnkde => ObsPositive m R T obs ∧
          ∀ r, r < R → ∀ j, j < T → 0 < varI n (logv (fun s => y s r j))) :
    docVal k m n R T obs y = filterVal k m n R T obs y := by
  unfold docVal filterVal
  simp only [isum_eq]
  refine Finset.sum_congr rfl fun r hr => Finset.sum_congr rfl fun j hj => ?_
  have hr' := mem_range.mp hr
  have hj' := mem_range.mp hj
  cases k with
  | gauss =>
    rw [show cellVal .gauss m n (fun i => obs i r j) (fun s => y s r j) = gfCell m n _ _ from rfl,
      gfCell_eq]
    refine msum_congr m _ _ _ fun i _ v _ => ?_
    simp only [docTerm, log_real]
    rw [npdf_eq _ _ _ (hk r hr' j hj'), gauss_term_doc _ _ _ (hk r hr' j hj')]
  | gkde =>
    rw [show cellVal .gkde m n (fun i => obs i r j) (fun s => y s r j) = kdeCell m n _ _ from rfl]
    unfold kdeCell
    refine msum_congr m _ _ _ fun i _ v _ => ?_
    have hv := hk r hr' j hj'
    have hb : 0 < kdeBw2 n (fun s => y s r j) := mul_pos (kdeFactor_pos n) hv
    simp only [docTerm, log_real, ofNat_real, isum_eq]
    rw [bwDoc_sq n hn _ hv.le, kde_term_doc n hn _ v hv]
    congr 2
    exact Finset.sum_congr rfl fun s _ => npdf_eq _ _ _ hb
  | mix K =>
    obtain ⟨hK, hdiv, hv⟩ := hk
    rw [show cellVal (.mix K) m n (fun i => obs i r j) (fun s => y s r j)
      = mixCell m K (n / K) _ _ from rfl]
    unfold mixCell
    refine msum_congr m _ _ _ fun i _ v _ => ?_
    simp only [docTerm, log_real, ofNat_real, isum_eq]
    rw [mix_term_doc K (n / K) hK _ v (hv r hr' j hj')]
    congr 1
    exact Finset.sum_congr rfl fun c hc => by rw [npdf_eq _ _ _ (hv r hr' j hj' c (mem_range.mp hc))]
  | lognorm =>
    obtain ⟨hpos, hv⟩ := hk
    rw [show cellVal .lognorm m n (fun i => obs i r j) (fun s => y s r j) = lnfCell m n _ _ from rfl,
      lnfCell_eq, gfCell_eq, msum_logo, msum_logo, ← msum_sub]
    refine msum_congr m _ _ _ fun i hi v hiv => ?_
    simp only [docTerm, log_real]
    rw [npdf_eq _ _ _ (hv r hr' j hj'), ln_term_doc _ _ _ (hv r hr' j hj') (hpos i hi r hr' j hj' v hiv)]
    rfl
  | lnkde =>
    obtain ⟨hpos, hv⟩ := hk
    rw [show cellVal .lnkde m n (fun i => obs i r j) (fun s => y s r j) = lnkdeCell m n _ _ from rfl]
    unfold lnkdeCell
    rw [msum_logo]
    refine msum_congr m _ _ _ fun i hi v hiv => ?_
    have hvv := hv r hr' j hj'
    have hb : 0 < kdeBw2 n (logv (fun s => y s r j)) := mul_pos (kdeFactor_pos n) hvv
    simp only [docTerm, log_real, ofNat_real, isum_eq]
    rw [bwDoc_sq n hn _ hvv.le,
      lnkde_term_doc n hn (fun s => y s r j) v hvv (hpos i hi r hr' j hj' v hiv)]
    have : ∑ s ∈ range n, npdf (Real.log (y s r j)) (kdeBw2 n (logv fun s => y s r j)) (Real.log v) / v
        = ∑ s ∈ range n, logNormalPDFv (Real.log (y s r j)) (kdeBw2 n (logv fun s => y s r j)) v :=
      Finset.sum_congr rfl fun s _ => by rw [npdf_eq _ _ _ hb, logNormalPDFv_eq]
    rw [this]
    ring

/-! ## missing-data invariance -/

/-- the value and the sensitivities depend on the measurements only through the multiset of
    non-missing values of each (observable, time) cell -/
theorem C12_cell_multiset (k : FKind) (m m' n R T : Nat) (obs obs' : Nat → Nat → Nat → Option ℝ)
    (y : Nat → Nat → Nat → ℝ)
    (h : ∀ r, r < R → ∀ j, j < T → ((List.range m).filterMap (fun i => obs i r j)).Perm
      ((List.range m').filterMap (fun i => obs' i r j))) :
    filterVal k m n R T obs y = filterVal k m' n R T obs' y
      ∧ ∀ s r j, r < R → j < T → filterGrad k m n obs y s r j = filterGrad k m' n obs' y s r j := by
  constructor
  · unfold filterVal
    simp only [isum_eq]
    exact Finset.sum_congr rfl fun r hr => Finset.sum_congr rfl fun j hj =>
      cellVal_perm k m m' n _ _ _ (h r (mem_range.mp hr) j (mem_range.mp hj))
  · intro s r j hr hj
    exact cellGrad_perm k m m' n _ _ _ s (h r hr j hj)

/-- padding the measurement array with `e` individuals that are missing everywhere changes neither
    the value nor any sensitivity -/
theorem C12_nan_padding (k : FKind) (m e n R T : Nat) (obs obs' : Nat → Nat → Nat → Option ℝ)
    (y : Nat → Nat → Nat → ℝ)
    (h1 : ∀ i r j, i < m → obs' i r j = obs i r j)
    (h2 : ∀ i r j, m ≤ i → i < m + e → obs' i r j = none) :
    filterVal k (m + e) n R T obs' y = filterVal k m n R T obs y
      ∧ ∀ s r j, r < R → j < T →
          filterGrad k (m + e) n obs' y s r j = filterGrad k m n obs y s r j :=
  C12_cell_multiset k (m + e) m n R T obs' obs y (fun r _ j _ => by
    rw [filterMap_pad m e (fun i => obs i r j) (fun i => obs' i r j) (fun i hi => h1 i r j hi)
      (fun i hi hi' => h2 i r j hi hi')])

/-- permuting the measured individuals changes neither the value nor any sensitivity -/
theorem C12_perm_individuals (k : FKind) (m n R T : Nat) (obs : Nat → Nat → Nat → Option ℝ)
    (y : Nat → Nat → Nat → ℝ) (ord : List Nat) (h : ord.Perm (List.range m)) :
    filterVal k m n R T (fun i r j => obs (ord.getD i 0) r j) y = filterVal k m n R T obs y
      ∧ ∀ s r j, r < R → j < T →
          filterGrad k m n (fun i r j => obs (ord.getD i 0) r j) y s r j = filterGrad k m n obs y s r j :=
  C12_cell_multiset k m m n R T _ obs y (fun r _ j _ =>
    filterMap_perm_ids m ord h (fun i => obs i r j))

/-! ## time order -/

/-- `sort_times(order)` followed by an evaluation on consistently reordered simulated values gives
    the value of the unsorted filter on the unsorted values (`order` any permutation of the times) -/
theorem C12_time_reorder (F : Filt ℝ) (n : Nat) (y : Nat → Nat → Nat → ℝ) (ord : List Nat)
    (h : ord.Perm (List.range F.T)) :
    ∃ F', F.sortTimes ord = .ok F'
      ∧ F'.val n (fun s r j => y s r (ord.getD j 0)) = F.val n y := by
  refine ⟨_, sortTimes_ok F ord h, ?_⟩
  simp only [Filt.val, filterVal]
  simp only [isum_eq]
  refine Finset.sum_congr rfl fun r _ => ?_
  rw [← isum_eq, ← isum_eq]
  exact isum_perm F.T ord h (fun j => cellVal F.kind F.m n (fun i => F.obs i r j) (fun s => y s r j))

/-- … and the sensitivity returned at input position `j` is the sensitivity w.r.t. the simulated
    value that was supplied at position `j` (time `order[j]` of the unsorted filter) -/
theorem C12_time_reorder_grad (F : Filt ℝ) (n : Nat) (y : Nat → Nat → Nat → ℝ) (ord : List Nat)
    (h : ord.Perm (List.range F.T)) (s r j : Nat) :
    ∃ F', F.sortTimes ord = .ok F'
      ∧ F'.grad n (fun s r j => y s r (ord.getD j 0)) s r j = F.grad n y s r (ord.getD j 0) :=
  ⟨_, sortTimes_ok F ord h, rfl⟩

/-- splitting the time axis: a filter on `T1 + T2` times is the sum of the filters on the first `T1`
    and the last `T2` times -/
theorem C12_time_split (k : FKind) (m n R T1 T2 : Nat) (obs : Nat → Nat → Nat → Option ℝ)
    (y : Nat → Nat → Nat → ℝ) :
    filterVal k m n R (T1 + T2) obs y
      = filterVal k m n R T1 obs y
        + filterVal k m n R T2 (fun i r j => obs i r (T1 + j)) (fun s r j => y s r (T1 + j)) :=
  filterVal_split k m n R T1 T2 obs y

/-- a ComposedPopulationFilter over ANY partition of one filter's time axis into consecutive
    blocks (`lens` = block lengths) has the value of the unsplit filter -/
theorem C12_composed_is_sum (F : Filt ℝ) (n : Nat) (lens : List Nat) (hl : lens.sum = F.T)
    (y : Nat → Nat → Nat → ℝ) :
    (Comp.mk (blocks F 0 lens) none).val n y = F.val n y := by
  simp only [Comp.val, Comp.presort]
  have hy : shiftT y 0 = y := by funext s r j; simp [shiftT]
  rw [compValFrom_blocks n F lens 0 y, hl, hy]
  simp only [Filt.val, Nat.zero_add]

/-- `np.argsort(order)` inverts a permutation: `order[argsort(order)[k]] = k` -/
theorem C12_argsort_inverse (T : Nat) (ord : List Nat) (h : ord.Perm (List.range T)) (k : Nat)
    (hk : k < T) : ord.getD ((argsortNat ord).getD k 0) 0 = k := argsort_inverse T ord h k hk

/-- deferred order of a composed filter: after `sort_times(order)` the composed filter evaluated on
    consistently reordered simulated values equals the unsorted composed filter on the unsorted
    values — for every list of sub-filters (any kinds, any block lengths) -/
theorem C12_time_reorder_composed (Fs : List (Filt ℝ)) (n : Nat) (y : Nat → Nat → Nat → ℝ)
    (ord : List Nat) (h : ord.Perm (List.range (Comp.mk Fs none).T)) :
    (Comp.mk Fs (some ord)).val n (fun s r j => y s r (ord.getD j 0)) = (Comp.mk Fs none).val n y := by
  simp only [Comp.val, Comp.presort]
  refine compValFrom_congr n Fs 0 _ _ (fun s r j hj => ?_)
  simp only [Nat.zero_add] at hj
  simp only [argsort_inverse _ ord h j hj]

/-- … with the sensitivities returned in the order of the input -/
theorem C12_time_reorder_composed_grad (Fs : List (Filt ℝ)) (n : Nat)
    (y : Nat → Nat → Nat → ℝ) (ord : List Nat) (h : ord.Perm (List.range (Comp.mk Fs none).T))
    (s r j : Nat) (hj : j < (Comp.mk Fs none).T) :
    (Comp.mk Fs (some ord)).grad n (fun s r j => y s r (ord.getD j 0)) s r j
      = (Comp.mk Fs none).grad n y s r (ord.getD j 0) := by
  simp only [Comp.grad, Comp.presort]
  have hk := getD_lt_of_perm _ ord h j hj
  refine compGradFrom_congr n Fs 0 _ _ s r _ (Nat.zero_le _) (fun s' r' => ?_)
  simp only [argsort_inverse _ ord h _ hk]

/-- `ComposedPopulationFilter.sort_times` accepts every permutation; the identity is ignored -/
theorem C12_composed_sortTimes (Fs : List (Filt ℝ)) (ord : List Nat)
    (h : ord.Perm (List.range (Comp.mk Fs none).T)) :
    (Comp.mk Fs none).sortTimes ord
      = .ok (if ord = List.range (Comp.mk Fs none).T then Comp.mk Fs none else Comp.mk Fs (some ord)) := by
  have hlen : ord.length = (Comp.mk Fs none).T := by simpa using h.length_eq
  unfold Comp.sortTimes
  rw [if_neg (by simpa using hlen), hasDup_false_of_nodup ord (perm_nodup _ ord h)]
  by_cases he : ord = List.range (Comp.mk Fs none).T
  · simp [he]
  · simp [he]

/-! ## sensitivities = derivatives w.r.t. every simulated measurement -/

theorem C12_gaussian_grad (m n R T : Nat) (obs : Nat → Nat → Nat → Option ℝ)
    (y : Nat → Nat → Nat → ℝ) (s r j : Nat) (hs : s < n) (hr : r < R) (hj : j < T) (hn : 2 ≤ n)
    (hv : 0 < varI n (fun s' => y s' r j)) :
    HasDerivAt (fun t => filterVal .gauss m n R T obs (upd3 y s r j t))
      (filterGrad .gauss m n obs y s r j) (y s r j) :=
  filterVal_hasDerivAt .gauss m n R T obs y s r j hr hj _
    (gfCell_hasDerivAt m n s hs hn _ (fun s' => y s' r j) hv)

theorem C12_lognormal_grad (m n R T : Nat) (obs : Nat → Nat → Nat → Option ℝ)
    (y : Nat → Nat → Nat → ℝ) (s r j : Nat) (hs : s < n) (hr : r < R) (hj : j < T) (hn : 2 ≤ n)
    (hy : 0 < y s r j) (hv : 0 < varI n (logv (fun s' => y s' r j))) :
    HasDerivAt (fun t => filterVal .lognorm m n R T obs (upd3 y s r j t))
      (filterGrad .lognorm m n obs y s r j) (y s r j) :=
  filterVal_hasDerivAt .lognorm m n R T obs y s r j hr hj _
    (lnfCell_hasDerivAt m n s hs hn _ (fun s' => y s' r j) hy.ne' hv)

theorem C12_gaussianKDE_grad (m n R T : Nat) (obs : Nat → Nat → Nat → Option ℝ)
    (y : Nat → Nat → Nat → ℝ) (s r j : Nat) (hs : s < n) (hr : r < R) (hj : j < T) (hn : 2 ≤ n)
    (hv : 0 < varI n (fun s' => y s' r j)) :
    HasDerivAt (fun t => filterVal .gkde m n R T obs (upd3 y s r j t))
      (filterGrad .gkde m n obs y s r j) (y s r j) :=
  filterVal_hasDerivAt .gkde m n R T obs y s r j hr hj _
    (kdeCell_hasDerivAt m n s hs hn _ (fun s' => y s' r j) hv)

theorem C12_lognormalKDE_grad (m n R T : Nat) (obs : Nat → Nat → Nat → Option ℝ)
    (y : Nat → Nat → Nat → ℝ) (s r j : Nat) (hs : s < n) (hr : r < R) (hj : j < T) (hn : 2 ≤ n)
    (hy : 0 < y s r j) (hv : 0 < varI n (logv (fun s' => y s' r j))) :
    HasDerivAt (fun t => filterVal .lnkde m n R T obs (upd3 y s r j t))
      (filterGrad .lnkde m n obs y s r j) (y s r j) :=
  filterVal_hasDerivAt .lnkde m n R T obs y s r j hr hj _
    (lnkdeCell_hasDerivAt m n s hs hn _ (fun s' => y s' r j) hy.ne' hv)

/-- mixture with `K` kernels of `p ≥ 2` consecutive simulated individuals each -/
theorem C12_mixture_grad (m K p R T : Nat) (obs : Nat → Nat → Nat → Option ℝ)
    (y : Nat → Nat → Nat → ℝ) (s r j : Nat) (hs : s < K * p) (hr : r < R) (hj : j < T) (hp : 2 ≤ p)
    (hv : 0 < varI p (blk p (s / p) (fun s' => y s' r j))) :
    HasDerivAt (fun t => filterVal (.mix K) m (K * p) R T obs (upd3 y s r j t))
      (filterGrad (.mix K) m (K * p) obs y s r j) (y s r j) := by
  have hK : 0 < K := by
    rcases Nat.eq_zero_or_pos K with h | h
    · subst h; simp at hs
    · exact h
  refine filterVal_hasDerivAt (.mix K) m (K * p) R T obs y s r j hr hj _ ?_
  simp only [cellVal, filterGrad, cellGrad, Nat.mul_div_cancel_left p hK]
  exact mixCell_hasDerivAt m K p s hs hp _ (fun s' => y s' r j) hv

/-! ## `-inf` and `nan` -/

/-- every entry missing (and at least one entry): `-inf` -/
theorem C12_all_missing (k : FKind) (m n R T : Nat) (obs : Nat → Nat → Nat → Option ℝ)
    (y : Nat → Nat → Nat → ℝ) (hk : ∀ K, k = .mix K → n % K = 0)
    (h : allMasked m R T obs = true) :
    filterLL k m n R T obs y = .ok .negInf := by
  unfold filterLL
  cases k with
  | mix K => simp [hk K rfl, h]
  | gauss => simp [h]
  | gkde => simp [h]
  | lognorm => simp [h]
  | lnkde => simp [h]

/-- inside the domain the reported score is the value the other theorems talk about -/
theorem C12_score_val (k : FKind) (m n R T : Nat) (obs : Nat → Nat → Nat → Option ℝ)
    (y : Nat → Nat → Nat → ℝ) (hk : ∀ K, k = .mix K → n % K = 0)
    (h1 : allMasked m R T obs = false) (hn : 2 ≤ n)
    (h2 : ∀ r, r < R → ∀ j, j < T →
      cellBad k m n (fun i => obs i r j) (fun s => y s r j) = false) :
    filterLL k m n R T obs y = .ok (.val (filterVal k m n R T obs y)) := by
  have hbad : iany R (fun r => iany T (fun j =>
      cellBad k m n (fun i => obs i r j) (fun s => y s r j))) = false := by
    rw [Bool.eq_false_iff]
    intro hc
    obtain ⟨r, hr, hc⟩ := (iany_real R _).1 hc
    obtain ⟨j, hj, hc⟩ := (iany_real T _).1 hc
    rw [h2 r hr j hj] at hc
    exact Bool.false_ne_true hc
  have hn' : 1 < n := by omega
  unfold filterLL
  cases k with
  | mix K => simp [hk K rfl, h1, hbad, hn']
  | gauss => simp [h1, hbad, hn']
  | gkde => simp [h1, hbad, hn']
  | lognorm => simp [h1, hbad, hn']
  | lnkde => simp [h1, hbad, hn']

/-! ## non-vacuity -/

example : 0 < varI 2 (fun s => (s : ℝ)) := by
  rw [varI_eq, meanI_eq]; simp [Finset.sum_range_succ]; norm_num

example : (List.range 3).filterMap (fun i => if i = 1 then none else some (i : ℝ)) = [0, 2] := by
  simp [List.range_succ]

/-! ## composed filter: the assembled sensitivities are the derivative of the composed value -/

theorem compValFrom_congr_ge (n : Nat) : ∀ (Fs : List (Filt ℝ)) (off : Nat)
    (y y' : Nat → Nat → Nat → ℝ), (∀ s r j, off ≤ j → y s r j = y' s r j) →
    compValFrom n Fs off y = compValFrom n Fs off y'
  | [], _, _, _, _ => rfl
  | F :: Fs, off, y, y', h => by
    simp only [compValFrom, Filt.val]
    rw [compValFrom_congr_ge n Fs (off + F.T) y y' (fun s r j hj => h s r j (by omega)),
      filterVal_congr F.kind F.m n F.R F.T F.obs (shiftT y off) (shiftT y' off) (fun s r j _ => by
        simp only [shiftT]; exact h s r (off + j) (by omega))]

/-- every sub-filter's sensitivities are its derivatives at the simulated values it sees
    (discharged by `C12_gaussian_grad` … `C12_mixture_grad` for the respective kinds) -/
def GradOK (n : Nat) (y : Nat → Nat → Nat → ℝ) (s r : Nat) : List (Filt ℝ) → Nat → Prop
  | [], _ => True
  | F :: Fs, off =>
    (∀ j, j < F.T → HasDerivAt (fun t => F.val n (upd3 (shiftT y off) s r j t))
      (F.grad n (shiftT y off) s r j) (y s r (off + j))) ∧ GradOK n y s r Fs (off + F.T)

theorem shiftT_upd3_in (y : Nat → Nat → Nat → ℝ) (s r k off : Nat) (t : ℝ) (hk : off ≤ k) :
    shiftT (upd3 y s r k t) off = upd3 (shiftT y off) s r (k - off) t := by
  funext s' r' j
  simp only [shiftT, upd3]
  by_cases h : s' = s ∧ r' = r ∧ off + j = k
  · rw [if_pos h, if_pos ⟨h.1, h.2.1, by omega⟩]
  · rw [if_neg h, if_neg]
    rintro ⟨h1, h2, h3⟩
    exact h ⟨h1, h2, by omega⟩

theorem compValFrom_hasDerivAt (n : Nat) (y : Nat → Nat → Nat → ℝ) (s r k : Nat) :
    ∀ (Fs : List (Filt ℝ)) (off : Nat), off ≤ k → k < off + (Fs.map (·.T)).sum →
      GradOK n y s r Fs off →
      HasDerivAt (fun t => compValFrom n Fs off (upd3 y s r k t)) (compGradFrom n Fs off y s r k)
        (y s r k)
  | [], off, h1, h2, _ => by simp at h2; omega
  | F :: Fs, off, h1, h2, hg => by
    obtain ⟨hF, hrest⟩ := hg
    simp only [compValFrom, compGradFrom]
    by_cases hk : k < off + F.T
    · rw [if_pos hk]
      have hconst : (fun t => compValFrom n Fs (off + F.T) (upd3 y s r k t))
          = fun _ => compValFrom n Fs (off + F.T) y := by
        funext t
        refine compValFrom_congr_ge n Fs (off + F.T) _ _ (fun s' r' j hj => ?_)
        simp only [upd3]
        rw [if_neg]; omega
      have hfirst : (fun t => F.val n (shiftT (upd3 y s r k t) off))
          = fun t => F.val n (upd3 (shiftT y off) s r (k - off) t) := by
        funext t; rw [shiftT_upd3_in y s r k off t h1]
      have hd := hF (k - off) (by omega)
      have e : off + (k - off) = k := by omega
      rw [e] at hd
      have := hd.add (hasDerivAt_const (y s r k) (compValFrom n Fs (off + F.T) y))
      rw [add_zero] at this
      rw [show (fun t => F.val n (shiftT (upd3 y s r k t) off)
            + compValFrom n Fs (off + F.T) (upd3 y s r k t))
          = fun t => F.val n (upd3 (shiftT y off) s r (k - off) t)
            + compValFrom n Fs (off + F.T) y from by
        funext t; rw [congrFun hfirst t, congrFun hconst t]]
      exact this
    · rw [if_neg hk]
      have hfirst : (fun t => F.val n (shiftT (upd3 y s r k t) off))
          = fun _ => F.val n (shiftT y off) := by
        funext t
        simp only [Filt.val]
        refine filterVal_congr F.kind F.m n F.R F.T F.obs _ _ (fun s' r' j hj => ?_)
        simp only [shiftT, upd3]
        rw [if_neg]; omega
      have ih := compValFrom_hasDerivAt n y s r k Fs (off + F.T) (by omega)
        (by simp only [List.map_cons, List.sum_cons] at h2; omega) hrest
      have := (hasDerivAt_const (y s r k) (F.val n (shiftT y off))).add ih
      rw [zero_add] at this
      rw [show (fun t => F.val n (shiftT (upd3 y s r k t) off)
            + compValFrom n Fs (off + F.T) (upd3 y s r k t))
          = fun t => F.val n (shiftT y off) + compValFrom n Fs (off + F.T) (upd3 y s r k t) from by
        funext t; rw [congrFun hfirst t]]
      exact this

/-- ComposedPopulationFilter (no deferred order): entry `[s, r, k]` of the assembled sensitivities is
    the derivative of the composed value w.r.t. the simulated measurement `[s, r, k]`, for every list of
    sub-filters whose own sensitivities are exact; with a deferred order use
    `C12_time_reorder_composed` / `C12_time_reorder_composed_grad` -/
theorem C12_composed_grad (Fs : List (Filt ℝ)) (n : Nat) (y : Nat → Nat → Nat → ℝ) (s r k : Nat)
    (hk : k < (Comp.mk Fs none).T) (hg : GradOK n y s r Fs 0) :
    HasDerivAt (fun t => (Comp.mk Fs none).val n (upd3 y s r k t))
      ((Comp.mk Fs none).grad n y s r k) (y s r k) := by
  simp only [Comp.val, Comp.presort, Comp.grad]
  exact compValFrom_hasDerivAt n y s r k Fs 0 (Nat.zero_le _) (by simpa [Comp.T] using hk) hg

/-! ## `sort_times` never touches a shared measurement array -/

/-- `sort_times` leaves every existing array as it was — the caller's array and the data of every
    sibling filter built from it — and the sorted filter refers to a new array holding
    `observations[..., order]` -/
theorem C12_sort_times_keeps_shared_data (st st' : ObsStore ℝ) (F F' : FiltRef) (ord : List Nat)
    (h : sortTimesRef st F ord = .ok (st', F')) :
    (∀ i, i < st.length → st'[i]? = st[i]?) ∧
    (∀ H : FiltRef, H.ref < st.length → H.deref st' = H.deref st) ∧
    ∃ G G', F.deref st = some G ∧ G.sortTimes ord = .ok G' ∧ F'.deref st' = some G' := by
  unfold sortTimesRef at h
  cases hG : F.deref st with
  | none => simp only [hG] at h; cases h
  | some G =>
    simp only [hG] at h
    cases hs : G.sortTimes ord with
    | error e => simp only [hs] at h; cases h
    | ok G' =>
      simp only [hs, Except.ok.injEq, Prod.mk.injEq] at h
      obtain ⟨rfl, rfl⟩ := h
      have hold : ∀ i, i < st.length → (st ++ [G'.obs])[i]? = st[i]? :=
        fun i hi => List.getElem?_append_left hi
      refine ⟨hold, fun H hH => by simp only [FiltRef.deref, hold H.ref hH], G, G', rfl, hs, ?_⟩
      -- the sorted filter keeps its class and shape
      have hshape : G'.kind = F.kind ∧ G'.m = F.m ∧ G'.R = F.R ∧ G'.T = F.T := by
        unfold FiltRef.deref at hG
        cases ho : st[F.ref]? with
        | none => simp [ho] at hG
        | some o =>
          simp only [ho, Option.map_some, Option.some.injEq] at hG
          subst hG
          unfold Filt.sortTimes at hs
          split_ifs at hs
          simp only [Except.ok.injEq] at hs
          subst hs
          exact ⟨rfl, rfl, rfl, rfl⟩
      obtain ⟨h1, h2, h3, h4⟩ := hshape
      simp only [FiltRef.deref, List.getElem?_concat_length, Option.map_some, ← h1, ← h2, ← h3, ← h4]

/-- what an in-place assignment (NOT chi) would do: a sibling filter that was never sorted sees other
    measurements.  One individual, one observable, two times, measurement `j` at time `j`. -/
theorem C12_sort_times_inplace_counterexample :
    let st : ObsStore ℝ := [fun _ _ j => some (j : ℝ)]
    let F : FiltRef := ⟨.gauss, 1, 1, 2, 0⟩
    let H : FiltRef := ⟨.gkde, 1, 1, 2, 0⟩
    ∃ st' F' G G', sortTimesRefInPlace st F [1, 0] = .ok (st', F') ∧
      H.deref st = some G ∧ H.deref st' = some G' ∧ G.obs 0 0 0 = some 0 ∧ G'.obs 0 0 0 = some 1 := by
  intro st F H
  simp [sortTimesRefInPlace, FiltRef.deref, Filt.sortTimes, hasDup, st, F, H]

/-! ## nested compositions; common shifts and scales (lemmas in `Lemmas/FilterNested.lean`) -/

/-- a composed filter ANYWHERE in a nested composition that was sorted with `sort_times(order)` and is handed
    consistently reordered simulated values has the value of the unsorted composed filter on the unsorted
    values: the deferred order of an inner composed filter is honoured -/
theorem C12_nested_time_reorder (cs : List (FTree ℝ)) (n : Nat) (y : Nat → Nat → Nat → ℝ)
    (ord : List Nat) (hw : FTree.WFL cs) (h : ord.Perm (List.range (FTree.sumT cs))) :
    (FTree.node cs (some ord)).val n (fun s r j => y s r (ord.getD j 0)) = (FTree.node cs none).val n y := by
  simp only [FTree.val, presortOrd]
  refine FTree.valFrom_congr n cs 0 _ _ hw (fun s r j _ hj => ?_)
  rw [Nat.zero_add] at hj
  simp only [argsort_inverse _ ord h j hj]

/-- … and its sensitivities come back in the order of its input -/
theorem C12_nested_time_reorder_grad (cs : List (FTree ℝ)) (n : Nat) (y : Nat → Nat → Nat → ℝ)
    (ord : List Nat) (hw : FTree.WFL cs) (h : ord.Perm (List.range (FTree.sumT cs))) (s r j : Nat)
    (hj : j < FTree.sumT cs) :
    (FTree.node cs (some ord)).grad n (fun s r j => y s r (ord.getD j 0)) s r j
      = (FTree.node cs none).grad n y s r (ord.getD j 0) := by
  simp only [FTree.grad, presortOrd]
  refine FTree.gradFrom_congr n cs 0 _ _ hw (fun s r j _ hj => ?_) s r _ (Nat.zero_le _) (by
    rw [Nat.zero_add]; exact getD_lt_of_perm _ ord h j hj)
  rw [Nat.zero_add] at hj
  simp only [argsort_inverse _ ord h j hj]

/-- a nested composition (composed filters as sub-filters, each with its own deferred time order, to any
    depth) has the value of the FLAT composition of its simple filters, evaluated on the input columns given
    by the index map `FTree.col`: with `C12_gaussian_is_documented` … every non-missing measurement is scored
    once, with the documented density, at the simulated values of the column that models its time point -/
theorem C12_nested_is_flat (t : FTree ℝ) (n : Nat) (y : Nat → Nat → Nat → ℝ) :
    t.val n y = (Comp.mk t.leaves none).val n (fun s r k => y s r (t.col k)) := by
  simp only [Comp.val, Comp.presort]
  exact FTree.val_flat n t y

/-- the number of time points of a nested composition is that of its simple filters -/
theorem C12_nested_n_times (t : FTree ℝ) : (Comp.mk t.leaves none).T = t.T := by
  simp only [Comp.T]; exact FTree.leaves_T t

/-- what a constructor that replaces a composed sub-filter by that filter's own sub-filters (NOT chi) would
    do: the inner filter's deferred order is lost.  Two Gaussian filters with one measurement each (`0` at the
    first, `1` at the second time point), composed and sorted with `sort_times([1, 0])`, then nested; simulated
    values `{0, 2}` in the first and `{-1, 1}` in the second input column.  chi's nested filter scores each
    measurement at the mean of its own time point; the flattened one is off by `1/2`. -/
theorem C12_nested_flatten_counterexample :
    let F0 : Filt ℝ := ⟨.gauss, 1, 1, 1, fun _ _ _ => some 0⟩
    let F1 : Filt ℝ := ⟨.gauss, 1, 1, 1, fun _ _ _ => some 1⟩
    let t : FTree ℝ := .node [.node [.leaf F0, .leaf F1] (some [1, 0])] none
    let y : Nat → Nat → Nat → ℝ := fun s _ j =>
      if j = 0 then (if s = 0 then 0 else 2) else (if s = 0 then -1 else 1)
    t.WF ∧ t.val 2 y = t.flattenDroppingOrders.val 2 y + 1 / 2 := by
  intro F0 F1 t y
  refine ⟨?_, ?_⟩
  · simp [t, FTree.WF, FTree.WFL, FTree.sumT, FTree.T, F0, F1, List.range, List.range.loop]
    exact List.Perm.swap 0 1 []
  · simp only [t, FTree.val, FTree.valFrom, FTree.flattenDroppingOrders, FTree.leaves, FTree.leavesL,
      Comp.val, Comp.presort, compValFrom, presortOrd, argsort_swap, FTree.T, Filt.val, filterVal,
      cellVal, gfCell, gfTerm, msum, meanI, varI, isum_eq, shiftT, F0, F1, y]
    simp [Finset.sum_range_succ]
    rw [compValFrom, compValFrom, compValFrom]
    simp [Filt.val, filterVal, cellVal, gfCell, gfTerm, msum, meanI, varI, isum_eq, shiftT, Finset.sum_range_succ]
    norm_num

/-- the Gaussian, Gaussian-KDE and Gaussian-mixture densities of a cell do not change when the measurements
    and the simulated values of the cell are shifted by a common constant: only differences enter.  (This is
    the reference the harness uses for values of large magnitude and small spread.) -/
theorem C12_shift_invariant (k : FKind) (m n : Nat) (o : Nat → Option ℝ) (y : Nat → ℝ) (c : ℝ)
    (hk : match k with
      | .gauss => 0 < n
      | .gkde => 0 < n
      | .mix K => 0 < n / K
      | _ => False) :
    cellVal k m n (fun i => (o i).map (· + c)) (fun s => y s + c) = cellVal k m n o y := by
  cases k with
  | gauss => simp only [cellVal, gfCell, msum_map, meanI_shift n hk, varI_shift n hk, gfTerm_shift]
  | gkde => simp only [cellVal, kdeCell, msum_map, kdeTerm_shift n hk]
  | mix K => simp only [cellVal, mixCell, msum_map, mixTerm_shift K _ hk]
  | lognorm => exact hk.elim
  | lnkde => exact hk.elim

/-- … for a whole filter, with a different constant in every (observable, time) cell -/
theorem C12_shift_invariant_filter (k : FKind) (m n R T : Nat) (obs : Nat → Nat → Nat → Option ℝ)
    (y : Nat → Nat → Nat → ℝ) (c : Nat → Nat → ℝ)
    (hk : match k with
      | .gauss => 0 < n
      | .gkde => 0 < n
      | .mix K => 0 < n / K
      | _ => False) :
    filterVal k m n R T (fun i r j => (obs i r j).map (· + c r j)) (fun s r j => y s r j + c r j)
      = filterVal k m n R T obs y := by
  simp only [filterVal]
  congr 1; funext r; congr 1; funext j
  exact C12_shift_invariant k m n (fun i => obs i r j) (fun s => y s r j) (c r j) hk

/-- the log-normal and log-normal-KDE densities under a common SCALE `a > 0` of measurements and simulated
    values: every non-missing measurement contributes `- log a` (the Jacobian), nothing else changes -/
theorem C12_scale_lognormal (k : FKind) (m n : Nat) (hn : 0 < n) (o : Nat → Option ℝ) (y : Nat → ℝ)
    (a : ℝ) (ha : 0 < a) (hy : ∀ s, 0 < y s) (ho : ∀ i v, o i = some v → 0 < v)
    (hk : k = .lognorm ∨ k = .lnkde) :
    cellVal k m n (fun i => (o i).map (a * ·)) (fun s => a * y s)
      = cellVal k m n o y - mcount m o * Real.log a := by
  have hly : logv (fun s => a * y s) = fun s => logv y s + Real.log a := by
    funext s
    simp only [logv, log_real]
    rw [Real.log_mul ha.ne' (hy s).ne', add_comm]
  have hlo : logo (fun i => (o i).map (a * ·)) = fun i => (logo o i).map (· + Real.log a) := by
    funext i
    simp only [logo]
    cases h : o i with
    | none => rfl
    | some v =>
      simp only [Option.map_some, log_real]
      rw [Real.log_mul ha.ne' (ho i v h).ne', add_comm]
  have hcount : mcount m (logo o) = mcount m o := by
    simp only [mcount, msum, logo]
    congr 1; funext i; cases o i <;> rfl
  rcases hk with rfl | rfl
  · have ht : ∀ mu var lv c : ℝ, lnTerm (mu + c) var (lv + c) = lnTerm mu var lv + 2 * c := by
      intro mu var lv c; simp only [lnTerm, add_sub_add_right_eq_sub, two_real]; ring
    simp only [cellVal, lnfCell, hly, hlo, msum_map, meanI_shift n hn, varI_shift n hn, ht,
      msum_add, msum_const, hcount, two_real]
    ring
  · have ht : ∀ lv : ℝ, kdeTerm n (fun s => logv y s + Real.log a) (lv + Real.log a) - (lv + Real.log a)
        = (kdeTerm n (logv y) lv - lv) + (-Real.log a) := by
      intro lv; rw [kdeTerm_shift n hn]; ring
    simp only [cellVal, lnkdeCell, hly, hlo, msum_map, ht, msum_add, msum_const, hcount]
    ring

end ChiModel
