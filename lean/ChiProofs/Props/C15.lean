import ChiProofs.Lemmas.Predictive
/-!
# C15 — predictive models sample the stated generative process, correctly labelled

Structure of the argument (the symbolic generator of C16 underneath):

* `C15_predictive_entries` / `C15_predictive_law*`: `PredictiveModel.sample` has exactly one entry per
  (sample, output, time); its value is the error model of that output, with that model's own slice of
  the error parameters, applied to the mechanistic output at that (sorted) time and to the entry's own
  variates — which no other entry reads (C16); for a standard-normal variate that transformation has
  the documented law (Gaussian, multiplicative Gaussian, log-normal with mean `ybar`; the constant-and-
  multiplicative sampler is C06's finding).
* `C15_population_law*`: the individual parameters a population predictive model uses are
  `mu + sigma z` resp. `exp(mu + sigma z)` of the individual's own variate, for centred *and*
  non-centred models (`sample` then `compute_individual_parameters`), with the documented law; every
  measurement entry of individual `i` depends on the population draws of individual `i` only.
* `C15_posterior_joint*`: the row drawn by `rng.choice(posterior)` is one `(chain, draw)` position of
  the posterior, the same for every parameter, restricted to the requested individual, whenever the
  selection code succeeds and the variables share their dimension order; counterexample otherwise.
* `C15_pam_weights`: the model every ID comes from is a rearrangement of the weighted draws.
* `C15_table_labels`, `C15_times_ascending`: one row per (sample, time, observable), IDs `1..n`,
  times ascending, values taken from the matching array position; covariate and dose rows per ID.
* `C15_nids*`: pooled dimensions follow the number of drawn individuals; heterogeneous ones do not.
-/
set_option linter.unusedSectionVars false
set_option linter.unusedSimpArgs false
namespace ChiModel.Pred
open ChiModel ChiModel.Seeds ScalarFns MeasureTheory ProbabilityTheory
open scoped NNReal

/-! ## `PredictiveModel.sample` -/

/-- For every variant, seed, world, every list of error models and all sizes: the entries are labelled
    with pairwise different (sample, output, time) triples, and exactly the triples with
    `sample < n_samples`, `output < n_outputs`, `time < n_times` occur. -/
theorem C15_predictive_entries (v : Variant) (kinds : List EM) (nT nS : Nat) (sd : SeedArg) (w : World) :
    (labelsOf (predSample v kinds nT nS sd w).1.1).Nodup ∧
    ∀ s o t, (s, o, t) ∈ labelsOf (predSample v kinds nT nS sd w).1.1 ↔ s < nS ∧ o < kinds.length ∧ t < nT := by
  rw [labels_pred_range]
  constructor
  · refine nodup_flatMap_range _ _ ?_ ?_
    · intro o _
      refine List.Nodup.map_on ?_ List.nodup_range
      intro p _ q _ h
      simp only [Prod.mk.injEq, true_and] at h
      exact divmod_inj h.1 h.2
    · intro o o' _ _ hne x hx hx'
      simp only [List.mem_map] at hx hx'
      obtain ⟨p, _, rfl⟩ := hx
      obtain ⟨q, _, h⟩ := hx'
      simp only [Prod.mk.injEq] at h
      exact hne h.2.1.symm
  · intro s o t
    simp only [List.mem_flatMap, List.mem_map, List.mem_range, Prod.mk.injEq]
    constructor
    · rintro ⟨o', ho', p, hp, h1, h2, h3⟩
      subst h2
      have := (mem_grid (nT := nT) (nS := nS) (s := s) (t := t)).mp ⟨p, hp, h1.symm, h3.symm⟩
      exact ⟨this.1, ho', this.2⟩
    · rintro ⟨hs, ho, ht⟩
      obtain ⟨p, hp, h1, h3⟩ := (mem_grid (nT := nT) (nS := nS) (s := s) (t := t)).mpr ⟨hs, ht⟩
      exact ⟨o, ho, p, hp, h1.symm, rfl, h3.symm⟩

/-- Every entry of `PredictiveModel.sample` (the code as it is, every kind of seed) is the error-model
    transformation of *its own* variates around the mechanistic output for its output and time: own error
    model, own parameter slice, and noise variates no other entry reads; every entry does read noise. -/
theorem C15_predictive_law (d : Int) (kinds : List EM) (sig : List ℝ) (ybar : Nat → Nat → ℝ)
    (nT nS : Nat) (sd : SeedArg) (w : World) (Z : Read → ℝ) :
    (∀ e ∈ predictiveValues (asIs d) kinds sig ybar nT nS sd w Z,
      ∃ c ∈ (predSample (asIs d) kinds nT nS sd w).1.1.cells, e.1 = (c.unit, c.out, c.time) ∧ c.noise ≠ [] ∧
        e.2 = emTransform (kinds.getD c.out .gauss) (sliceFor kinds sig c.out) (ybar c.out c.time) (c.noise.map Z)) ∧
    Indep (predSample (asIs d) kinds nT nS sd w).1.1.cells := by
  refine ⟨?_, indep_pred (asIs d) kinds nT nS sd w (fun h => by simp [asIs] at h)⟩
  intro e he
  simp only [predictiveValues, List.mem_map] at he
  obtain ⟨c, hc, rfl⟩ := he
  exact ⟨c, hc, rfl, hasNoise_pred (asIs d) kinds nT nS sd w c hc, rfl⟩

/-- Gaussian error model: `ybar + sigma Z` with `Z ~ N(0,1)` is `N(ybar, sigma²)` -/
theorem C15_predictive_law_gaussian (ybar sigma : ℝ) :
    (gaussianReal 0 1).map (fun z => emTransform .gauss [sigma] ybar [z])
      = gaussianReal ybar (NNReal.mk (sigma ^ 2) (sq_nonneg _)) := by
  simp only [emTransform_gauss]
  exact affine_law ybar sigma

/-- multiplicative Gaussian error model: `N(ybar, (ybar sigma)²)` -/
theorem C15_predictive_law_multiplicative (ybar sigma : ℝ) :
    (gaussianReal 0 1).map (fun z => emTransform .mult [sigma] ybar [z])
      = gaussianReal ybar (NNReal.mk ((ybar * sigma) ^ 2) (sq_nonneg _)) := by
  simp only [emTransform_mult]
  exact affine_law ybar (ybar * sigma)

/-- log-normal error model (`ybar > 0`): the log of a sample is `N(log ybar − sigma²/2, sigma²)`, i.e. the
    sample is log-normal with mean `ybar` -/
theorem C15_predictive_law_lognormal (ybar sigma : ℝ) (hy : 0 < ybar) :
    (gaussianReal 0 1).map (fun z => Real.log (emTransform .ln [sigma] ybar [z]))
      = gaussianReal (Real.log ybar - sigma ^ 2 / 2) (NNReal.mk (sigma ^ 2) (sq_nonneg _)) := by
  have : (fun z => Real.log (emTransform .ln [sigma] ybar [z]))
      = fun z => (Real.log ybar - sigma ^ 2 / 2) + sigma * z := by
    funext z
    rw [emTransform_ln, Real.log_mul (ne_of_gt hy) (Real.exp_ne_zero _), Real.log_exp]
    ring
  rw [this]
  exact affine_law _ sigma

/-! ## population level -/

/-- centred and non-centred models give the same individual parameter as a function of the variate:
    the non-centred draw is transformed by `compute_individual_parameters` -/
theorem C15_population_law (logNormal centered : Bool) (mu sigma z : ℝ) :
    popIndividual logNormal centered mu sigma z
      = if logNormal then Real.exp (mu + sigma * z) else mu + sigma * z := by
  cases logNormal <;> cases centered <;> simp [popIndividual, popIndivStage, popSampleStage]

/-- … with the documented laws: `N(mu, sigma²)` for the Gaussian model … -/
theorem C15_population_law_gaussian (centered : Bool) (mu sigma : ℝ) :
    (gaussianReal 0 1).map (fun z => popIndividual false centered mu sigma z)
      = gaussianReal mu (NNReal.mk (sigma ^ 2) (sq_nonneg _)) := by
  simp only [C15_population_law, Bool.false_eq_true, if_false]
  exact affine_law mu sigma

/-- … and log-normal with log-mean `mu`, log-sd `sigma` for the log-normal model -/
theorem C15_population_law_lognormal (centered : Bool) (mu sigma : ℝ) :
    (gaussianReal 0 1).map (fun z => Real.log (popIndividual true centered mu sigma z))
      = gaussianReal mu (NNReal.mk (sigma ^ 2) (sq_nonneg _)) := by
  simp only [C15_population_law, if_true, Real.log_exp]
  exact affine_law mu sigma

/-- two stages: every measurement entry of `PopulationPredictiveModel.sample` depends on the population
    draws of its own individual (and of no other: `C16_disjoint*`), its noise on no population draw -/
theorem C15_population_two_stage (v : Variant) (p : Pop) (kinds : List EM) (nT n : Nat) (sd : SeedArg) (w : World) :
    (∀ c ∈ (popPredCore v p kinds nT n sd w).1.1.cells,
      c.par = patientReads (popSample p n sd w).1.1.cells c.unit) ∧
    Indep (popPredSample v p kinds nT n sd w).1.1.cells := by
  refine ⟨?_, indep_popPred v p kinds nT n sd w⟩
  intro c hc
  simp only [popPredCore, List.mem_map] at hc
  obtain ⟨c', _, rfl⟩ := hc
  rfl

/-! ## posterior predictive model -/

/-- Whenever the selection code of `PosteriorPredictiveModel.sample` (per variable:
    `sel(individual)`, `dropna('draw')`, `transpose('chain', 'draw', …)`, `values.flatten()`; one row index
    for all parameters) succeeds on a dataset whose variables share chain and draw counts — for any number
    of variables, chains, draws, individuals, any pattern of NaN-padded draws and ANY dimension order of
    the individual variables: every row of the parameter matrix — hence every drawn parameter vector —
    is ONE `(chain, draw)` position of the posterior restricted to the requested individual: the same
    position for every parameter, a draw that the dataset kept, and no entry is NaN. -/
theorem C15_posterior_joint {α : Type} (vars : List (PostVar α)) (i nC nD : Nat)
    (hC : ∀ v ∈ vars, v.nChains = nC) (hD : ∀ v ∈ vars, v.nDraws = nD)
    (cols : List (List (Option α))) (hok : posteriorColumns vars i = some cols)
    (idx : Nat) (hidx : idx < nC * (keptAll (vars.map PostVar.canonical) i).length) :
    ∃ c d, c < nC ∧ d ∈ keptAll (vars.map PostVar.canonical) i ∧
      posteriorRow cols idx = vars.map (fun v => v.sel i c d) ∧
      ∀ v ∈ vars, (v.sel i c d).isSome = true := by
  obtain ⟨c, d, hc, hd, hrow, hsome⟩ := posterior_joint_same_order (vars.map PostVar.canonical) i nC nD false
    (by intro v hv; obtain ⟨u, hu, rfl⟩ := List.mem_map.mp hv; exact hC u hu)
    (by intro v hv; obtain ⟨u, hu, rfl⟩ := List.mem_map.mp hv; exact hD u hu)
    (by intro v hv; obtain ⟨u, hu, rfl⟩ := List.mem_map.mp hv; rfl)
    cols hok idx hidx
  refine ⟨c, d, hc, hd, ?_, ?_⟩
  · rw [hrow, List.map_map]; rfl
  · intro v hv
    exact hsome v.canonical (List.mem_map.mpr ⟨v, hv, rfl⟩)

/-- the draws kept do not depend on the dimension order: the statement above is about the dataset's own
    kept draws -/
theorem C15_posterior_kept_draws {α : Type} (vars : List (PostVar α)) (i : Nat) :
    keptAll (vars.map PostVar.canonical) i = keptAll vars i := by
  cases vars with
  | nil => rfl
  | cons v rest =>
    simp only [keptAll, List.map_cons]
    congr 1
    funext d
    simp only [List.all_cons, List.all_map]
    rfl

/-- The pre-fix code (`posteriorColumnsLegacy`, before b371b27) on a dataset whose variables have different dimension orders (2 chains, 3
    draws, `psi0` stored as `(chain, draw)`, `psi1` as `(draw, chain)`): matrix row 2 pairs `psi0` of
    chain 0, draw 2 with `psi1` of chain 0, draw 1 — no `(chain, draw)` position of the posterior. -/
theorem C15_posterior_joint_counterexample :
    let psi0 : PostVar Nat := ⟨false, false, [[[some 100], [some 101], [some 102]], [[some 110], [some 111], [some 112]]]⟩
    let psi1 : PostVar Nat := ⟨false, true, [[[some 200], [some 201], [some 202]], [[some 210], [some 211], [some 212]]]⟩
    ∃ cols, posteriorColumnsLegacy [psi0, psi1] 0 = some cols ∧
      posteriorRow cols 2 = [some 102, some 201] ∧
      ∀ c d, ¬ (psi0.sel 0 c d = some 102 ∧ psi1.sel 0 c d = some 201) := by
  refine ⟨_, rfl, by decide, ?_⟩
  intro c d h
  have hc : c < 2 ∨ 2 ≤ c := by omega
  have hd : d < 3 ∨ 3 ≤ d := by omega
  rcases hc with hc | hc
  · rcases hd with hd | hd
    · have hc' : c = 0 ∨ c = 1 := by omega
      have hd' : d = 0 ∨ d = 1 ∨ d = 2 := by omega
      rcases hc' with rfl | rfl <;> rcases hd' with rfl | rfl | rfl <;> simp [PostVar.sel] at h
    · have hc' : c = 0 ∨ c = 1 := by omega
      rcases hc' with rfl | rfl <;> simp [PostVar.sel, List.getElem?_eq_none, hd] at h
  · simp [PostVar.sel, List.getElem?_eq_none, hc] at h

/-- Calls on one `PosteriorPredictiveModel` object do not influence each other: whatever individuals were
    requested before, the `k`-th call uses the parameter matrix of the individual requested in that call
    (the one a freshly built object would use). -/
theorem C15_history_independent {α : Type} (o : PostObj α) (is : List Nat) :
    PostObj.run PostObj.select o is = is.map (fun i => posteriorColumns o.vars i) := by
  induction is generalizing o with
  | nil => rfl
  | cons i is ih => simp [PostObj.run, PostObj.select, ih]

/-- A cache of the flattened posterior that is not keyed on the individual breaks this: with two individuals
    whose posteriors differ the second call returns the first individual's matrix. -/
theorem C15_history_cache_counterexample :
    let v : PostVar Nat := ⟨true, false, [[[some 1, some 2]]]⟩
    PostObj.run PostObj.selectCached ⟨[v], none⟩ [0, 1] = [some [[some 1]], some [[some 1]]] ∧
    PostObj.run PostObj.select ⟨[v], none⟩ [0, 1] = [some [[some 1]], some [[some 2]]] := by
  decide

/-! ## PAM -/

/-- The list "model of ID 1, model of ID 2, …" is a rearrangement of the weighted draws (so every ID's
    model is distributed by the weights), there are as many IDs as draws, the per-model counts are the
    numbers of equal draws, and the weights used are the given ones divided by their sum (summing to 1). -/
theorem C15_pam_weights (k : Nat) (draws : List Nat) (h : ∀ d ∈ draws, d < k) :
    (pamIdModels k draws).Perm draws ∧ (pamIdModels k draws).length = draws.length ∧
    pamCounts k draws = (List.range k).map (fun m => draws.count m) ∧
    ∀ ws : List ℝ, lsum ws ≠ 0 → lsum (normalise ws) = 1 := by
  refine ⟨pamIdModels_perm k draws h, (pamIdModels_perm k draws h).length_eq, rfl, ?_⟩
  intro ws hne
  rw [lsum_real] at hne
  simp only [normalise, lsum_real, div_eq_mul_inv, List.sum_map_mul_right, List.map_id']
  exact mul_inv_cancel₀ hne

/-! ## tables -/

/-- Returned tables: one row per (sample, time, observable), IDs `1 … n`, every row's value taken from
    the array entry with the same labels — for `PredictiveModel` (loop over outputs, times), the
    population model (four flattened columns), the prior / posterior models (loop over samples,
    outputs) — and one covariate row per (sample, covariate), one dose row per (sample, dose event). -/
theorem C15_table_labels (nOut nT n : Nat) :
    ((predictiveTable nOut nT n).Nodup ∧
      ∀ r, r ∈ predictiveTable nOut nT n ↔ 1 ≤ r.id ∧ r.id ≤ n ∧ r.time < nT ∧ r.obs < nOut) ∧
    ((averagedTable nOut nT n).Nodup ∧
      ∀ r, r ∈ averagedTable nOut nT n ↔ 1 ≤ r.id ∧ r.id ≤ n ∧ r.time < nT ∧ r.obs < nOut) ∧
    (popTable nOut nT n = (popValueColumn nOut nT n).map (fun ots => (⟨ots.2.2 + 1, ots.2.1, ots.1⟩, ots)) ∧
      (popValueColumn nOut nT n).Nodup ∧
      ∀ o t s, (o, t, s) ∈ popValueColumn nOut nT n ↔ o < nOut ∧ t < nT ∧ s < n) ∧
    (∀ nCov id c, (id, c) ∈ covariateRows nCov n ↔ 1 ≤ id ∧ id ≤ n ∧ c < nCov) ∧
    (∀ nDoses id j, (id, j) ∈ doseRows nDoses n ↔ 1 ≤ id ∧ id ≤ n ∧ j < nDoses) := by
  refine ⟨⟨nodup_predictiveTable nOut nT n, mem_predictiveTable nOut nT n⟩,
    ⟨nodup_averagedTable nOut nT n, mem_averagedTable nOut nT n⟩, ⟨popTable_rows nOut nT n, ?_, ?_⟩, ?_, ?_⟩
  · refine nodup_flatMap_range _ _ ?_ ?_
    · intro o _
      refine nodup_flatMap_range _ _ ?_ ?_
      · intro t _
        refine List.Nodup.map_on ?_ List.nodup_range
        intro s _ s' _ h
        simpa using h
      · intro t t' _ _ hne x hx hx'
        simp only [List.mem_map] at hx hx'
        obtain ⟨s, _, rfl⟩ := hx
        obtain ⟨s', _, h⟩ := hx'
        simp only [Prod.mk.injEq] at h
        exact hne h.2.1.symm
    · intro o o' _ _ hne x hx hx'
      simp only [List.mem_flatMap, List.mem_map] at hx hx'
      obtain ⟨t, _, s, _, rfl⟩ := hx
      obtain ⟨t', _, s', _, h⟩ := hx'
      simp only [Prod.mk.injEq] at h
      exact hne h.1.symm
  · intro o t s
    simp only [popValueColumn, List.mem_flatMap, List.mem_map, List.mem_range, Prod.mk.injEq]
    constructor
    · rintro ⟨o', ho, t', ht, s', hs, rfl, rfl, rfl⟩; exact ⟨ho, ht, hs⟩
    · rintro ⟨ho, ht, hs⟩; exact ⟨o, ho, t, ht, s, hs, rfl, rfl, rfl⟩
  · intro nCov id c
    simp only [covariateRows, List.mem_flatMap, List.mem_map, List.mem_range, Prod.mk.injEq]
    constructor
    · rintro ⟨c', hc, s, hs, rfl, rfl⟩; exact ⟨by omega, by omega, hc⟩
    · rintro ⟨h1, h2, h3⟩; exact ⟨c, h3, id - 1, by omega, by omega, rfl⟩
  · intro nDoses id j
    simp only [doseRows, List.mem_flatMap, List.mem_map, List.mem_range, Prod.mk.injEq]
    constructor
    · rintro ⟨s, hs, j', hj, rfl, rfl⟩; exact ⟨by omega, by omega, hj⟩
    · rintro ⟨h1, h2, h3⟩; exact ⟨id - 1, by omega, j, h3, by omega, rfl⟩

/-- PAM: the concatenated tables with shifted IDs again have one row per (ID, time, observable) with
    IDs `1 … Σ counts` -/
theorem C15_table_labels_pam (nOut nT : Nat) (counts : List Nat) (r : Row) :
    r ∈ pamTable nOut nT 0 counts ↔ 1 ≤ r.id ∧ r.id ≤ counts.sum ∧ r.time < nT ∧ r.obs < nOut := by
  obtain ⟨id, time, obs⟩ := r
  have key : ∀ (cs : List Nat) (shift : Nat),
      (⟨id, time, obs⟩ : Row) ∈ pamTable nOut nT shift cs ↔
        shift + 1 ≤ id ∧ id ≤ shift + cs.sum ∧ time < nT ∧ obs < nOut := by
    intro cs
    induction cs with
    | nil => intro shift; simp [pamTable]; omega
    | cons cnt rest ih =>
      intro shift
      simp only [pamTable, List.mem_append, ih, List.sum_cons]
      constructor
      · rintro (h | h)
        · split at h
          · simp at h
          · simp only [List.mem_map] at h
            obtain ⟨⟨id', time', obs'⟩, hr', heq⟩ := h
            simp only [Row.mk.injEq] at heq
            obtain ⟨rfl, rfl, rfl⟩ := heq
            obtain ⟨h1, h2, h3, h4⟩ := (mem_averagedTable nOut nT cnt _).mp hr'
            simp only at h1 h2 h3 h4
            exact ⟨by omega, by omega, h3, h4⟩
        · exact ⟨by omega, by omega, h.2.2.1, h.2.2.2⟩
      · rintro ⟨h1, h2, h3, h4⟩
        by_cases hle : id ≤ shift + cnt
        · left
          have hc : cnt ≠ 0 := by omega
          simp only [hc, if_false, List.mem_map]
          refine ⟨⟨id - shift, time, obs⟩, (mem_averagedTable nOut nT cnt _).mpr
            ⟨by simp only; omega, by simp only; omega, h3, h4⟩, ?_⟩
          simp only [Row.mk.injEq, and_true]; omega
        · right
          exact ⟨by omega, by omega, h3, h4⟩
  simpa using key counts 0

/-- times are labelled in ascending order: `np.sort` returns a sorted rearrangement of the requested
    times (ties kept), for every input order -/
theorem C15_times_ascending {τ : Type} [LinearOrder τ] (ts : List τ) :
    (sortTimes (fun a b => decide (a < b)) ts).Pairwise (· ≤ ·) ∧
    (sortTimes (fun a b => decide (a < b)) ts).Perm ts :=
  ⟨sortTimes_sorted ts, sortTimes_perm ts⟩

/-! ## sample sizes different from the stored `n_ids` -/

/-- The code as it is (f54d322, 7e1e7bd), for every number of drawn individuals and every stored `n_ids`:
    pooled dimensions get as many individuals as were drawn, each with the pooled value; heterogeneous
    dimensions get exactly the individuals drawn by `sample` (rows of the stored parameters chosen by the
    seeded generator) — `compute_individual_parameters` returns an array a composed model accepts, and
    every column of the container is written. -/
theorem C15_nids {α : Type} (theta : List α) (stored eta : List (List α)) :
    ((pooledIndividuals theta eta).length = eta.length ∧ ∀ row ∈ pooledIndividuals theta eta, row = theta) ∧
    popPredHetero false stored eta = eta ∧
    composedAccepts false stored eta = true ∧
    fillColumns eta.length (popPredHetero false stored eta).length = .ok (List.replicate eta.length true) := by
  refine ⟨by simp [pooledIndividuals], rfl, ?_, ?_⟩
  · simp only [composedAccepts, heteroIndividuals, Bool.false_eq_true, if_false, beq_iff_eq]
    split
    · rfl
    · rename_i h; have := not_not.mp h; exact this.symm
  · simp only [popPredHetero, Bool.false_eq_true, if_false, fillColumns, Nat.lt_irrefl, if_false]
    congr 1
    apply List.ext_getElem <;> simp

/-- Before 7e1e7bd: the stored individuals came back whatever was drawn — with 5 drawn and 3 stored
    individuals 3 patients (a broadcast error in a composed model, two unwritten columns for the bare
    model), with 2 drawn and 3 stored an `IndexError`; and with equal numbers the drawn rows were ignored. -/
theorem C15_nids_counterexample :
    (popPredHetero true [[1], [2], [3]] [[3], [3], [1], [2], [2]]).length = 3 ∧
    composedAccepts true [[1], [2], [3]] [[3], [3], [1], [2], [2]] = false ∧
    fillColumns 5 3 = .ok [true, true, true, false, false] ∧
    fillColumns 2 3 = .error "indexError" ∧
    popPredHetero true [[1], [2], [3]] [[3], [3], [1]] = [[1], [2], [3]] ∧
    popPredHetero false [[1], [2], [3]] [[3], [3], [1]] = [[3], [3], [1]] := by
  decide

/-! ## the seed of the wrapped model in `PriorPredictiveModel.sample` -/

/-- the seed `PriorPredictiveModel.sample` hands to the wrapped model for sample ID `k + 1` under the
    integer seed `s` (`base_seed + sample_id`) -/
def priorInnerSeed (s : Int) (k : Nat) : Int := s + (k + 1)

/-- One iteration of the loop over sample IDs, for EVERY integer seed `s` (zero and negative included — the
    code tests `seed is not None`, never the truth value of the seed): one `log_prior.sample()` on the
    global generator, then the wrapped model with the seed `s + sample_id`. -/
theorem C15_prior_inner_seed (v : Variant) (spec : PredSpec) (nT n : Nat) (s : Int) (k : Nat)
    (ks : List Nat) (w : World) :
    priorLoop v spec nT n (some s) (k :: ks) w =
      (let cw := globCall .prior 1 w
       let r := anyPred v spec nT n (.int (priorInnerSeed s k)) cw.2
       let rest := priorLoop v spec nT n (some s) ks r.2
       (Out.append ⟨keepFirst k [⟨w.glob.stream, w.glob.ctr, 0⟩] r.1.1.cells, cw.1 :: r.1.1.calls, [], false⟩
          rest.1, rest.2)) := rfl

/-- Every sample ID gets its own noise stream: for every integer seed the seeds of the wrapped model's calls
    for two different sample IDs differ, and none of them is the seed of the prior draws. -/
theorem C15_prior_own_seed_per_sample (s : Int) {j k : Nat} (h : j ≠ k) :
    priorInnerSeed s j ≠ priorInnerSeed s k ∧ priorInnerSeed s k ≠ s := by
  unfold priorInnerSeed; omega

example : priorInnerSeed 0 0 = 1 ∧ priorInnerSeed 0 1 = 2 := by decide

end ChiModel.Pred
