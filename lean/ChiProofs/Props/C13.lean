import ChiProofs.Lemmas.PosteriorLoops
import ChiProofs.Lemmas.PosteriorSums
import ChiProofs.Lemmas.PosteriorGrad
import ChiProofs.Props.C12

/-!
# C13 — filter posterior = prior + population + noise + filter terms; exact gradient; names / IDs

Model: `ChiModel/FilterPosterior.lean` (namespace `ChiModel.FP`).  The flat vector is `x : ℕ → ℝ`;
a configuration `c : Cfg` lists the elementary population models (`SubModel`: dimensions, number of
population parameters, whether it has individual-level entries, what `isinstance` detects).
`c.Sound`: every sub-model is what chi's elementary classes are (pooled ⇒ one parameter per
dimension, heterogeneous ⇒ `n_samples` per dimension, individual-level entries iff neither).
-/
set_option linter.unusedSectionVars false
set_option linter.unusedSimpArgs false
set_option linter.unusedVariables false
namespace ChiModel
open ScalarFns Finset ProbabilityTheory PF FP

/-! ## layout: the four blocks partition the vector -/

/-- block boundaries are ordered, the length is the sum of the four block lengths, and the readers
    `bottomBlock` / `epsBlock` enumerate their blocks bijectively (individual-major) -/
theorem C13_layout (c : Cfg) :
    c.nPop ≤ c.nTop ∧ c.nTop ≤ c.endBottom ∧ c.endBottom ≤ c.nParameters ∧
    c.nParameters = c.nPop + (if c.sigmaFree then c.R else 0) + c.nS * c.nHdim + c.nS * (c.R * c.T) ∧
    (∀ q, c.nTop ≤ q → q < c.endBottom →
      (q - c.nTop) / c.nHdim < c.nS ∧ (q - c.nTop) % c.nHdim < c.nHdim ∧
      q = c.nTop + (q - c.nTop) / c.nHdim * c.nHdim + (q - c.nTop) % c.nHdim) ∧
    (∀ s d s' d', d < c.nHdim → d' < c.nHdim →
      c.nTop + s * c.nHdim + d = c.nTop + s' * c.nHdim + d' → s = s' ∧ d = d') ∧
    (∀ s r j s' r' j', r < c.R → j < c.T → r' < c.R → j' < c.T →
      c.endBottom + s * (c.R * c.T) + r * c.T + j = c.endBottom + s' * (c.R * c.T) + r' * c.T + j' →
      s = s' ∧ r = r' ∧ j = j') := by
  have hN : c.nParameters = c.nPop + (if c.sigmaFree then c.R else 0) + c.nS * c.nHdim
      + c.nS * (c.R * c.T) := by
    simp only [Cfg.nParameters, Cfg.nTop, Nat.mul_add, Nat.mul_comm c.T c.R, Nat.add_assoc]
  refine ⟨by unfold Cfg.nTop; omega, by unfold Cfg.endBottom; omega, ?_, hN, ?_, ?_, ?_⟩
  · rw [hN]; simp only [Cfg.endBottom, Cfg.nTop]; omega
  · intro q h1 h2
    have hpos : 0 < c.nHdim := by
      rcases Nat.eq_zero_or_pos c.nHdim with h | h
      · simp [Cfg.endBottom, h] at h2; omega
      · exact h
    have hlt : q - c.nTop < c.nS * c.nHdim := by simp only [Cfg.endBottom] at h2; omega
    refine ⟨(Nat.div_lt_iff_lt_mul hpos).2 hlt, Nat.mod_lt _ hpos, ?_⟩
    have := Nat.div_add_mod (q - c.nTop) c.nHdim
    rw [Nat.mul_comm] at this
    omega
  · intro s d s' d' hd hd' h
    have h' : s * c.nHdim + d = s' * c.nHdim + d' := by omega
    have a := div_mod_block s d c.nHdim hd
    have b := div_mod_block s' d' c.nHdim hd'
    rw [h'] at a
    exact ⟨a.1.symm.trans b.1, a.2.symm.trans b.2⟩
  · intro s r j s' r' j' hr hj hr' hj' h
    have hrj : r * c.T + j < c.R * c.T := by
      have : r * c.T + c.T ≤ c.R * c.T := by rw [← Nat.succ_mul]; exact Nat.mul_le_mul_right _ hr
      omega
    have hrj' : r' * c.T + j' < c.R * c.T := by
      have : r' * c.T + c.T ≤ c.R * c.T := by rw [← Nat.succ_mul]; exact Nat.mul_le_mul_right _ hr'
      omega
    have h' : s * (c.R * c.T) + (r * c.T + j) = s' * (c.R * c.T) + (r' * c.T + j') := by omega
    have a := div_mod_block s (r * c.T + j) (c.R * c.T) hrj
    have b := div_mod_block s' (r' * c.T + j') (c.R * c.T) hrj'
    rw [h'] at a
    have hs : s = s' := a.1.symm.trans b.1
    have hin : r * c.T + j = r' * c.T + j' := a.2.symm.trans b.2
    have a2 := div_mod_block r j c.T hj
    have b2 := div_mod_block r' j' c.T hj'
    rw [hin] at a2
    exact ⟨hs, a2.1.symm.trans b2.1, a2.2.symm.trans b2.2⟩

/-- reading the vector: which position each parsed entry comes from (`__call__`, first lines) -/
theorem C13_blocks (c : Cfg) (fixed : Nat → ℝ) (x : Nat → ℝ) :
    (∀ i, popBlock c x i = x i) ∧
    (∀ r, sigmaOf c fixed x r = if c.sigmaFree then x (c.nPop + r) else fixed r) ∧
    (∀ s d, bottomBlock c x s d = x (c.nTop + s * c.nHdim + d)) ∧
    (∀ s r j, epsBlock c x s r j = x (c.endBottom + s * (c.R * c.T) + r * c.T + j)) :=
  ⟨fun _ => rfl, fun _ => rfl, fun _ _ => rfl, fun _ _ _ => rfl⟩

/-! ## special dimensions -/

/-- `_get_special_dims` on sound sub-models: sorted non-overlapping blocks inside the dimension
    and population-parameter ranges, and the dimensions outside them are exactly the hierarchical
    ones (`n_hierarchical_dim`) -/
theorem C13_special_dims (c : Cfg) (hs : c.Sound) :
    WFs c.nS 0 c.specials ∧
    (∀ sp ∈ c.specials, sp.b ≤ c.nDim ∧ sp.tb ≤ c.nPop) ∧
    below c.specials c.nDim + c.nHdim = c.nDim := by
  obtain ⟨h1, h2, h3⟩ := specialsFrom_spec c.nS c.subs 0 0 hs
  refine ⟨h1, fun sp hm => ?_, by simpa [Cfg.specials, Cfg.nDim, Cfg.nHdim] using h3⟩
  have := h2 sp hm
  simp only [Cfg.nDim, Cfg.nPop]
  omega

/-- every detected sub-model yields the block of its own dimensions and of its own parameters in
    the population model's (published) parameter order, and nothing else does -/
theorem C13_special_dims_mem : ∀ (us : List SubModel) (d0 t0 : Nat) (sp : Special),
    sp ∈ specialsFrom us d0 t0 ↔
      ∃ k, ∃ hk : k < us.length, us[k].detect = some sp.pooled ∧
        sp.a = d0 + sumBy (·.nDim) (us.take k) ∧ sp.b = sp.a + us[k].nDim ∧
        sp.ta = t0 + sumBy (·.nTop) (us.take k) ∧ sp.tb = sp.ta + us[k].nTop
  | [], d0, t0, sp => by simp [specialsFrom]
  | u :: us, d0, t0, sp => by
    have ih := C13_special_dims_mem us (d0 + u.nDim) (t0 + u.nTop) sp
    have hstep : (∃ k, ∃ hk : k < (u :: us).length, (u :: us)[k].detect = some sp.pooled ∧
        sp.a = d0 + sumBy (·.nDim) ((u :: us).take k) ∧ sp.b = sp.a + (u :: us)[k].nDim ∧
        sp.ta = t0 + sumBy (·.nTop) ((u :: us).take k) ∧ sp.tb = sp.ta + (u :: us)[k].nTop) ↔
        (u.detect = some sp.pooled ∧ sp.a = d0 ∧ sp.b = sp.a + u.nDim ∧ sp.ta = t0 ∧
          sp.tb = sp.ta + u.nTop) ∨
        (∃ k, ∃ hk : k < us.length, us[k].detect = some sp.pooled ∧
          sp.a = d0 + u.nDim + sumBy (·.nDim) (us.take k) ∧ sp.b = sp.a + us[k].nDim ∧
          sp.ta = t0 + u.nTop + sumBy (·.nTop) (us.take k) ∧ sp.tb = sp.ta + us[k].nTop) := by
      constructor
      · rintro ⟨k, hk, h⟩
        cases k with
        | zero => left; simpa [sumBy] using h
        | succ k =>
          right
          refine ⟨k, by simpa using hk, ?_⟩
          simpa [sumBy_cons, List.take_succ_cons, Nat.add_assoc] using h
      · rintro (h | ⟨k, hk, h⟩)
        · exact ⟨0, by simp, by simpa [sumBy] using h⟩
        · refine ⟨k + 1, by simpa using hk, ?_⟩
          simpa [sumBy_cons, List.take_succ_cons, Nat.add_assoc] using h
    rw [hstep, ← ih]
    cases hdet : u.detect with
    | none =>
      simp only [specialsFrom, hdet]
      constructor
      · exact fun h => Or.inr h
      · rintro (h | h)
        · exact absurd h.1 (by simp)
        · exact h
    | some p =>
      simp only [specialsFrom, hdet, List.mem_cons]
      constructor
      · rintro (h | h)
        · left; subst h; simp
        · exact Or.inr h
      · rintro (h | h)
        · left
          obtain ⟨h1, h2, h3, h4, h5⟩ := h
          cases sp
          simp only [Option.some.injEq] at h1
          simp_all
        · exact Or.inr h

/-! ## scatter: `_reshape_bottom_parameters` -/

/-- every entry of the `(n_samples × n_dim)` matrix is the vector entry at the published position:
    the pooled parameter of that dimension, the heterogeneous parameter of that individual and
    dimension, or the individual's own entry of the rank of that dimension among the hierarchical
    ones.  Holds on all four paths (the all-heterogeneous shortcut is taken for a single block only,
    commit edde12c; the `legacy` shortcut: `C13_all_heterogeneous_counterexample`). -/
theorem C13_scatter (c : Cfg) (hs : c.Sound) (x : Nat → ℝ) (s d : Nat) (hd : d < c.nDim) :
    (∀ sp ∈ c.specials, sp.a ≤ d → d < sp.b →
      reshapeBottom c (popBlock c x) (bottomBlock c x) s d
        = if sp.pooled then x (sp.ta + (d - sp.a)) else x (sp.ta + s * (sp.b - sp.a) + (d - sp.a))) ∧
    (¬ isSpecial c.specials d →
      reshapeBottom c (popBlock c x) (bottomBlock c x) s d
        = x (c.nTop + s * c.nHdim + (d - below c.specials d))) :=
  reshapeBottom_spec c hs (popBlock c x) (bottomBlock c x) s d hd

/-- Witness for the finding repaired by edde12c (about the `legacy` shortcut): two heterogeneous
    sub-models of one dimension each, two simulated individuals.  Published order of the population
    block: `[ID1 dim0, ID2 dim0, ID1 dim1, ID2 dim1]`.  The legacy shortcut hands individual 0,
    dimension 1 the entry at position 1 (individual 1's dimension 0) instead of position 2; the
    repaired code (`reshapeBottom`) reads position 2, as `C13_scatter` says. -/
theorem C13_all_heterogeneous_counterexample :
    let c : Cfg := ⟨[⟨1, 2, false, some false⟩, ⟨1, 2, false, some false⟩], 2, 1, 1, false, false⟩
    c.Sound ∧ (⟨1, 2, 2, 4, false⟩ : Special) ∈ c.specials ∧
    (∃ x : Nat → ℝ,
      reshapeBottomLegacy c (popBlock c x) (bottomBlock c x) 0 1 ≠ x (2 + 0 * (2 - 1) + (1 - 1))) ∧
    ∀ x : Nat → ℝ, reshapeBottom c (popBlock c x) (bottomBlock c x) 0 1 = x (2 + 0 * (2 - 1) + (1 - 1)) := by
  intro c
  refine ⟨?_, ?_, ⟨fun q => (q : ℝ), ?_⟩, ?_⟩
  · intro u hu
    simp only [c, List.mem_cons, List.mem_nil_iff, or_false, or_self] at hu
    subst hu
    simp [SubModel.Sound, c]
  · simp [c, Cfg.specials, specialsFrom]
  · simp [c, reshapeBottomLegacy, Cfg.nHdim, Cfg.nDim, Cfg.pooledDim, Cfg.heteroDim, sumBy, popBlock]
  · intro x
    simp [c, reshapeBottom, Cfg.nHdim, Cfg.nDim, Cfg.pooledDim, Cfg.heteroDim, sumBy, popBlock,
      Cfg.specials, specialsFrom, reshapeLoop, sliceAssign]

/-- Witness for finding #15: a covariate-wrapped pooled model (one dimension, population parameters
    `[pooled value, shift]`, no individual-level entries, not an instance of `PooledModel`) followed by
    a Gaussian model.  No special block is found although only one of the two dimensions has
    individual-level entries; the pooled dimension is filled from the individual block. -/
theorem C13_wrapped_pooled_counterexample :
    let c : Cfg := ⟨[⟨1, 2, false, none⟩, ⟨1, 2, true, none⟩], 2, 1, 1, false, false⟩
    ¬ c.Sound ∧ c.specials = [] ∧ c.nHdim < c.nDim ∧
    ∀ x : Nat → ℝ, reshapeBottom c (popBlock c x) (bottomBlock c x) 0 0 = x c.nTop := by
  intro c
  refine ⟨?_, ?_, ?_, ?_⟩
  · intro h
    have := (h ⟨1, 2, false, none⟩ (by simp [c])).2.1
    simp at this
  · simp [c, Cfg.specials, specialsFrom]
  · simp [c, Cfg.nHdim, Cfg.nDim, sumBy]
  · intro x
    simp [c, reshapeBottom, Cfg.nHdim, Cfg.nDim, Cfg.pooledDim, Cfg.heteroDim, sumBy, Cfg.specials,
      specialsFrom, reshapeLoop, sliceAssign, bottomBlock, Cfg.nTop, Cfg.nPop]

/-! ## gather: `_remove_duplicates` -/

/-- on the general path: the population block receives `sens + Σ` over the simulated individuals
    (pooled) / the individual's own entry (heterogeneous) of the special columns of `dbottom`; the
    individual block receives the regular columns in rank order; the noise block is untouched -/
theorem C13_gather (c : Cfg) (hs : c.Sound) (h1 : c.nHdim ≠ c.nDim)
    (h2 : ¬ (c.heteroDim = c.nDim ∧ c.specials.length = 1))
    (h3 : c.pooledDim ≠ c.nDim) (sens : Nat → ℝ) (D : Nat → Nat → ℝ) :
    (∀ q, q < c.nTop → removeDuplicates c sens D q = sens q + contribAll c.nS D c.specials q) ∧
    (∀ s d, s < c.nS → d < c.nDim → ¬ isSpecial c.specials d →
      removeDuplicates c sens D (c.nTop + s * c.nHdim + (d - below c.specials d)) = D s d) ∧
    (∀ k, removeDuplicates c sens D (c.endBottom + k) = sens (c.endBottom + k)) := by
  obtain ⟨hwf, hb, hsum⟩ := C13_special_dims c hs
  have hgen : removeDuplicates c sens D = writeBottom c
      (gatherLoop c.nS D c.specials 0 0 sens (fun _ _ => ofNat 0)).1 (gatherBs c D sens) := by
    unfold removeDuplicates
    rw [if_neg h1, if_neg h2, if_neg h3]
    rfl
  rw [hgen]
  refine ⟨fun q hq => ?_, fun s d hs' hd hreg => ?_, fun k => ?_⟩
  · rw [writeBottom_top c _ _ q hq, gatherLoop_sens]
  · -- the rank of a regular dimension is below n_hierarchical_dim
    have hrank : d - below c.specials d < c.nHdim := by
      have h1' := rank_succ c.nS c.specials hwf d
      have hnot : spB c.specials d = false := by
        rw [Bool.eq_false_iff]; exact fun hc => hreg ((spB_iff _ d).1 hc)
      rw [hnot] at h1'
      simp only [Bool.false_eq_true, if_false] at h1'
      have h2' := rank_mono c.nS c.specials hwf (d + 1) c.nDim (by omega)
      omega
    rw [Nat.add_assoc, writeBottom_bottom c _ _ s _ hs' hrank, gatherBs_spec c hs D sens s d hreg]
  · rw [writeBottom_after, gatherLoop_sens,
      contribAll_zero_of_ge c.nS D c.specials c.nPop _ (fun sp hm => (hb sp hm).2)
        (by simp only [Cfg.endBottom, Cfg.nTop]; omega), add_zero]

/-- `_remove_duplicates` and `_reshape_bottom_parameters` are mutually transpose: for every vector `x`,
    `⟨x, remove_duplicates(sens, D)⟩ = ⟨x, sens⟩ (outside the individual block) + ⟨reshape(x), D⟩`,
    on all four paths (every position of pooled / heterogeneous blocks, any number of blocks) -/
theorem C13_scatter_gather (c : Cfg) (hs : c.Sound) (x sens : Nat → ℝ) (D : Nat → Nat → ℝ) :
    ∑ q ∈ range c.nParameters, x q * removeDuplicates c sens D q
      = ∑ q ∈ range c.nParameters, (if c.nTop ≤ q ∧ q < c.endBottom then 0 else x q * sens q)
        + ∑ s ∈ range c.nS, ∑ d ∈ range c.nDim,
            reshapeBottom c (popBlock c x) (bottomBlock c x) s d * D s d :=
  removeDuplicates_adjoint c hs x sens D

/-! ## value -/

theorem log_stdnormal (e : ℝ) :
    Real.log (gaussianPDFReal 0 1 e) = -(Real.log (2 * Real.pi) / 2) - e * e / 2 := by
  have h := gauss_term_doc 0 1 e (by norm_num)
  unfold normalPDF at h
  rw [Real.toNNReal_one] at h
  rw [← h]
  unfold gscore
  simp
  ring

/-- the noise contribution is the standard-normal log-density of every noise realisation, up to the
    parameter-independent constant `(n_s·R·T − n_s·R)·log(2π)/2` -/
theorem C13_noise_is_standard_normal (c : Cfg) (x : Nat → ℝ) :
    noiseTerm c x
      = ∑ s ∈ range c.nS, ∑ r ∈ range c.R, ∑ j ∈ range c.T,
          Real.log (gaussianPDFReal 0 1 (epsBlock c x s r j))
        + ((c.nS : ℝ) * c.R * c.T - (c.nS : ℝ) * c.R) * (Real.log (2 * Real.pi) / 2) := by
  unfold noiseTerm
  simp only [log_stdnormal, isum_eq, log_real, two_real, pi_real, ofNat_real,
    Finset.sum_sub_distrib, Finset.sum_neg_distrib, Finset.sum_const, card_range, nsmul_eq_mul,
    ← Finset.sum_div]
  ring

/-- `__call__` = log-prior + population log-density of the simulated individuals + noise term +
    filter log-likelihood of `ȳ(ψ_s, t_j) + σ_r ε_srj` (or `ȳ · exp(σ_r ε_srj)`), where
    `ψ = compute_individual_parameters(θ, B)` and `B` is the matrix of `C13_scatter` -/
theorem C13_value {τ : Type} (c : Cfg) (E : Env τ ℝ) (p q : ℝ) (filt : AnyFilt ℝ)
    (sortedTimes : Nat → τ) (x : Nat → ℝ) :
    callRaw c E p q filt sortedTimes x
      = p + q + noiseTerm c x
        + filt.val c.nS (fun s r j =>
            let B := reshapeBottom c (popBlock c x) (bottomBlock c x)
            let ybar := E.mech (E.indiv (popBlock c x) B s) r (sortedTimes j)
            let sigma := sigmaOf c E.sigmaFixed x r
            let eps := epsBlock c x s r j
            if c.logScale then ybar * Real.exp (sigma * eps) else ybar + sigma * eps) := by
  unfold callRaw simulated noisy
  simp only [exp_real]

theorem filterLL_val (k : FKind) (m n R T : Nat) (obs : Nat → Nat → Nat → Option ℝ)
    (y : Nat → Nat → Nat → ℝ) (f : ℝ) (h : filterLL k m n R T obs y = .ok (.val f)) :
    f = filterVal k m n R T obs y := by
  unfold filterLL at h
  simp only at h
  repeat' (split at h)
  all_goals first
    | (cases h; rfl)
    | cases h

theorem compLLFrom_val (n : Nat) : ∀ (Fs : List (Filt ℝ)) (off : Nat) (y : Nat → Nat → Nat → ℝ) (f : ℝ),
    compLLFrom n Fs off y = .ok (.val f) → f = compValFrom n Fs off y
  | [], off, y, f, h => by
    simp only [compLLFrom, Score.zero, Except.ok.injEq, Score.val.injEq] at h
    simp [compValFrom, ← h]
  | F :: Fs, off, y, f, h => by
    simp only [compLLFrom] at h
    cases h1 : F.ll n (shiftT y off) with
    | error e => rw [h1] at h; cases h
    | ok s1 =>
      rw [h1] at h
      cases h2 : compLLFrom n Fs (off + F.T) y with
      | error e => rw [h2] at h; cases h
      | ok s2 =>
        rw [h2] at h
        simp only [Except.ok.injEq] at h
        match s1, s2, h1, h2, h with
        | .val a, .val b, h1, h2, h =>
          have ha := filterLL_val F.kind F.m n F.R F.T F.obs (shiftT y off) a h1
          have hb := compLLFrom_val n Fs (off + F.T) y b h2
          simp only [Score.add, Score.val.injEq] at h
          simp only [compValFrom, Filt.val, ← ha, ← hb, h]
        | .val a, .negInf, _, _, h => simp [Score.add] at h
        | .val a, .undefined, _, _, h => simp [Score.add] at h
        | .negInf, .val b, _, _, h => simp [Score.add] at h
        | .negInf, .negInf, _, _, h => simp [Score.add] at h
        | .negInf, .undefined, _, _, h => simp [Score.add] at h
        | .undefined, .val b, _, _, h => simp [Score.add] at h
        | .undefined, .negInf, _, _, h => simp [Score.add] at h
        | .undefined, .undefined, _, _, h => simp [Score.add] at h

theorem AnyFilt.ll_val (filt : AnyFilt ℝ) (n : Nat) (y : Nat → Nat → Nat → ℝ) (f : ℝ)
    (h : filt.ll n y = .ok (.val f)) : f = filt.val n y := by
  cases filt with
  | simple F => exact filterLL_val _ _ _ _ _ _ _ _ h
  | comp C => exact compLLFrom_val n C.filters 0 _ f h

/-- a prior of `-inf` short-circuits -/
theorem C13_call_neginf {τ : Type} (c : Cfg) (E : Env τ ℝ) (filt : AnyFilt ℝ)
    (sortedTimes : Nat → τ) (x : Nat → ℝ) (h : E.prior x = .negInf) :
    call c E filt sortedTimes x = .ok .negInf := by
  unfold call; rw [h]

/-- inside the support the reported score is the sum of `C13_value` -/
theorem C13_call_val {τ : Type} (c : Cfg) (E : Env τ ℝ) (filt : AnyFilt ℝ)
    (sortedTimes : Nat → τ) (x : Nat → ℝ) (p q f : ℝ) (hp : E.prior x = .val p)
    (hq : E.popLL (popBlock c x) (reshapeBottom c (popBlock c x) (bottomBlock c x)) = .val q)
    (hf : filt.ll c.nS (simulated c E sortedTimes x) = .ok (.val f)) :
    call c E filt sortedTimes x = .ok (.val (callRaw c E p q filt sortedTimes x)) := by
  have hfv := AnyFilt.ll_val filt c.nS _ f hf
  unfold call callRaw
  rw [hp]
  simp only [hq, Score.add, hf, hfv]

/-! ## time sorting in the constructor -/
section times
variable {τ : Type} [LinearOrder τ]

/-- `a < b` as a Boolean -/
abbrev ltT : τ → τ → Bool := fun a b => decide (a < b)

theorem argsortBy_perm (times : List τ) (dflt : τ) :
    (argsortBy ltT times dflt).Perm (List.range times.length) := List.mergeSort_perm _ _

theorem argsortBy_sorted (times : List τ) (dflt : τ) :
    ((argsortBy ltT times dflt).map (fun k => times.getD k dflt)).Pairwise (· ≤ ·) := by
  unfold argsortBy
  rw [List.pairwise_map]
  have := List.pairwise_mergeSort
    (le := fun a b => !(ltT (times.getD b dflt) (times.getD a dflt)))
    (fun a b c hab hbc => by
      simp only [ltT, Bool.not_eq_true', decide_eq_false_iff_not, not_lt] at *
      exact le_trans hab hbc)
    (fun a b => by
      simp only [ltT, Bool.or_eq_true, Bool.not_eq_true', decide_eq_false_iff_not, not_lt]
      exact le_total _ _) (List.range times.length)
  refine this.imp ?_
  intro a b h
  simpa [ltT] using h

theorem getD_range (T j : Nat) (hj : j < T) : (List.range T).getD j 0 = j := by
  rw [List.getD_eq_getElem?_getD, List.getElem?_range hj]; rfl

/-- The constructor sorts the times (`times = sort(times)`) and tells the filter to reorder its data
    (`filter.sort_times(argsort(times))`).  The value the posterior then computes on simulated
    measurements at the SORTED times equals the value of the filter as it was handed in, on the same
    simulated measurements arranged in the ORIGINAL time order — for single filters and for composed
    filters (deferred order). -/
theorem C13_value_times (filt : AnyFilt ℝ) (times : List τ) (dflt : τ) (hT : times.length = filt.T)
    (hfresh : ∀ C, filt = .comp C → C.timeOrder = none) :
    (argsortBy ltT times dflt).Perm (List.range filt.T) ∧
    ((argsortBy ltT times dflt).map (fun k => times.getD k dflt)).Pairwise (· ≤ ·) ∧
    ∃ filt', construct ltT dflt filt times
        = .ok (filt', fun j => times.getD ((argsortBy ltT times dflt).getD j 0) dflt) ∧
      ∀ (n : Nat) (y : Nat → Nat → Nat → ℝ),
        filt'.val n (fun s r j => y s r ((argsortBy ltT times dflt).getD j 0)) = filt.val n y := by
  have hperm : (argsortBy ltT times dflt).Perm (List.range filt.T) := by
    rw [← hT]; exact argsortBy_perm times dflt
  refine ⟨hperm, argsortBy_sorted times dflt, ?_⟩
  unfold construct
  rw [if_neg (by simpa using hT)]
  cases filt with
  | simple F =>
    obtain ⟨F', hF', hval⟩ := C12_time_reorder F 0 (fun _ _ _ => 0) _ hperm
    refine ⟨.simple F', ?_, fun n y => ?_⟩
    · simp only [AnyFilt.sortTimes, hF', Except.map]
    · have hF'' := sortTimes_ok F _ hperm
      rw [hF''] at hF'
      cases hF'
      obtain ⟨F2, hF2, hv⟩ := C12_time_reorder F n y _ hperm
      rw [hF''] at hF2
      cases hF2
      exact hv
  | comp C =>
    have hnone := hfresh C rfl
    obtain ⟨Fs, tord⟩ := C
    simp only at hnone
    subst hnone
    have hs := C12_composed_sortTimes Fs _ hperm
    by_cases hid : argsortBy ltT times dflt = List.range (Comp.mk Fs none).T
    · rw [if_pos hid] at hs
      refine ⟨.comp (Comp.mk Fs none), ?_, fun n y => ?_⟩
      · simp only [AnyFilt.sortTimes, hs, Except.map]
      · simp only [AnyFilt.val, Comp.val, Comp.presort]
        refine compValFrom_congr n Fs 0 _ _ (fun s r j hj => ?_)
        simp only [Nat.zero_add] at hj
        have hid' : argsortBy ltT times dflt = List.range (Comp.mk Fs none).T := hid
        rw [hid', getD_range _ j (by simpa [Comp.T] using hj)]
    · rw [if_neg hid] at hs
      refine ⟨.comp (Comp.mk Fs (some (argsortBy ltT times dflt))), ?_, fun n y => ?_⟩
      · simp only [AnyFilt.sortTimes, hs, Except.map]
      · exact C12_time_reorder_composed Fs n y _ hperm

end times

/-! ## names and IDs -/

theorem append4_getElem_opt {β : Type} (A B C D : List β) :
    (∀ q, q < A.length → (A ++ B ++ C ++ D)[q]? = A[q]?) ∧
    (∀ r, r < B.length → (A ++ B ++ C ++ D)[A.length + r]? = B[r]?) ∧
    (∀ i, i < C.length → (A ++ B ++ C ++ D)[A.length + B.length + i]? = C[i]?) ∧
    (∀ k, (A ++ B ++ C ++ D)[A.length + B.length + C.length + k]? = D[k]?) := by
  refine ⟨fun q hq => ?_, fun r hr => ?_, fun i hi => ?_, fun k => ?_⟩
  · rw [List.append_assoc, List.append_assoc, List.getElem?_append_left hq]
  · rw [List.append_assoc, List.append_assoc, List.getElem?_append_right (by omega),
      Nat.add_sub_cancel_left, List.getElem?_append_left hr]
  · rw [List.getElem?_append_left (by simp only [List.length_append]; omega),
      List.getElem?_append_right (by simp only [List.length_append]; omega)]
    simp only [List.length_append, Nat.add_sub_cancel_left]
  · rw [List.getElem?_append_right (by simp only [List.length_append]; omega)]
    simp only [List.length_append, Nat.add_sub_cancel_left]

/-- The published names and IDs describe each position: lengths equal `n_parameters`; population
    parameters keep the population model's names (no ID); free noise scales are `Sigma <output>`;
    the position individual `s` reads for the regular dimension `d` (`C13_scatter`) carries the
    mechanistic parameter name of `d` and the ID of `s`; the position of `ε[s, r, j]` carries
    `<output r> Epsilon time <j+1>` and the ID of `s`. -/
theorem C13_names_ids (c : Cfg) (hs : c.Sound) (topNames mechNames outputs : List String)
    (ht : topNames.length = c.nPop) (hm : mechNames.length = c.nDim) (ho : outputs.length = c.R) :
    (getNames c topNames mechNames outputs).length = c.nParameters ∧
    (getId c).length = c.nParameters ∧
    (∀ q, q < c.nPop → (getNames c topNames mechNames outputs)[q]? = topNames[q]? ∧
      (getId c)[q]? = some none) ∧
    (c.sigmaFree = true → ∀ r, r < c.R →
      (getNames c topNames mechNames outputs)[c.nPop + r]? = (outputs[r]?).map (fun o => "Sigma " ++ o) ∧
      (getId c)[c.nPop + r]? = some none) ∧
    (∀ s d, s < c.nS → d < c.nDim → ¬ isSpecial c.specials d →
      (getNames c topNames mechNames outputs)[c.nTop + s * c.nHdim + (d - below c.specials d)]?
          = mechNames[d]? ∧
        (getId c)[c.nTop + s * c.nHdim + (d - below c.specials d)]? = some (some (s + 1))) ∧
    (∀ s r j, s < c.nS → r < c.R → j < c.T →
      (getNames c topNames mechNames outputs)[c.endBottom + s * (c.R * c.T) + r * c.T + j]?
          = (outputs[r]?).map (fun o => o ++ " Epsilon time " ++ toString (j + 1)) ∧
        (getId c)[c.endBottom + s * (c.R * c.T) + r * c.T + j]? = some (some (s + 1))) := by
  obtain ⟨hwf, hb, hsum⟩ := C13_special_dims c hs
  have hbn : ∀ sp ∈ c.specials, sp.b ≤ mechNames.length := fun sp h => by rw [hm]; exact (hb sp h).1
  obtain ⟨hblen, hbget⟩ := bottomNamesLoop_spec c.nS mechNames c.specials 0 hwf hbn (Nat.zero_le _)
  have hBL : (bottomNamesLoop mechNames c.specials 0).length = c.nHdim := by
    rw [hblen, hm]; omega
  -- the four parts of both lists
  set A := topNames with hA
  set B := (if c.sigmaFree then outputs.map (fun o => "Sigma " ++ o) else []) with hB
  set C := replicate' c.nS (bottomNamesLoop mechNames c.specials 0) with hC
  set Dd := replicate' c.nS (epsilonNames outputs c.T) with hD
  have hnames : getNames c topNames mechNames outputs = A ++ B ++ C ++ Dd := rfl
  have hAl : A.length = c.nPop := ht
  have hBl : B.length = (if c.sigmaFree then c.R else 0) := by
    rw [hB]; split <;> simp [ho]
  have hCl : C.length = c.nS * c.nHdim := by rw [hC, replicate'_length, hBL]
  have hEl : (epsilonNames outputs c.T).length = c.R * c.T := by rw [epsilonNames_length, ho]
  have hDl : Dd.length = c.nS * (c.R * c.T) := by rw [hD, replicate'_length, hEl]
  have hTop : c.nTop = A.length + B.length := by rw [hAl, hBl]; rfl
  have hEB : c.endBottom = A.length + B.length + C.length := by
    rw [hCl, ← hTop]; rfl
  set I1 : List (Option Nat) := List.replicate c.nTop none with hI1
  set I2 : List (Option Nat) := (List.range c.nS).flatMap (fun s => List.replicate c.nHdim (some (s + 1)))
    with hI2
  set I3 : List (Option Nat) :=
    (List.range c.nS).flatMap (fun s => List.replicate (c.R * c.T) (some (s + 1))) with hI3
  have hids : getId c = I1 ++ [] ++ I2 ++ I3 := by simp [getId, hI1, hI2, hI3]
  have hI1l : I1.length = c.nTop := by simp [hI1]
  have hI2l : I2.length = c.nS * c.nHdim := idBlock_length _ _
  have hI3l : I3.length = c.nS * (c.R * c.T) := idBlock_length _ _
  obtain ⟨n1, n2, n3, n4⟩ := append4_getElem_opt A B C Dd
  obtain ⟨i1, _, i3, i4⟩ := append4_getElem_opt I1 ([] : List (Option Nat)) I2 I3
  have hNlen : c.nParameters = c.nTop + c.nS * c.nHdim + c.nS * (c.R * c.T) := by
    simp only [Cfg.nParameters, Nat.mul_add, Nat.mul_comm c.T c.R, Nat.add_assoc]
  refine ⟨?_, ?_, fun q hq => ⟨?_, ?_⟩, fun hsf r hr => ⟨?_, ?_⟩, fun s d hs' hd hreg => ⟨?_, ?_⟩,
    fun s r j hs' hr hj => ⟨?_, ?_⟩⟩
  · rw [hnames]; simp only [List.length_append, hAl, hBl, hCl, hDl, hNlen, Cfg.nTop]
  · rw [hids]; simp only [List.length_append, List.length_nil, hI1l, hI2l, hI3l, hNlen]; omega
  · rw [hnames, n1 q (by omega)]
  · rw [hids, i1 q (by rw [hI1l]; unfold Cfg.nTop; omega)]
    simp [hI1, show q < c.nTop by unfold Cfg.nTop; omega]
  · rw [hnames, ← hAl, n2 r (by rw [hBl, hsf]; simpa using hr), hB, hsf]
    simp
  · rw [hids, i1 (c.nPop + r) (by rw [hI1l]; simp [Cfg.nTop, hsf]; omega)]
    simp [hI1, Cfg.nTop, hsf, hr]
  · -- individual block
    have hrank : d - below c.specials d < c.nHdim := by
      have h1' := rank_succ c.nS c.specials hwf d
      have hnot : spB c.specials d = false := by
        rw [Bool.eq_false_iff]; exact fun hc => hreg ((spB_iff _ d).1 hc)
      rw [hnot] at h1'
      simp only [Bool.false_eq_true, if_false] at h1'
      have h2' := rank_mono c.nS c.specials hwf (d + 1) c.nDim (by omega)
      omega
    have hlt : s * c.nHdim + (d - below c.specials d) < c.nS * c.nHdim := by
      have : s * c.nHdim + c.nHdim ≤ c.nS * c.nHdim := by
        rw [← Nat.succ_mul]; exact Nat.mul_le_mul_right _ hs'
      omega
    rw [hnames, hTop, Nat.add_assoc, n3 _ (by rw [hCl]; exact hlt), hC]
    have := replicate'_getElem? (bottomNamesLoop mechNames c.specials 0) c.nS s
      (d - below c.specials d) hs' (by rw [hBL]; exact hrank)
    rw [hBL] at this
    rw [this]
    have := hbget d (Nat.zero_le _) (by rw [hm]; exact hd) hreg
    simpa using this
  · have hrank : d - below c.specials d < c.nHdim := by
      have h1' := rank_succ c.nS c.specials hwf d
      have hnot : spB c.specials d = false := by
        rw [Bool.eq_false_iff]; exact fun hc => hreg ((spB_iff _ d).1 hc)
      rw [hnot] at h1'
      simp only [Bool.false_eq_true, if_false] at h1'
      have h2' := rank_mono c.nS c.specials hwf (d + 1) c.nDim (by omega)
      omega
    have hlt : s * c.nHdim + (d - below c.specials d) < c.nS * c.nHdim := by
      have : s * c.nHdim + c.nHdim ≤ c.nS * c.nHdim := by
        rw [← Nat.succ_mul]; exact Nat.mul_le_mul_right _ hs'
      omega
    have e : c.nTop + s * c.nHdim + (d - below c.specials d)
        = I1.length + ([] : List (Option Nat)).length + (s * c.nHdim + (d - below c.specials d)) := by
      rw [hI1l]; simp; omega
    rw [hids, e, i3 _ (by rw [hI2l]; exact hlt)]
    exact idBlock_getElem? c.nHdim c.nS s _ hs' hrank
  · -- noise block
    have hrj : r * c.T + j < c.R * c.T := by
      have : r * c.T + c.T ≤ c.R * c.T := by rw [← Nat.succ_mul]; exact Nat.mul_le_mul_right _ hr
      omega
    have e : c.endBottom + s * (c.R * c.T) + r * c.T + j
        = A.length + B.length + C.length + (s * (c.R * c.T) + (r * c.T + j)) := by rw [hEB]; omega
    rw [hnames, e, n4, hD]
    have := replicate'_getElem? (epsilonNames outputs c.T) c.nS s (r * c.T + j) hs' (by rw [hEl]; exact hrj)
    rw [hEl] at this
    rw [this]
    exact epsilonNames_getElem? c.T outputs r j (by rw [ho]; exact hr) hj
  · have hrj : r * c.T + j < c.R * c.T := by
      have : r * c.T + c.T ≤ c.R * c.T := by rw [← Nat.succ_mul]; exact Nat.mul_le_mul_right _ hr
      omega
    have e : c.endBottom + s * (c.R * c.T) + r * c.T + j
        = I1.length + ([] : List (Option Nat)).length + I2.length + (s * (c.R * c.T) + (r * c.T + j)) := by
      rw [hI1l, hI2l]; simp [Cfg.endBottom]; omega
    rw [hids, e, i4]
    exact idBlock_getElem? (c.R * c.T) c.nS s _ hs' hrj

/-! ## gradient -/

/-- Chain-rule assembly of `evaluateS1`.  Along ANY differentiable curve `x(t)` of parameter vectors
    the value has derivative `Σ_q evaluateS1(x(t0))[q] · x'_q` — in particular (curve = one
    coordinate) every entry of the returned vector is the partial derivative w.r.t. that entry.
    Hypotheses (what C13 takes from elsewhere, each along the curve):
    * `hprior`  — the prior's gradient (pints);
    * `hpsi`, `hmech` — individual parameters are differentiable and `mechS` are the mechanistic
      sensitivities (solver);
    * `hfilt`   — the filter's sensitivities are its derivative (C12);
    * `hpop`, `hlink` — `population_model.compute_sensitivities(θ, B, dlogp_dpsi = g)` returns the
      gradient of `population density + g · ψ` w.r.t. `(θ, B)` (C05 / C03).
    The proof supplies the routing: which noise scale / noise realisation / individual parameter each
    simulated measurement depends on, and `_remove_duplicates` as the transpose of
    `_reshape_bottom_parameters` (`C13_scatter_gather`). -/
theorem C13_grad {τ : Type} (c : Cfg) (hs : c.Sound) (E : Env τ ℝ) (G : GradEnv ℝ)
    (filt : AnyFilt ℝ) (sorted : Nat → τ) (pr : (Nat → ℝ) → ℝ)
    (pp : (Nat → ℝ) → (Nat → Nat → ℝ) → ℝ) (x : ℝ → Nat → ℝ) (x' : Nat → ℝ) (t0 : ℝ)
    (psi' : Nat → Nat → ℝ) (P' : ℝ)
    (hx : ∀ q, HasDerivAt (fun t => x t q) (x' q) t0)
    (hprior : HasDerivAt (fun t => pr (x t)) (∑ q ∈ range c.nTop, G.priorGrad q * x' q) t0)
    (hpsi : ∀ s, s < c.nS → ∀ k, k < c.nDim → HasDerivAt (fun t =>
      E.indiv (popBlock c (x t)) (reshapeBottom c (popBlock c (x t)) (bottomBlock c (x t))) s k)
      (psi' s k) t0)
    (hmech : ∀ s, s < c.nS → ∀ r, r < c.R → ∀ j, j < c.T → HasDerivAt (fun t =>
      E.mech (E.indiv (popBlock c (x t)) (reshapeBottom c (popBlock c (x t)) (bottomBlock c (x t))) s)
        r (sorted j)) (∑ k ∈ range c.nDim, G.mechS s j r k * psi' s k) t0)
    (hpop : HasDerivAt (fun t => pp (popBlock c (x t))
      (reshapeBottom c (popBlock c (x t)) (bottomBlock c (x t)))) P' t0)
    (hfilt : ∀ y' : Nat → Nat → Nat → ℝ,
      (∀ s, s < c.nS → ∀ r, r < c.R → ∀ j, j < c.T →
        HasDerivAt (fun t => simulated c E sorted (x t) s r j) (y' s r j) t0) →
      HasDerivAt (fun t => filt.val c.nS (simulated c E sorted (x t)))
        (∑ s ∈ range c.nS, ∑ r ∈ range c.R, ∑ j ∈ range c.T,
          filt.grad c.nS (simulated c E sorted (x t0)) s r j * y' s r j) t0)
    (hlink :
      ∑ i ∈ range c.nPop,
          G.dtheta (dsDpsi c E G (filt.grad c.nS (simulated c E sorted (x t0))) (x t0)) i * x' i
        + ∑ s ∈ range c.nS, ∑ d ∈ range c.nDim,
            G.dbottom (dsDpsi c E G (filt.grad c.nS (simulated c E sorted (x t0))) (x t0)) s d
              * reshapeBottom c (popBlock c x') (bottomBlock c x') s d
        = P' + ∑ s ∈ range c.nS, ∑ k ∈ range c.nDim,
            dsDpsi c E G (filt.grad c.nS (simulated c E sorted (x t0))) (x t0) s k * psi' s k) :
    HasDerivAt (fun t => callRaw c E (pr (x t))
        (pp (popBlock c (x t)) (reshapeBottom c (popBlock c (x t)) (bottomBlock c (x t))))
        filt sorted (x t))
      (∑ q ∈ range c.nParameters, gradRaw c E G filt sorted (x t0) q * x' q) t0 := by
  -- abbreviations at t0
  set x0 := x t0 with hx0
  set y0 := simulated c E sorted x0 with hy0
  set fg := filt.grad c.nS y0 with hfg
  set g := dsDpsi c E G fg x0 with hg
  set sg0 := sigmaOf c E.sigmaFixed x0 with hsg0
  set ep0 := epsBlock c x0 with hep0
  let sg' : Nat → ℝ := fun r => if c.sigmaFree then x' (c.nPop + r) else 0
  let ep' : Nat → Nat → Nat → ℝ := fun s r j => x' (c.endBottom + s * (c.R * c.T) + r * c.T + j)
  let M' : Nat → Nat → Nat → ℝ := fun s r j => ∑ k ∈ range c.nDim, G.mechS s j r k * psi' s k
  let Y' : Nat → Nat → Nat → ℝ := fun s r j =>
    if c.logScale then M' s r j * Real.exp (sg0 r * ep0 s r j)
        + y0 s r j * (sg' r * ep0 s r j + sg0 r * ep' s r j)
      else M' s r j + (sg' r * ep0 s r j + sg0 r * ep' s r j)
  -- the simulated measurements along the curve
  have hy : ∀ s, s < c.nS → ∀ r, r < c.R → ∀ j, j < c.T →
      HasDerivAt (fun t => simulated c E sorted (x t) s r j) (Y' s r j) t0 := by
    intro s hs' r hr j hj
    exact noisy_hasDerivAt c.logScale _ _ _ _ _ _ t0 (hmech s hs' r hr j hj)
      (sigmaOf_hasDerivAt c E.sigmaFixed x x' t0 hx r) (hx _)
  have hF := hfilt Y' hy
  have hN := noiseTerm_hasDerivAt c x x' t0 hx
  have htot := ((hprior.add hpop).add hN).add hF
  unfold callRaw
  refine htot.congr_deriv ?_
  -- the returned vector paired with x'
  have hEB : c.nPop ≤ c.nTop := by unfold Cfg.nTop; omega
  have hgrad : ∑ q ∈ range c.nParameters, gradRaw c E G filt sorted x0 q * x' q
      = ∑ q ∈ range c.nTop, x' q * sensBefore c E G fg y0 x0 q
        + ∑ k ∈ range (c.nS * (c.T * c.R)),
            x' (c.endBottom + k) * sensBefore c E G fg y0 x0 (c.endBottom + k)
        + ∑ s ∈ range c.nS, ∑ d ∈ range c.nDim,
            reshapeBottom c (popBlock c x') (bottomBlock c x') s d * G.dbottom g s d := by
    have : ∀ q, gradRaw c E G filt sorted x0 q * x' q
        = x' q * removeDuplicates c (sensBefore c E G fg y0 x0) (G.dbottom g) q := by
      intro q; rw [mul_comm]; rfl
    simp only [this]
    rw [C13_scatter_gather c hs x' _ _, rhs_split]
  rw [hgrad]
  -- population + noise-scale block
  have htop : ∑ q ∈ range c.nTop, x' q * sensBefore c E G fg y0 x0 q
      = ∑ q ∈ range c.nTop, G.priorGrad q * x' q
        + ∑ i ∈ range c.nPop, G.dtheta g i * x' i
        + ∑ r ∈ range c.R, sg' r * ∑ s ∈ range c.nS, ∑ j ∈ range c.T,
            (if c.logScale then fg s r j * ep0 s r j * y0 s r j else fg s r j * ep0 s r j) := by
    have hn : c.nTop = c.nPop + (c.nTop - c.nPop) := by omega
    rw [hn, Finset.sum_range_add, Finset.sum_range_add]
    have e1 : ∑ q ∈ range c.nPop, x' q * sensBefore c E G fg y0 x0 q
        = ∑ q ∈ range c.nPop, G.priorGrad q * x' q + ∑ i ∈ range c.nPop, G.dtheta g i * x' i := by
      rw [← Finset.sum_add_distrib]
      exact Finset.sum_congr rfl fun q hq => by
        rw [sensBefore_pop c E G fg y0 x0 q (mem_range.mp hq)]; ring
    have e2 : ∑ r ∈ range (c.nTop - c.nPop), x' (c.nPop + r) * sensBefore c E G fg y0 x0 (c.nPop + r)
        = ∑ r ∈ range (c.nTop - c.nPop), G.priorGrad (c.nPop + r) * x' (c.nPop + r)
          + ∑ r ∈ range c.R, sg' r * ∑ s ∈ range c.nS, ∑ j ∈ range c.T,
              (if c.logScale then fg s r j * ep0 s r j * y0 s r j else fg s r j * ep0 s r j) := by
      cases hsf : c.sigmaFree with
      | false =>
        have : c.nTop - c.nPop = 0 := by simp [Cfg.nTop, hsf]
        simp [this, sg', hsf]
      | true =>
        have : c.nTop - c.nPop = c.R := by simp [Cfg.nTop, hsf]
        rw [this, ← Finset.sum_add_distrib]
        refine Finset.sum_congr rfl fun r hr => ?_
        rw [sensBefore_sigma c E G fg y0 x0 r (by simp [Cfg.nTop, hsf]; exact mem_range.mp hr)]
        simp only [sg', hsf, if_true]
        ring
    rw [e1, e2]
    ring
  -- noise block
  have heps : ∑ k ∈ range (c.nS * (c.T * c.R)),
        x' (c.endBottom + k) * sensBefore c E G fg y0 x0 (c.endBottom + k)
      = -(∑ s ∈ range c.nS, ∑ r ∈ range c.R, ∑ j ∈ range c.T, ep0 s r j * ep' s r j)
        + ∑ s ∈ range c.nS, ∑ r ∈ range c.R, ∑ j ∈ range c.T,
            (if c.logScale then fg s r j * y0 s r j * sg0 r else fg s r j * sg0 r) * ep' s r j := by
    rw [sum_eps_block, ← Finset.sum_neg_distrib, ← Finset.sum_add_distrib]
    refine Finset.sum_congr rfl fun s _ => ?_
    rw [← Finset.sum_neg_distrib, ← Finset.sum_add_distrib]
    refine Finset.sum_congr rfl fun r hr => ?_
    rw [← Finset.sum_neg_distrib, ← Finset.sum_add_distrib]
    refine Finset.sum_congr rfl fun j hj => ?_
    rw [sensBefore_eps c E G fg y0 x0 s r j (mem_range.mp hr) (mem_range.mp hj)]
    simp only [ep', Nat.add_assoc]
    ring
  -- the filter term: route every simulated measurement to psi, sigma and epsilon
  have hFsum : ∑ s ∈ range c.nS, ∑ r ∈ range c.R, ∑ j ∈ range c.T, fg s r j * Y' s r j
      = ∑ s ∈ range c.nS, ∑ k ∈ range c.nDim, g s k * psi' s k
        + ∑ r ∈ range c.R, sg' r * ∑ s ∈ range c.nS, ∑ j ∈ range c.T,
            (if c.logScale then fg s r j * ep0 s r j * y0 s r j else fg s r j * ep0 s r j)
        + ∑ s ∈ range c.nS, ∑ r ∈ range c.R, ∑ j ∈ range c.T,
            (if c.logScale then fg s r j * y0 s r j * sg0 r else fg s r j * sg0 r) * ep' s r j := by
    have hgs : ∀ s, ∑ k ∈ range c.nDim, g s k * psi' s k
        = ∑ r ∈ range c.R, ∑ j ∈ range c.T,
            (if c.logScale then fg s r j * Real.exp (sg0 r * ep0 s r j) else fg s r j) * M' s r j := by
      intro s
      simp only [hg, dsDpsi, isum_eq, exp_real, M', Finset.sum_mul, Finset.mul_sum]
      rw [Finset.sum_comm]
      refine Finset.sum_congr rfl fun r _ => ?_
      rw [Finset.sum_comm]
      refine Finset.sum_congr rfl fun j _ => Finset.sum_congr rfl fun k _ => ?_
      ring
    have hsw : ∑ r ∈ range c.R, sg' r * ∑ s ∈ range c.nS, ∑ j ∈ range c.T,
          (if c.logScale then fg s r j * ep0 s r j * y0 s r j else fg s r j * ep0 s r j)
        = ∑ s ∈ range c.nS, ∑ r ∈ range c.R, ∑ j ∈ range c.T,
          sg' r * (if c.logScale then fg s r j * ep0 s r j * y0 s r j else fg s r j * ep0 s r j) := by
      simp only [Finset.mul_sum]
      rw [Finset.sum_comm]
    rw [hsw, Finset.sum_congr rfl (fun s _ => hgs s), ← Finset.sum_add_distrib,
      ← Finset.sum_add_distrib]
    refine Finset.sum_congr rfl fun s _ => ?_
    rw [← Finset.sum_add_distrib, ← Finset.sum_add_distrib]
    refine Finset.sum_congr rfl fun r _ => ?_
    rw [← Finset.sum_add_distrib, ← Finset.sum_add_distrib]
    refine Finset.sum_congr rfl fun j _ => ?_
    simp only [Y']
    cases c.logScale <;> simp <;> ring
  have hlink' : ∑ i ∈ range c.nPop, G.dtheta g i * x' i
      + ∑ s ∈ range c.nS, ∑ d ∈ range c.nDim,
          reshapeBottom c (popBlock c x') (bottomBlock c x') s d * G.dbottom g s d
      = P' + ∑ s ∈ range c.nS, ∑ k ∈ range c.nDim, g s k * psi' s k := by
    rw [← hlink]
    congr 1
    exact Finset.sum_congr rfl fun s _ => Finset.sum_congr rfl fun d _ => mul_comm _ _
  rw [htop, heps, hFsum]
  linarith [hlink']

/-- one coordinate: pairing the returned vector with the unit velocity `e_p` picks entry `p` -/
theorem C13_grad_entry (N p : Nat) (hp : p < N) (v : Nat → ℝ) :
    ∑ q ∈ range N, v q * (if q = p then 1 else 0) = v p := by
  simp [Finset.sum_ite_eq', hp]

/-! ## the constructor leaves the caller's filter object alone -/

/-- the constructor on the store = `construct` on the caller's filter, result in a NEW cell -/
theorem constructHeap_eq {τ : Type} (lt : τ → τ → Bool) (dflt : τ) (h : Heap ℝ) (p : Nat)
    (times : List τ) :
    constructHeap lt dflt h p times =
      match h[p]? with
      | none => .error .indexError
      | some f =>
        match construct lt dflt f times with
        | .error e => .error e
        | .ok (own, st) => .ok (h ++ [own], h.length, st) := by
  unfold constructHeap
  cases hp : h[p]? with
  | none => rfl
  | some f =>
    simp only [construct]
    by_cases hl : times.length ≠ f.T
    · simp [hl]
    · simp only [hl, if_false]
      unfold sortInPlace
      have hq : (h ++ [f])[h.length]? = some f := by simp
      rw [hq]
      have hset : ∀ g : AnyFilt ℝ, (h ++ [f]).set h.length g = h ++ [g] := by
        intro g
        rw [List.set_append_right _ _ (Nat.le_refl _)]
        simp
      cases hs : f.sortTimes (argsortBy lt times dflt) with
      | error e => simp [hs]
      | ok g => simp [hs, hset]

/-- `__init__` does not change any object that existed before the call — in particular not the filter
    handed in — and its own filter is what `construct` (`C13_value_times`) describes -/
theorem C13_constructor_keeps_arguments {τ : Type} (lt : τ → τ → Bool) (dflt : τ) (h h' : Heap ℝ)
    (p q : Nat) (times : List τ) (st : Nat → τ)
    (hc : constructHeap lt dflt h p times = .ok (h', q, st)) :
    q = h.length ∧ (∀ i, i < h.length → h'[i]? = h[i]?) ∧
    ∃ f own, h[p]? = some f ∧ construct lt dflt f times = .ok (own, st) ∧ h'[q]? = some own := by
  rw [constructHeap_eq] at hc
  cases hp : h[p]? with
  | none => rw [hp] at hc; cases hc
  | some f =>
    simp only [hp] at hc
    cases hcon : construct lt dflt f times with
    | error e => simp only [hcon] at hc; cases hc
    | ok r =>
      obtain ⟨own, st'⟩ := r
      simp only [hcon, Except.ok.injEq, Prod.mk.injEq] at hc
      obtain ⟨rfl, rfl, rfl⟩ := hc
      refine ⟨rfl, fun i hi => List.getElem?_append_left hi, f, own, rfl, hcon, by simp⟩

/-- any number of posteriors can be built from the same filter object: the second constructor call
    with the same arguments succeeds and its own filter and sorted times equal the first call's -/
theorem C13_constructor_repeatable {τ : Type} (lt : τ → τ → Bool) (dflt : τ) (h h' : Heap ℝ)
    (p q : Nat) (times : List τ) (st : Nat → τ)
    (hc : constructHeap lt dflt h p times = .ok (h', q, st)) :
    ∃ h'' own, constructHeap lt dflt h' p times = .ok (h'', h'.length, st) ∧
      h'[q]? = some own ∧ h''[h'.length]? = some own := by
  obtain ⟨hq, hold, f, own, hp, hcon, hown⟩ :=
    C13_constructor_keeps_arguments lt dflt h h' p q times st hc
  have hplt : p < h.length := by
    rcases Nat.lt_or_ge p h.length with hlt | hge
    · exact hlt
    · rw [List.getElem?_eq_none hge] at hp; cases hp
  have hp' : h'[p]? = some f := by rw [hold p hplt, hp]
  refine ⟨h' ++ [own], own, ?_, hown, by simp⟩
  rw [constructHeap_eq, hp']
  simp only [hcon]

/-- why the order of the two statements matters: with "sort the caller's object, then copy" (NOT chi)
    a second posterior built from the same filter and the same unsorted times gets its measurements
    permuted twice.  One measured individual, one observable, times `[1, 0]`, measurement `j` at
    position `j`. -/
theorem C13_constructor_alias_counterexample :
    let F : Filt ℝ := ⟨.gauss, 1, 1, 2, fun _ _ j => some (j : ℝ)⟩
    let lt : Nat → Nat → Bool := fun a b => decide (a < b)
    ∃ h1 q1 st1 h2 q2 st2 F1 F2,
      constructHeapAliased lt 0 [AnyFilt.simple F] 0 [1, 0] = .ok (h1, q1, st1) ∧
      constructHeapAliased lt 0 h1 0 [1, 0] = .ok (h2, q2, st2) ∧
      h1[q1]? = some (.simple F1) ∧ h2[q2]? = some (.simple F2) ∧
      F1.obs 0 0 0 = some 1 ∧ F2.obs 0 0 0 = some 0 := by
  intro F lt
  have hord : argsortBy lt [1, 0] 0 = [1, 0] := by
    simp [lt, argsortBy, List.mergeSort, List.range, List.range.loop,
      List.MergeSort.Internal.splitInTwo]
  simp [constructHeapAliased, sortInPlace, hord, AnyFilt.sortTimes, AnyFilt.T, Filt.sortTimes, hasDup,
    Except.map, F]

/-! ## array / list arguments: the posterior keeps the contents it was built with -/

/-- no later write of the caller into OTHER cells and no later constructor call changes a cell -/
theorem bufRun_keeps {γ : Type} :
    ∀ (evs : List (BufEv γ)) (h : Buffers γ) (k : Nat) (a : List γ), h[k]? = some a →
      (∀ e ∈ evs, e.writes k = false) → (bufRun h evs)[k]? = some a := by
  intro evs
  induction evs with
  | nil => intro h k a hk _; simpa [bufRun] using hk
  | cons e es ih =>
    intro h k a hk hno
    have hklt : k < h.length := by
      rcases Nat.lt_or_ge k h.length with hlt | hge
      · exact hlt
      · rw [List.getElem?_eq_none hge] at hk; cases hk
    have he := hno e (by simp)
    have hes : ∀ e' ∈ es, e'.writes k = false := fun e' he' => hno e' (by simp [he'])
    have hstep : (bufStep h e)[k]? = some a := by
      cases e with
      | construct p => simp only [bufStep]; rw [List.getElem?_append_left hklt]; exact hk
      | write j v =>
        have hj : j ≠ k := by
          intro hjk; subst hjk; simp [BufEv.writes] at he
        simp only [bufStep]
        rw [List.getElem?_set_ne hj]; exact hk
    have := ih (bufStep h e) k a hstep hes
    simpa [bufRun] using this

/-- the constructor's copy of an array / list argument (times, sigma, covariates) is a NEW cell holding
    the argument's contents at the moment of the call, and it holds them at every later moment: whatever
    the caller writes into its own containers afterwards (it has no handle on the new cell) and however
    many further posteriors are built from them -/
theorem C13_constructor_keeps_array_arguments {γ : Type} (h : Buffers γ) (p : Nat) (a : List γ)
    (hp : h[p]? = some a) (later : List (BufEv γ))
    (hcaller : ∀ e ∈ later, e.writes h.length = false) :
    (bufStep h (.construct p)).length = h.length + 1 ∧
    (∀ i, i < h.length → (bufStep h (.construct p))[i]? = h[i]?) ∧
    (bufRun h (.construct p :: later))[h.length]? = some a := by
  refine ⟨by simp [bufStep], fun i hi => by simp [bufStep, List.getElem?_append_left hi], ?_⟩
  have : bufRun h (.construct p :: later) = bufRun (h ++ [a]) later := by
    simp [bufRun, bufStep, hp]
  rw [this]
  exact bufRun_keeps later _ _ _ (by simp) hcaller

theorem bufRun_cohorts {γ : Type} :
    ∀ (vs : List (List γ)) (b : List γ) (t : Buffers γ),
      ∃ b', bufRun (b :: t) (cohorts vs) = b' :: (t ++ vs) := by
  intro vs
  induction vs with
  | nil => intro b t; exact ⟨b, by simp [bufRun, cohorts]⟩
  | cons v vs ih =>
    intro b t
    obtain ⟨b', hb'⟩ := ih v (t ++ [v])
    refine ⟨b', ?_⟩
    have : bufRun (b :: t) (cohorts (v :: vs)) = bufRun (v :: (t ++ [v])) (cohorts vs) := by
      simp [bufRun, cohorts, bufStep]
    rw [this, hb']
    simp

/-- one posterior per cohort from ONE re-used buffer: after any number of cohorts the `k`-th posterior's
    own array holds the `k`-th cohort's values -/
theorem C13_cohort_posteriors_keep_their_covariates {γ : Type} (buf : List γ) (vs : List (List γ))
    (k : Nat) : (bufRun [buf] (cohorts vs))[1 + k]? = vs[k]? := by
  obtain ⟨b', hb'⟩ := bufRun_cohorts vs buf []
  rw [hb']
  simp [Nat.add_comm 1 k]

/-- why it has to be `np.array` and not `np.asarray`: with the caller's container kept (NOT chi) both
    cohorts' posteriors hold the one handle `0`, whose contents are the second cohort's values -/
theorem C13_asarray_counterexample :
    let evs : List (BufEv Nat) := cohorts [[1], [2]]
    (bufRun [[0]] evs)[1]? = some [1] ∧ (bufRun [[0]] evs)[2]? = some [2] ∧
    bufRunAliased ([[0]], []) evs = ([[2]], [0, 0]) := by
  decide

/-! ## call histories: results stay what they were -/

theorem hist_append {γ : Type} (F : List γ → List γ) (h : Arrays γ) (a b : List (Ev γ)) :
    hist F h (a ++ b) = hist F (hist F h a) b := by
  simp [hist, List.foldl_append]

/-- no later `evaluateS1` / `__call__` on the posterior, and no write of the caller into OTHER arrays,
    changes an array that was handed out before -/
theorem C13_history_keeps_results {γ : Type} (F : List γ → List γ) :
    ∀ (evs : List (Ev γ)) (h : Arrays γ) (k : Nat) (a : List γ), h[k]? = some a →
      (∀ e ∈ evs, e.touches k = false) → (hist F h evs)[k]? = some a := by
  intro evs
  induction evs with
  | nil => intro h k a hk _; simpa [hist] using hk
  | cons e es ih =>
    intro h k a hk hno
    have hklt : k < h.length := by
      rcases Nat.lt_or_ge k h.length with hlt | hge
      · exact hlt
      · rw [List.getElem?_eq_none hge] at hk; cases hk
    have he := hno e (by simp)
    have hes : ∀ e' ∈ es, e'.touches k = false := fun e' he' => hno e' (by simp [he'])
    have hstep : (histStep F h e)[k]? = some a := by
      cases e with
      | s1 x => simp only [histStep]; rw [List.getElem?_append_left hklt]; exact hk
      | call x => simpa [histStep] using hk
      | scribble j v =>
        have hj : j ≠ k := by
          intro hjk; subst hjk; simp [Ev.touches] at he
        simp only [histStep]
        rw [List.getElem?_set_ne hj]; exact hk
    have := ih (histStep F h e) k a hstep hes
    simpa [hist] using this

/-- whatever happened to the object before, `evaluateS1(x)` hands out a NEW array holding `F x` -/
theorem C13_s1_returns_fresh {γ : Type} (F : List γ → List γ) (h : Arrays γ) (pre : List (Ev γ))
    (x : List γ) :
    (hist F h (pre ++ [.s1 x])).length = (hist F h pre).length + 1 ∧
    (hist F h (pre ++ [.s1 x]))[(hist F h pre).length]? = some (F x) := by
  rw [hist_append]
  simp [hist, histStep]

/-- the array returned by `evaluateS1(x)` holds `F x` at every later moment: whatever was called
    before and whatever is called afterwards (the caller not writing into that array itself) -/
theorem C13_results_held {γ : Type} (F : List γ → List γ) (h : Arrays γ) (pre post : List (Ev γ))
    (x : List γ) (hpost : ∀ e ∈ post, e.touches (hist F h pre).length = false) :
    (hist F h (pre ++ Ev.s1 x :: post))[(hist F h pre).length]? = some (F x) := by
  have : pre ++ Ev.s1 x :: post = (pre ++ [Ev.s1 x]) ++ post := by simp
  rw [this, hist_append]
  exact C13_history_keeps_results F post _ _ _ (C13_s1_returns_fresh F h pre x).2 hpost

/-- … for the posterior: entry `q` of the array a caller got from `evaluateS1(x)` is, at any later
    moment, `gradRaw … x q` — which `C13_grad` identifies with the derivative at `x` -/
theorem C13_results_held_grad {τ : Type} (c : Cfg) (E : Env τ ℝ) (G : GradEnv ℝ) (filt : AnyFilt ℝ)
    (sorted : Nat → τ) (h : Arrays ℝ) (pre post : List (Ev ℝ)) (x : List ℝ) (q : Nat)
    (hq : q < c.nParameters)
    (hpost : ∀ e ∈ post, e.touches (hist (gradArray c E G filt sorted 0) h pre).length = false) :
    ∃ a, (hist (gradArray c E G filt sorted 0) h (pre ++ Ev.s1 x :: post))[
        (hist (gradArray c E G filt sorted 0) h pre).length]? = some a ∧
      a[q]? = some (gradRaw c E G filt sorted (fun i => x.getD i 0) q) := by
  refine ⟨_, C13_results_held _ h pre post x hpost, ?_⟩
  simp [gradArray, hq]

/-- why the allocation sits inside `evaluateS1`: with ONE array allocated in `__init__` and returned
    by every call (NOT chi) the gradient a caller holds for `x₁` reads as the one of `x₂` after the next
    call, and as a mixture after a call that exits early (here: writes one entry only) -/
theorem C13_shared_buffer_counterexample :
    let F : List Nat → List Nat := fun x => x
    let W : List Nat → List Nat := fun x => if x.head? = some 0 then x.take 1 else x
    (hist F [] [.s1 [1, 2], .s1 [3, 4], .s1 [0, 7]])[0]? = some (F [1, 2]) ∧
    histShared W [0, 0] [.s1 [1, 2], .s1 [3, 4]] = [3, 4] ∧
    histShared W [0, 0] [.s1 [1, 2], .s1 [0, 7]] = [0, 2] := by
  decide

end ChiModel
