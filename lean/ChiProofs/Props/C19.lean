import ChiModel.Purity
import ChiModel.Ownership
set_option linter.unusedSectionVars false
set_option linter.unusedSimpArgs false
set_option linter.unusedVariables false
/-!
# C19 — evaluations are pure: no hidden state, no input mutation
-/
namespace ChiModel.Purity
open ChiModel.Reduced
variable {α β : Type}

theorem fill_writeFree : ∀ (c : List (Bool × α)) (w free : List α),
    fill (writeFree c w) free = fill c free
  | [], _, _ => by simp [writeFree, fill]
  | (true, v) :: cs, w, free => by simp [writeFree, fill, fill_writeFree cs w free]
  | (false, g) :: cs, x :: w, [] => by simp [writeFree, fill]
  | (false, g) :: cs, x :: w, y :: free => by simp [writeFree, fill, fill_writeFree cs w free]
  | (false, g) :: cs, [], [] => by simp [writeFree, fill]
  | (false, g) :: cs, [], y :: free => by simp [writeFree, fill, fill_writeFree cs [] free]

theorem mask_writeFree : ∀ (c : List (Bool × α)) (w : List α),
    (writeFree c w).map (·.1) = c.map (·.1)
  | [], _ => by simp [writeFree]
  | (true, v) :: cs, w => by simp [writeFree, mask_writeFree cs w]
  | (false, g) :: cs, x :: w => by simp [writeFree, mask_writeFree cs w]
  | (false, g) :: cs, [] => by simp [writeFree, mask_writeFree cs []]

theorem fixed_writeFree : ∀ (c : List (Bool × α)) (w : List α),
    (writeFree c w).filter (·.1) = c.filter (·.1)
  | [], _ => by simp [writeFree]
  | (true, v) :: cs, w => by simp [writeFree, fixed_writeFree cs w]
  | (false, g) :: cs, x :: w => by simp [writeFree, fixed_writeFree cs w]
  | (false, g) :: cs, [] => by simp [writeFree, fixed_writeFree cs []]

/-- hidden states that differ only in the contents of free (never-read) buffer cells -/
def Equiv (s t : St α) : Prop :=
  match s, t with
  | none, none => True
  | some c, some d => c.map (·.1) = d.map (·.1) ∧ ∀ free, fill c free = fill d free
  | _, _ => False

theorem equiv_refl (s : St α) : Equiv s s := by
  cases s <;> simp [Equiv]

/-- C19 (one evaluation): the hidden state after an evaluation is equivalent to the state before
    (same mask, same fixed values — only free cells of the buffer were overwritten), and the
    result depends on the equivalence class only. -/
theorem C19_eval_preserves_equiv (s s' : St α) (F : List α → β) (free : List α) (h : Equiv s s') :
    Equiv (evalStep s F free).1 s ∧ (evalStep s' F free).2 = (evalStep s F free).2 := by
  cases s with
  | none => cases s' with
    | none => simp [evalStep, Equiv]
    | some d => simp [Equiv] at h
  | some c => cases s' with
    | none => simp [Equiv] at h
    | some d =>
      simp only [evalStep, Equiv] at h ⊢
      exact ⟨⟨mask_writeFree c free, fun fr => fill_writeFree c free fr⟩, by rw [h.2 free]⟩

theorem equiv_trans (a b c : St α) (h1 : Equiv a b) (h2 : Equiv b c) : Equiv a c := by
  cases a <;> cases b <;> cases c <;> simp [Equiv] at * 
  exact ⟨h1.1.trans h2.1, fun fr => (h1.2 fr).trans (h2.2 fr)⟩

theorem equiv_symm (a b : St α) (h : Equiv a b) : Equiv b a := by
  cases a <;> cases b <;> simp [Equiv] at *
  exact ⟨h.1.symm, fun fr => (h.2 fr).symm⟩

theorem evalSeq_spec (F : List α → β) : ∀ (frees : List (List α)) (s s0 : St α), Equiv s s0 →
    (evalSeq s F frees).2 = frees.map (evalFresh s0 F) ∧ Equiv (evalSeq s F frees).1 s0
  | [], s, s0, h => by simp [evalSeq, h]
  | free :: rest, s, s0, h => by
    have h1 := C19_eval_preserves_equiv s s0 F free h
    have hs : Equiv (evalStep s F free).1 s0 := equiv_trans _ _ _ h1.1 h
    have ih := evalSeq_spec F rest (evalStep s F free).1 s0 hs
    simp only [evalSeq, List.map_cons]
    refine ⟨?_, ih.2⟩
    rw [ih.1]
    simp only [evalFresh, h1.2]

/-- C19 (any sequence of evaluations): the k-th result of ANY sequence of evaluations on one
    object equals what a single evaluation of the untouched object returns for that input —
    earlier evaluations leave no observable trace; and the object ends in a state equivalent to the
    one it started in. -/
theorem C19_sequence_is_pointwise (s : St α) (F : List α → β) (frees : List (List α)) :
    (evalSeq s F frees).2 = frees.map (evalFresh s F) ∧ Equiv (evalSeq s F frees).1 s :=
  evalSeq_spec F frees s s (equiv_refl s)

/-- C19 (interleaving with other evaluation kinds): value, pointwise values, sensitivities and
    seeded samples are different functions `F`, `G` of the same full vector; interleaving them
    changes nothing. -/
theorem C19_interleave {γ : Type} (s : St α) (F : List α → β) (G : List α → γ) (x y : List α) :
    (evalStep (evalStep s G y).1 F x).2 = (evalStep s F x).2 := by
  have h := C19_eval_preserves_equiv s s G y (equiv_refl s)
  exact (C19_eval_preserves_equiv s (evalStep s G y).1 F x (equiv_symm _ _ h.1)).2

/-- C19 (sensitivity switch): what the likelihood asks of the solver depends on the operation
    only, not on what was evaluated before. -/
theorem C19_switch_history_free (flag flag' : Bool) (op : LLOp) :
    llRequests flag op = llRequests flag' op := by
  cases op <;> rfl

/-- C19 (results own their data, repaired version): a result returned earlier reads the same after
    any later evaluation. -/
theorem C19_result_stable (s : St α) (x y : List α) :
    let r1 := indivPooled false s x
    let r2 := indivPooled false r1.1 y
    r1.2.read r2.1 = r1.2.read r1.1 := by
  cases s <;> simp [indivPooled, Result.read]

/-- … whereas the unrepaired wrapper returned a view of its buffer: a later call rewrote the
    earlier result. -/
theorem C19_alias_counterexample :
    let s : St Nat := some [(true, 5), (false, 0)]
    let r1 := indivPooled true s [1]
    let r2 := indivPooled true r1.1 [2]
    r1.2.read r1.1 = [5, 1] ∧ r1.2.read r2.1 = [5, 2] := by
  decide

end ChiModel.Purity

/-! ## objects and the objects they were built from -/
namespace ChiModel.Ownership
open ChiModel.Reduced ChiModel.Purity
variable {α β : Type}

theorem act_other (names : List String) (g : α) (σ : Store α) (x : Act α) (b : Nat) (h : x.cell ≠ b) :
    act names g σ x b = σ b := by
  cases x <;> simp [act, setCell, Act.cell] at * <;> intro hb <;> exact absurd hb.symm h

/-- C19 / C08 (frame): whatever is done — fixes, releases, evaluations, in any number and order — to
    OTHER objects leaves the hidden state of the object in cell `b` as it was. -/
theorem C19_frame (names : List String) (g : α) (l : List (Act α)) (σ : Store α) (b : Nat)
    (h : ∀ x ∈ l, x.cell ≠ b) : acts names g σ l b = σ b := by
  induction l generalizing σ with
  | nil => rfl
  | cons x xs ih =>
    simp only [acts, List.foldl_cons]
    have := ih (act names g σ x) (fun y hy => h y (List.mem_cons_of_mem _ hy))
    simp only [acts] at this
    rw [this, act_other names g σ x b (h x List.mem_cons_self)]

/-- C19 (siblings, later changes to the user's models): an object that owns a deep copy of the
    ingredient it was built from (cell `fresh`, never addressed by the caller's handle `src`) evaluates,
    after ANY activity on the ingredient and on siblings, to what it evaluated when it was made. -/
theorem C19_deep_copy_isolated (names : List String) (g : α) (σ : Store α) (src fresh : Nat)
    (l : List (Act α)) (h : ∀ x ∈ l, x.cell ≠ fresh) (F : List α → β) (free : List α) :
    evalFresh (acts names g (deepCopy σ src fresh) l fresh) F free = evalFresh (σ src) F free := by
  rw [C19_frame names g l _ fresh h]
  simp [deepCopy, setCell]

/-- … and interleaved evaluations of the object itself do not matter either (C19_sequence_is_pointwise
    on its own cell, the frame theorem on the others): the result after a mixed history equals the single
    evaluation of the untouched object, as long as nobody FIXES on the object's own cell. -/
theorem C19_mixed_history (names : List String) (g : α) (l : List (Act α)) (σ : Store α) (b : Nat)
    (h : ∀ x ∈ l, (∃ d, x = Act.fix b d) → False) (F : List α → β) (free : List α) :
    evalFresh (acts names g σ l b) F free = evalFresh (σ b) F free := by
  suffices hs : Purity.Equiv (acts names g σ l b) (σ b) by
    have := C19_eval_preserves_equiv (σ b) (acts names g σ l b) F free (Purity.equiv_symm _ _ hs)
    simpa [evalFresh] using this.2
  induction l generalizing σ with
  | nil => exact Purity.equiv_refl _
  | cons x xs ih =>
    simp only [acts, List.foldl_cons]
    have ih' := ih (act names g σ x) (fun y hy => h y (List.mem_cons_of_mem _ hy))
    simp only [acts] at ih'
    refine Purity.equiv_trans _ _ _ ih' ?_
    by_cases hc : x.cell = b
    · cases x with
      | fix a d =>
        simp only [Act.cell] at hc; subst hc
        exact absurd ⟨d, rfl⟩ (h _ List.mem_cons_self)
      | eval a fr =>
        simp only [Act.cell] at hc; subst hc
        simp only [act, setCell, if_true]
        exact (C19_eval_preserves_equiv (σ a) (σ a) (fun x => x) fr (Purity.equiv_refl _)).1
    · rw [act_other names g σ x b hc]; exact Purity.equiv_refl _

/-- a SHALLOW copy (`copy.copy` of a reduced wrapper keeps pointing at the same mask and buffer: the
    derived object's handle is the ingredient's cell): a fix made through the sibling's handle changes
    what the object evaluates to (witness of the seeded change C08-5). -/
theorem C19_shared_cell_counterexample :
    let names := ["a", "b"]
    let σ : Store Nat := fun _ => some [(true, 1), (false, 0)]
    let shared := acts names 0 σ [Act.fix 0 [("a", some 5)]]          -- sibling and object both live in cell 0
    let owned := acts names 0 (deepCopy σ 0 1) [Act.fix 0 [("a", some 5)]]   -- the object owns cell 1
    evalFresh (shared 0) (fun x => x) [7] = [5, 7] ∧ evalFresh (owned 1) (fun x => x) [7] = [1, 7] := by
  decide
end ChiModel.Ownership
