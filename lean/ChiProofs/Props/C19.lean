import ChiModel.Purity
set_option linter.unusedSectionVars false
set_option linter.unusedSimpArgs false
set_option linter.unusedVariables false
/-!
# C19 — evaluations are pure: no hidden state, no input mutation
-/
namespace ChiModel.Purity
open ChiModel.Reduced
variable {α β : Type}

theorem fill_writeFree : ∀ (c : List (Bool × α)) (w free : List α),
    fill (writeFree c w) free = fill c free
  | [], _, _ => by simp [writeFree, fill]
  | (true, v) :: cs, w, free => by simp [writeFree, fill, fill_writeFree cs w free]
  | (false, g) :: cs, x :: w, [] => by simp [writeFree, fill]
  | (false, g) :: cs, x :: w, y :: free => by simp [writeFree, fill, fill_writeFree cs w free]
  | (false, g) :: cs, [], [] => by simp [writeFree, fill]
  | (false, g) :: cs, [], y :: free => by simp [writeFree, fill, fill_writeFree cs [] free]

theorem mask_writeFree : ∀ (c : List (Bool × α)) (w : List α),
    (writeFree c w).map (·.1) = c.map (·.1)
  | [], _ => by simp [writeFree]
  | (true, v) :: cs, w => by simp [writeFree, mask_writeFree cs w]
  | (false, g) :: cs, x :: w => by simp [writeFree, mask_writeFree cs w]
  | (false, g) :: cs, [] => by simp [writeFree, mask_writeFree cs []]

theorem fixed_writeFree : ∀ (c : List (Bool × α)) (w : List α),
    (writeFree c w).filter (·.1) = c.filter (·.1)
  | [], _ => by simp [writeFree]
  | (true, v) :: cs, w => by simp [writeFree, fixed_writeFree cs w]
  | (false, g) :: cs, x :: w => by simp [writeFree, fixed_writeFree cs w]
  | (false, g) :: cs, [] => by simp [writeFree, fixed_writeFree cs []]

/-- hidden states that differ only in the contents of free (never-read) buffer cells -/
def Equiv (s t : St α) : Prop :=
  match s, t with
  | none, none => True
  | some c, some d => c.map (·.1) = d.map (·.1) ∧ ∀ free, fill c free = fill d free
  | _, _ => False

theorem equiv_refl (s : St α) : Equiv s s := by
  cases s <;> simp [Equiv]

/-- C19 (one evaluation): the hidden state after an evaluation is equivalent to the state before
    (same mask, same fixed values — only free cells of the buffer were overwritten), and the
    result depends on the equivalence class only. -/
theorem C19_eval_preserves_equiv (s s' : St α) (F : List α → β) (free : List α) (h : Equiv s s') :
    Equiv (evalStep s F free).1 s ∧ (evalStep s' F free).2 = (evalStep s F free).2 := by
  cases s with
  | none => cases s' with
    | none => simp [evalStep, Equiv]
    | some d => simp [Equiv] at h
  | some c => cases s' with
    | none => simp [Equiv] at h
    | some d =>
      simp only [evalStep, Equiv] at h ⊢
      exact ⟨⟨mask_writeFree c free, fun fr => fill_writeFree c free fr⟩, by rw [h.2 free]⟩

theorem equiv_trans (a b c : St α) (h1 : Equiv a b) (h2 : Equiv b c) : Equiv a c := by
  cases a <;> cases b <;> cases c <;> simp [Equiv] at * 
  exact ⟨h1.1.trans h2.1, fun fr => (h1.2 fr).trans (h2.2 fr)⟩

theorem equiv_symm (a b : St α) (h : Equiv a b) : Equiv b a := by
  cases a <;> cases b <;> simp [Equiv] at *
  exact ⟨h.1.symm, fun fr => (h.2 fr).symm⟩

theorem evalSeq_spec (F : List α → β) : ∀ (frees : List (List α)) (s s0 : St α), Equiv s s0 →
    (evalSeq s F frees).2 = frees.map (evalFresh s0 F) ∧ Equiv (evalSeq s F frees).1 s0
  | [], s, s0, h => by simp [evalSeq, h]
  | free :: rest, s, s0, h => by
    have h1 := C19_eval_preserves_equiv s s0 F free h
    have hs : Equiv (evalStep s F free).1 s0 := equiv_trans _ _ _ h1.1 h
    have ih := evalSeq_spec F rest (evalStep s F free).1 s0 hs
    simp only [evalSeq, List.map_cons]
    refine ⟨?_, ih.2⟩
    rw [ih.1]
    simp only [evalFresh, h1.2]

/-- C19 (any sequence of evaluations): the k-th result of ANY sequence of evaluations on one
    object equals what a single evaluation of the untouched object returns for that input —
    earlier evaluations leave no observable trace; and the object ends in a state equivalent to the
    one it started in. -/
theorem C19_sequence_is_pointwise (s : St α) (F : List α → β) (frees : List (List α)) :
    (evalSeq s F frees).2 = frees.map (evalFresh s F) ∧ Equiv (evalSeq s F frees).1 s :=
  evalSeq_spec F frees s s (equiv_refl s)

/-- C19 (interleaving with other evaluation kinds): value, pointwise values, sensitivities and
    seeded samples are different functions `F`, `G` of the same full vector; interleaving them
    changes nothing. -/
theorem C19_interleave {γ : Type} (s : St α) (F : List α → β) (G : List α → γ) (x y : List α) :
    (evalStep (evalStep s G y).1 F x).2 = (evalStep s F x).2 := by
  have h := C19_eval_preserves_equiv s s G y (equiv_refl s)
  exact (C19_eval_preserves_equiv s (evalStep s G y).1 F x (equiv_symm _ _ h.1)).2

/-- C19 (sensitivity switch): what the likelihood asks of the solver depends on the operation
    only, not on what was evaluated before. -/
theorem C19_switch_history_free (flag flag' : Bool) (op : LLOp) :
    llRequests flag op = llRequests flag' op := by
  cases op <;> rfl

/-- C19 (results own their data, repaired version): a result returned earlier reads the same after
    any later evaluation. -/
theorem C19_result_stable (s : St α) (x y : List α) :
    let r1 := indivPooled false s x
    let r2 := indivPooled false r1.1 y
    r1.2.read r2.1 = r1.2.read r1.1 := by
  cases s <;> simp [indivPooled, Result.read]

/-- … whereas the unrepaired wrapper returned a view of its buffer: a later call rewrote the
    earlier result. -/
theorem C19_alias_counterexample :
    let s : St Nat := some [(true, 5), (false, 0)]
    let r1 := indivPooled true s [1]
    let r2 := indivPooled true r1.1 [2]
    r1.2.read r1.1 = [5, 1] ∧ r1.2.read r2.1 = [5, 2] := by
  decide

end ChiModel.Purity
