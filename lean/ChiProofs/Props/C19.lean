import ChiModel.Purity
import ChiModel.Ownership
set_option linter.unusedSectionVars false
set_option linter.unusedSimpArgs false
set_option linter.unusedVariables false
/-!
# C19 — evaluations are pure: no hidden state, no input mutation
-/
namespace ChiModel.Purity
open ChiModel.Reduced
variable {α β : Type}

theorem fill_writeFree : ∀ (c : List (Bool × α)) (w free : List α),
    fill (writeFree c w) free = fill c free
  | [], _, _ => by simp [writeFree, fill]
  | (true, v) :: cs, w, free => by simp [writeFree, fill, fill_writeFree cs w free]
  | (false, g) :: cs, x :: w, [] => by simp [writeFree, fill]
  | (false, g) :: cs, x :: w, y :: free => by simp [writeFree, fill, fill_writeFree cs w free]
  | (false, g) :: cs, [], [] => by simp [writeFree, fill]
  | (false, g) :: cs, [], y :: free => by simp [writeFree, fill, fill_writeFree cs [] free]

theorem mask_writeFree : ∀ (c : List (Bool × α)) (w : List α),
    (writeFree c w).map (·.1) = c.map (·.1)
  | [], _ => by simp [writeFree]
  | (true, v) :: cs, w => by simp [writeFree, mask_writeFree cs w]
  | (false, g) :: cs, x :: w => by simp [writeFree, mask_writeFree cs w]
  | (false, g) :: cs, [] => by simp [writeFree, mask_writeFree cs []]

theorem fixed_writeFree : ∀ (c : List (Bool × α)) (w : List α),
    (writeFree c w).filter (·.1) = c.filter (·.1)
  | [], _ => by simp [writeFree]
  | (true, v) :: cs, w => by simp [writeFree, fixed_writeFree cs w]
  | (false, g) :: cs, x :: w => by simp [writeFree, fixed_writeFree cs w]
  | (false, g) :: cs, [] => by simp [writeFree, fixed_writeFree cs []]

/-- hidden states that differ only in the contents of free (never-read) buffer cells -/
def Equiv (s t : St α) : Prop :=
  match s, t with
  | none, none => True
  | some c, some d => c.map (·.1) = d.map (·.1) ∧ ∀ free, fill c free = fill d free
  | _, _ => False

theorem equiv_refl (s : St α) : Equiv s s := by
  cases s <;> simp [Equiv]

/-- C19 (one evaluation): the hidden state after an evaluation is equivalent to the state before
    (same mask, same fixed values — only free cells of the buffer were overwritten), and the
    result depends on the equivalence class only. -/
theorem C19_eval_preserves_equiv (s s' : St α) (F : List α → β) (free : List α) (h : Equiv s s') :
    Equiv (evalStep s F free).1 s ∧ (evalStep s' F free).2 = (evalStep s F free).2 := by
  cases s with
  | none => cases s' with
    | none => simp [evalStep, Equiv]
    | some d => simp [Equiv] at h
  | some c => cases s' with
    | none => simp [Equiv] at h
    | some d =>
      simp only [evalStep, Equiv] at h ⊢
      exact ⟨⟨mask_writeFree c free, fun fr => fill_writeFree c free fr⟩, by rw [h.2 free]⟩

theorem equiv_trans (a b c : St α) (h1 : Equiv a b) (h2 : Equiv b c) : Equiv a c := by
  cases a <;> cases b <;> cases c <;> simp [Equiv] at * 
  exact ⟨h1.1.trans h2.1, fun fr => (h1.2 fr).trans (h2.2 fr)⟩

theorem equiv_symm (a b : St α) (h : Equiv a b) : Equiv b a := by
  cases a <;> cases b <;> simp [Equiv] at *
  exact ⟨h.1.symm, fun fr => (h.2 fr).symm⟩

theorem evalSeq_spec (F : List α → β) : ∀ (frees : List (List α)) (s s0 : St α), Equiv s s0 →
    (evalSeq s F frees).2 = frees.map (evalFresh s0 F) ∧ Equiv (evalSeq s F frees).1 s0
  | [], s, s0, h => by simp [evalSeq, h]
  | free :: rest, s, s0, h => by
    have h1 := C19_eval_preserves_equiv s s0 F free h
    have hs : Equiv (evalStep s F free).1 s0 := equiv_trans _ _ _ h1.1 h
    have ih := evalSeq_spec F rest (evalStep s F free).1 s0 hs
    simp only [evalSeq, List.map_cons]
    refine ⟨?_, ih.2⟩
    rw [ih.1]
    simp only [evalFresh, h1.2]

/-- C19 (any sequence of evaluations): the k-th result of ANY sequence of evaluations on one
    object equals what a single evaluation of the untouched object returns for that input —
    earlier evaluations leave no observable trace; and the object ends in a state equivalent to the
    one it started in. -/
theorem C19_sequence_is_pointwise (s : St α) (F : List α → β) (frees : List (List α)) :
    (evalSeq s F frees).2 = frees.map (evalFresh s F) ∧ Equiv (evalSeq s F frees).1 s :=
  evalSeq_spec F frees s s (equiv_refl s)

/-- C19 (interleaving with other evaluation kinds): value, pointwise values, sensitivities and
    seeded samples are different functions `F`, `G` of the same full vector; interleaving them
    changes nothing. -/
theorem C19_interleave {γ : Type} (s : St α) (F : List α → β) (G : List α → γ) (x y : List α) :
    (evalStep (evalStep s G y).1 F x).2 = (evalStep s F x).2 := by
  have h := C19_eval_preserves_equiv s s G y (equiv_refl s)
  exact (C19_eval_preserves_equiv s (evalStep s G y).1 F x (equiv_symm _ _ h.1)).2

/-- C19 (sensitivity switch): what the likelihood asks of the solver depends on the operation
    only, not on what was evaluated before. -/
theorem C19_switch_history_free (flag flag' : Bool) (op : LLOp) :
    llRequests flag op = llRequests flag' op := by
  cases op <;> rfl

/-- C19 (results own their data, repaired version): a result returned earlier reads the same after
    any later evaluation. -/
theorem C19_result_stable (s : St α) (x y : List α) :
    let r1 := indivPooled false s x
    let r2 := indivPooled false r1.1 y
    r1.2.read r2.1 = r1.2.read r1.1 := by
  cases s <;> simp [indivPooled, Result.read]

/-- … whereas the unrepaired wrapper returned a view of its buffer: a later call rewrote the
    earlier result. -/
theorem C19_alias_counterexample :
    let s : St Nat := some [(true, 5), (false, 0)]
    let r1 := indivPooled true s [1]
    let r2 := indivPooled true r1.1 [2]
    r1.2.read r1.1 = [5, 1] ∧ r1.2.read r2.1 = [5, 2] := by
  decide

end ChiModel.Purity

/-! ## objects and the objects they were built from -/
namespace ChiModel.Ownership
open ChiModel.Reduced ChiModel.Purity
variable {α β : Type}

theorem act_other (names : List String) (g : α) (σ : Store α) (x : Act α) (b : Nat) (h : x.cell ≠ b) :
    act names g σ x b = σ b := by
  cases x <;> simp [act, setCell, Act.cell] at * <;> intro hb <;> exact absurd hb.symm h

/-- C19 / C08 (frame): whatever is done — fixes, releases, evaluations, in any number and order — to
    OTHER objects leaves the hidden state of the object in cell `b` as it was. -/
theorem C19_frame (names : List String) (g : α) (l : List (Act α)) (σ : Store α) (b : Nat)
    (h : ∀ x ∈ l, x.cell ≠ b) : acts names g σ l b = σ b := by
  induction l generalizing σ with
  | nil => rfl
  | cons x xs ih =>
    simp only [acts, List.foldl_cons]
    have := ih (act names g σ x) (fun y hy => h y (List.mem_cons_of_mem _ hy))
    simp only [acts] at this
    rw [this, act_other names g σ x b (h x List.mem_cons_self)]

/-- C19 (siblings, later changes to the user's models): an object that owns a deep copy of the
    ingredient it was built from (cell `fresh`, never addressed by the caller's handle `src`) evaluates,
    after ANY activity on the ingredient and on siblings, to what it evaluated when it was made. -/
theorem C19_deep_copy_isolated (names : List String) (g : α) (σ : Store α) (src fresh : Nat)
    (l : List (Act α)) (h : ∀ x ∈ l, x.cell ≠ fresh) (F : List α → β) (free : List α) :
    evalFresh (acts names g (deepCopy σ src fresh) l fresh) F free = evalFresh (σ src) F free := by
  rw [C19_frame names g l _ fresh h]
  simp [deepCopy, setCell]

/-- … and interleaved evaluations of the object itself do not matter either (C19_sequence_is_pointwise
    on its own cell, the frame theorem on the others): the result after a mixed history equals the single
    evaluation of the untouched object, as long as nobody FIXES on the object's own cell. -/
theorem C19_mixed_history (names : List String) (g : α) (l : List (Act α)) (σ : Store α) (b : Nat)
    (h : ∀ x ∈ l, (∃ d, x = Act.fix b d) → False) (F : List α → β) (free : List α) :
    evalFresh (acts names g σ l b) F free = evalFresh (σ b) F free := by
  suffices hs : Purity.Equiv (acts names g σ l b) (σ b) by
    have := C19_eval_preserves_equiv (σ b) (acts names g σ l b) F free (Purity.equiv_symm _ _ hs)
    simpa [evalFresh] using this.2
  induction l generalizing σ with
  | nil => exact Purity.equiv_refl _
  | cons x xs ih =>
    simp only [acts, List.foldl_cons]
    have ih' := ih (act names g σ x) (fun y hy => h y (List.mem_cons_of_mem _ hy))
    simp only [acts] at ih'
    refine Purity.equiv_trans _ _ _ ih' ?_
    by_cases hc : x.cell = b
    · cases x with
      | fix a d =>
        simp only [Act.cell] at hc; subst hc
        exact absurd ⟨d, rfl⟩ (h _ List.mem_cons_self)
      | eval a fr =>
        simp only [Act.cell] at hc; subst hc
        simp only [act, setCell, if_true]
        exact (C19_eval_preserves_equiv (σ a) (σ a) (fun x => x) fr (Purity.equiv_refl _)).1
    · rw [act_other names g σ x b hc]; exact Purity.equiv_refl _

/-- a SHALLOW copy (`copy.copy` of a reduced wrapper keeps pointing at the same mask and buffer: the
    derived object's handle is the ingredient's cell): a fix made through the sibling's handle changes
    what the object evaluates to (witness of the seeded change C08-5). -/
theorem C19_shared_cell_counterexample :
    let names := ["a", "b"]
    let σ : Store Nat := fun _ => some [(true, 1), (false, 0)]
    let shared := acts names 0 σ [Act.fix 0 [("a", some 5)]]          -- sibling and object both live in cell 0
    let owned := acts names 0 (deepCopy σ 0 1) [Act.fix 0 [("a", some 5)]]   -- the object owns cell 1
    evalFresh (shared 0) (fun x => x) [7] = [5, 7] ∧ evalFresh (owned 1) (fun x => x) [7] = [1, 7] := by
  decide
end ChiModel.Ownership
/-! ## free cells of the buffer are never read: a normal form -/
namespace ChiModel.Purity
open ChiModel.Reduced
variable {α β : Type}

/-- a free cell's content is never read: normal form with the free cells blanked -/
def canonCell (g : α) (x : Bool × α) : Bool × α := if x.1 then x else (false, g)
def normSt (g : α) : St α → St α := Option.map (List.map (canonCell g))

theorem fill_canon (g : α) : ∀ (c : List (Bool × α)) (free : List α),
    fill (c.map (canonCell g)) free = fill c free
  | [], _ => by simp [fill]
  | (true, v) :: cs, free => by simp [fill, canonCell, fill_canon g cs free]
  | (false, v) :: cs, x :: free => by simp [fill, canonCell, fill_canon g cs free]
  | (false, v) :: cs, [] => by simp [fill, canonCell]

theorem restrict_canon {γ : Type} (g : α) : ∀ (c : List (Bool × α)) (l : List γ),
    restrict (c.map (canonCell g)) l = restrict c l
  | [], _ => by simp [restrict]
  | (b, v) :: cs, [] => by cases b <;> simp [restrict, canonCell]
  | (true, v) :: cs, y :: l => by simp [restrict, canonCell, restrict_canon g cs l]
  | (false, v) :: cs, y :: l => by simp [restrict, canonCell, restrict_canon g cs l]

theorem canon_writeFree (g : α) : ∀ (c : List (Bool × α)) (w : List α),
    (writeFree c w).map (canonCell g) = c.map (canonCell g)
  | [], _ => by simp [writeFree]
  | (true, v) :: cs, w => by simp [writeFree, canon_writeFree g cs w]
  | (false, v) :: cs, x :: w => by simp [writeFree, canonCell, canon_writeFree g cs w]
  | (false, v) :: cs, [] => by simp [writeFree, canonCell, canon_writeFree g cs []]

theorem canon_upd (g : α) (d : Req α) (n : String) (mb : Bool × α) :
    canonCell g (upd g d n mb) = upd g d n (canonCell g mb) := by
  unfold upd
  cases lookupLast d n with
  | none => rfl
  | some r => cases r <;> simp [canonCell]

theorem zipWith_upd_canon (g : α) (d : Req α) : ∀ (names : List String) (c : List (Bool × α)),
    List.zipWith (upd g d) names (c.map (canonCell g)) = (List.zipWith (upd g d) names c).map (canonCell g)
  | [], _ => by simp
  | _ :: _, [] => by simp
  | n :: ns, x :: c => by simp [canon_upd, zipWith_upd_canon g d ns c]

theorem all_free_canon (g : α) (c : List (Bool × α)) :
    (c.map (canonCell g)).all (fun x => !x.1) = c.all (fun x => !x.1) := by
  induction c with
  | nil => rfl
  | cons x xs ih => rcases x with ⟨b, v⟩; cases b <;> simp [canonCell, ih]

theorem view_norm (names : List String) (g : α) (st : St α) :
    view names g (normSt g st) = (view names g st).map (canonCell g) := by
  cases st <;> simp [view, normSt, canonCell, Function.comp_def]

theorem norm_fixStep (names : List String) (g : α) (st : St α) (d : Req α) :
    normSt g (fixStep names g st d) = fixStep names g (normSt g st) d := by
  simp only [fixStep, view_norm, zipWith_upd_canon, all_free_canon]
  split <;> simp [normSt]

theorem freeOf_norm (names : List String) (g : α) (st : St α) :
    freeOf names g (normSt g st) = freeOf names g st := by
  simp [freeOf, view_norm, restrict_canon]

theorem evalFresh_norm (g : α) (st : St α) (F : List α → β) (free : List α) :
    evalFresh (normSt g st) F free = evalFresh st F free := by
  cases st <;> simp [evalFresh, evalStep, normSt, fill_canon]

theorem norm_evalStep (g : α) (st : St α) (F : List α → β) (free : List α) :
    normSt g (evalStep st F free).1 = normSt g st := by
  cases st <;> simp [evalStep, normSt, canon_writeFree]

end ChiModel.Purity

/-! ## evaluations interleaved with re-configuration -/
namespace ChiModel.Purity
open ChiModel.Reduced
variable {α β : Type}

/-- whenever sensitivities are on, they are on for exactly the currently free names -/
def ColsOK (names : List String) (g : α) (m : MSt α) : Prop :=
  ∀ cs, m.columns = some cs → cs = freeOf names g m.cfg

theorem columns_off (m : MSt α) (h : m.hasSens = false) : m.columns = none := by
  rcases m with ⟨c, i, e⟩
  cases e <;> cases i <;> simp [MSt.hasSens, MSt.columns] at *

theorem columns_on (names : List String) (g : α) (m : MSt α) (hm : ColsOK names g m) (h : m.hasSens = true) :
    m.columns = some (freeOf names g m.cfg) := by
  rcases m with ⟨c, i, e⟩
  cases e with
  | true => exact congrArg some (hm [] (by simp [MSt.columns]))
  | false => cases i with
    | none => simp [MSt.hasSens] at h
    | some ns => exact congrArg some (hm ns (by simp [MSt.columns]))

theorem enable_cfg (names : List String) (g : α) (m : MSt α) (b : Bool) : (enableM names g m b).cfg = m.cfg := by
  unfold enableM; cases b <;> simp <;> split <;> rfl

theorem enable_true_columns (names : List String) (g : α) (m : MSt α) :
    (enableM names g m true).columns = some (freeOf names g m.cfg) := by
  unfold enableM
  simp only [Bool.not_true, Bool.false_eq_true, if_false]
  split
  · rename_i h; simp [MSt.columns, List.isEmpty_iff.mp h]
  · simp [MSt.columns]

theorem enable_false_columns (names : List String) (g : α) (m : MSt α) :
    (enableM names g m false).columns = none := by
  simp [enableM, MSt.columns]

theorem colsOK_enable (names : List String) (g : α) (m : MSt α) (b : Bool) : ColsOK names g (enableM names g m b) := by
  intro cs h
  cases b with
  | false => simp [enable_false_columns] at h
  | true => rw [enable_true_columns] at h; rw [enable_cfg]; exact (Option.some.inj h).symm

theorem colsOK_fix (names : List String) (g : α) (m : MSt α) (d : Req α) : ColsOK names g (fixM names g m d) := by
  unfold fixM
  simp only
  split
  · exact colsOK_enable names g _ true
  · rename_i h
    intro cs hc
    rw [columns_off _ (by simpa using h)] at hc
    cases hc

theorem freeOf_evalStep (names : List String) (g : α) (st : St α) (F : List α → β) (free : List α) :
    freeOf names g (evalStep st F free).1 = freeOf names g st := by
  rw [← freeOf_norm, norm_evalStep, freeOf_norm]

theorem colsOK_sim (names : List String) (g : α) (m : MSt α) (free : List α) (hm : ColsOK names g m) :
    ColsOK names g (simM names g m free).1 := by
  intro cs h
  simp only [simM, freeOf_evalStep]
  exact hm cs h

/-- C19 (sensitivity set-up follows the configuration): after ANY history of fixes, releases, switching
    and simulations on a reduced mechanistic model, the sensitivity block `simulate` returns has exactly one
    column per parameter that is free NOW, in order — never a column of a parameter that was free
    when an earlier evaluation switched the sensitivities on. -/
theorem C19_sens_columns_follow_configuration (names : List String) (g : α) (p : List (MOp α)) :
    ColsOK names g (runM names g MSt.init p) := by
  suffices h : ∀ m, ColsOK names g m → ColsOK names g (runM names g m p) by
    exact h _ (by intro cs hc; simp [MSt.init, MSt.columns] at hc)
  induction p with
  | nil => exact fun m hm => hm
  | cons op rest ih =>
    intro m hm
    simp only [runM, List.foldl_cons]
    apply ih
    cases op with
    | fix d => exact colsOK_fix names g m d
    | sens b => exact colsOK_enable names g m b
    | sim free => exact colsOK_sim names g m free hm

/-- the result of a likelihood evaluation is a function of the operation, the input and the
    (normalised) configuration only -/
theorem llEval_result (names : List String) (g : α) (m : MSt α) (hm : ColsOK names g m) (op : LLOp) (free : List α) :
    (llEvalM names g m op free).2 =
      (evalFresh (normSt g m.cfg) (fun x => x) free,
       if llStep false op then some (freeOf names g (normSt g m.cfg)) else none) := by
  have hstep : ∀ b, llStep b op = llStep false op := fun b => by cases op <;> rfl
  unfold llEvalM
  simp only [hstep m.hasSens]
  rw [evalFresh_norm, freeOf_norm]
  by_cases hs : m.hasSens = llStep false op
  · simp only [hs, beq_self_eq_true, if_true, simM]
    cases hw : llStep false op with
    | true => simp [columns_on names g m hm (hs.trans hw)]
    | false => simp [columns_off m (hs.trans hw)]
  · have : (m.hasSens == llStep false op) = false := by simpa using hs
    simp only [this, Bool.false_eq_true, if_false, simM, enable_cfg]
    cases hw : llStep false op with
    | true => simp [enable_true_columns]
    | false => simp [enable_false_columns]

theorem llEval_state (names : List String) (g : α) (m : MSt α) (hm : ColsOK names g m) (op : LLOp) (free : List α) :
    ColsOK names g (llEvalM names g m op free).1 ∧ normSt g (llEvalM names g m op free).1.cfg = normSt g m.cfg := by
  unfold llEvalM
  simp only
  split
  · exact ⟨colsOK_sim names g m free hm, by simp [simM, norm_evalStep]⟩
  · exact ⟨colsOK_sim names g _ free (colsOK_enable names g m _), by simp [simM, norm_evalStep, enable_cfg]⟩

theorem fixM_norm (names : List String) (g : α) (m m' : MSt α) (d : Req α) (h : normSt g m.cfg = normSt g m'.cfg) :
    normSt g (fixM names g m d).cfg = normSt g (fixM names g m' d).cfg := by
  have : ∀ m : MSt α, (fixM names g m d).cfg = fixStep names g m.cfg d := by
    intro m; unfold fixM; simp only; split <;> simp [enable_cfg]
  rw [this, this, norm_fixStep, norm_fixStep, h]

/-- C19 (evaluations leave no trace across re-configurations): after ANY history of `fix_parameters`
    calls and evaluations (value, pointwise, with sensitivities — in any order) on a likelihood, an
    evaluation returns what it returns on a twin that went through the `fix_parameters` calls only:
    same full parameter vector at the solver, sensitivity columns for the same names. -/
theorem C19_reconfigure_history_free (names : List String) (g : α) (p : List (LOp α)) (op : LLOp) (free : List α) :
    (llEvalM names g (runL names g MSt.init p) op free).2 =
    (llEvalM names g (runL names g MSt.init (p.filter LOp.isFix)) op free).2 := by
  suffices h : ∀ m m' : MSt α, ColsOK names g m → ColsOK names g m' → normSt g m.cfg = normSt g m'.cfg →
      ColsOK names g (runL names g m p) ∧ ColsOK names g (runL names g m' (p.filter LOp.isFix)) ∧
      normSt g (runL names g m p).cfg = normSt g (runL names g m' (p.filter LOp.isFix)).cfg by
    have h0 : ColsOK names g (MSt.init : MSt α) := by intro cs hc; simp [MSt.init, MSt.columns] at hc
    obtain ⟨h1, h2, h3⟩ := h _ _ h0 h0 rfl
    rw [llEval_result names g _ h1, llEval_result names g _ h2, h3]
  induction p with
  | nil => exact fun m m' hm hm' h => ⟨hm, hm', h⟩
  | cons x rest ih =>
    intro m m' hm hm' h
    cases x with
    | fix d =>
      simp only [runL, List.filter_cons, LOp.isFix, if_true, List.foldl_cons, stepL]
      exact ih _ _ (colsOK_fix names g m d) (colsOK_fix names g m' d) (fixM_norm names g m m' d h)
    | eval o fr =>
      simp only [runL, List.filter_cons, LOp.isFix, Bool.false_eq_true, if_false, List.foldl_cons, stepL]
      have := llEval_state names g m hm o fr
      exact ih _ _ this.1 hm' (this.2.trans h)

/-- … whereas with the shortcut "repeat the sensitivity set-up only when the NUMBER of free parameters
    changed" an earlier evaluation with sensitivities shows: swap which parameter is fixed, and the next
    `evaluateS1` gets the column of the parameter that is fixed now (`b`) in place of the freed one (`a`);
    the twin that was never evaluated gets the right columns. -/
theorem C19_count_shortcut_counterexample :
    let names := ["a", "b", "c"]
    let swap : Req Nat := [("a", none), ("b", some 3)]
    let before := fixM names 0 MSt.init [("a", some 2)]
    let evaluated := (llEvalM names 0 before LLOp.s1 [4, 5]).1
    (llEvalM names 0 (fixMCount names 0 evaluated swap) LLOp.s1 [7, 5]).2 = ([7, 3, 5], some ["b", "c"]) ∧
    (llEvalM names 0 (fixMCount names 0 before swap) LLOp.s1 [7, 5]).2 = ([7, 3, 5], some ["a", "c"]) ∧
    (llEvalM names 0 (fixM names 0 evaluated swap) LLOp.s1 [7, 5]).2 = ([7, 3, 5], some ["a", "c"]) := by
  decide

end ChiModel.Purity

/-! ## objects built from a caller's filter; remembered intermediate results -/
namespace ChiModel.Ownership
variable {α β : Type}

theorem fact_other (order : List Nat) (σ : FStore β) (x : FAct) (b : Nat) (h : x.target ≠ b) :
    fact order σ x b = σ b := by
  cases x <;> simp [fact, construct, fset, FAct.target] at * <;> intro hb <;> exact absurd hb.symm h

/-- frame: whatever is built or re-ordered elsewhere leaves the filter in cell `b` as it was -/
theorem facts_frame (order : List Nat) (l : List FAct) (σ : FStore β) (b : Nat)
    (h : ∀ x ∈ l, x.target ≠ b) : facts order σ l b = σ b := by
  induction l generalizing σ with
  | nil => rfl
  | cons x xs ih =>
    simp only [facts, List.foldl_cons]
    have := ih (fact order σ x) (fun y hy => h y (List.mem_cons_of_mem _ hy))
    simp only [facts] at this
    rw [this, fact_other order σ x b (h x List.mem_cons_self)]

/-- C19 (constructor arguments are not modified): building any number of posteriors — into cells of their
    own — leaves the caller's filter exactly as it was. -/
theorem C19_construct_leaves_ingredient (order : List Nat) (σ : FStore β) (src : Nat) (dsts : List Nat)
    (h : src ∉ dsts) : facts order σ (dsts.map (FAct.build src)) src = σ src := by
  apply facts_frame
  intro x hx
  obtain ⟨d, hd, rfl⟩ := List.mem_map.1 hx
  simp only [FAct.target]
  intro e; exact h (e ▸ hd)

/-- C19 (objects built from the same ingredients evaluate alike, and are unaffected by what the caller does
    with his filter afterwards): every posterior built from the filter in `src`, the first as the last, holds
    `takeCols (σ src) order`, after ANY later activity (further constructions, the caller re-ordering his own
    filter) that does not address the built object's own cell. -/
theorem C19_constructions_agree (order : List Nat) (σ : FStore β) (src dst : Nat)
    (before after : List FAct) (hb : ∀ x ∈ before, x.target ≠ src) (ha : ∀ x ∈ after, x.target ≠ dst) :
    facts order σ (before ++ FAct.build src dst :: after) dst = takeCols (σ src) order := by
  simp only [facts, List.foldl_append, List.foldl_cons]
  have h1 := facts_frame order after (fact order (List.foldl (fact order) σ before) (FAct.build src dst)) dst ha
  simp only [facts] at h1
  rw [h1]
  have h2 := facts_frame order before σ src hb
  simp only [facts] at h2
  simp [fact, construct, fset, h2]

/-- measurement times that are already increasing (`argsort` = identity) hide the difference between
    "order the copy" and "order the caller's filter, then copy": the pinned tests use sorted times only -/
theorem takeCols_range : ∀ (cols : List β), takeCols cols (List.range cols.length) = cols
  | [] => by simp [takeCols]
  | x :: xs => by
    have ih := takeCols_range xs
    simp only [takeCols] at ih ⊢
    rw [List.length_cons, List.range_succ_eq_map, List.filterMap_cons]
    simp only [List.getElem?_cons_zero, List.filterMap_map]
    congr 1

theorem C19_in_place_invisible_for_sorted_times (σ : FStore β) (src dst : Nat) (h : dst ≠ src) (b : Nat) :
    constructInPlace (List.range (σ src).length) σ src dst b = construct (List.range (σ src).length) σ src dst b := by
  simp only [constructInPlace, construct, fset, takeCols_range]
  by_cases hd : b = dst
  · simp [hd]
  · by_cases hs : b = src
    · simp [hd, hs]
    · simp [hd, hs]

/-- … whereas for times that are not increasing the seeded constructor changes the caller's filter and the
    second posterior built from it differs from the first (witness of the seeded change C19-13). -/
theorem C19_construct_in_place_counterexample :
    let σ : FStore Nat := fun _ => [10, 20, 30]
    let o := [1, 2, 0]
    let l := [FAct.build 0 1, FAct.build 0 2]
    factsInPlace o σ l 1 = [20, 30, 10] ∧ factsInPlace o σ l 2 = [30, 10, 20] ∧ factsInPlace o σ l 0 ≠ σ 0 ∧
    facts o σ l 1 = [20, 30, 10] ∧ facts o σ l 2 = [20, 30, 10] ∧ facts o σ l 0 = σ 0 := by
  decide

/-- invariant of a by-value cache: what is remembered is `T` of the remembered inputs -/
def MemoOK (T : List α → β) : Option (Key α × β) → Prop
  | none => True
  | some (Key.val l, v) => v = T l
  | some (Key.buffer, _) => False

theorem memoStep_by_value [DecidableEq α] (T : List α → β) (m : Option (Key α × β)) (p : List α)
    (hm : MemoOK T m) : (memoStep false T m p).2 = T p ∧ MemoOK T (memoStep false T m p).1 := by
  match m, hm with
  | none, _ => simp [memoStep, MemoOK]
  | some (Key.val l, v), hv =>
    simp only [MemoOK] at hv
    by_cases e : l = p
    · subst e; simp [memoStep, Key.read, MemoOK, hv]
    · simp [memoStep, Key.read, e, MemoOK]

/-- C19 (a remembered intermediate result keyed by a COPY of its inputs is invisible): for every sequence of
    parameter vectors, each evaluation returns what a fresh object returns. -/
theorem C19_memo_by_value_pure [DecidableEq α] (T : List α → β) (ps : List (List α)) (m : Option (Key α × β))
    (hm : MemoOK T m) : memoSeq false T m ps = ps.map T := by
  induction ps generalizing m with
  | nil => rfl
  | cons p ps ih =>
    have h := memoStep_by_value T m p hm
    simp only [memoSeq, List.map_cons, h.1, ih _ h.2]

/-- … keyed by the array object that arrived (the wrapper's value buffer, or the caller's own array updated in
    place) the comparison is always true and the FIRST result is returned for every later input (witness of the
    seeded change C19-14). -/
theorem C19_memo_by_reference_counterexample :
    memoSeq true (fun p : List Nat => p.map (· * 2)) none [[1], [2], [3]] = [[2], [2], [2]] ∧
    memoSeq false (fun p : List Nat => p.map (· * 2)) none [[1], [2], [3]] = [[2], [4], [6]] := by
  decide

end ChiModel.Ownership

/-! ## containers allocated without contents: every row written ⇒ the allocation history is invisible -/
namespace ChiModel.Ownership
variable {β : Type}

theorem fillRowsFrom_all (rows : Nat → β) (skip : Nat → Bool) (h : ∀ i, skip i = false) :
    ∀ (junk : List β) (k : Nat), fillRowsFrom rows skip k junk = (List.range' k junk.length).map rows
  | [], _ => by simp [fillRowsFrom]
  | _ :: js, k => by simp [fillRowsFrom, h, fillRowsFrom_all rows skip h js (k + 1), List.range'_succ]

/-- the unchanged loop (no individual skipped): for ALL previous contents of the block (all call histories) and
    all numbers of individuals the container handed on is the list of the individual gradients -/
theorem C19_every_row_written_no_junk (rows : Nat → β) (skip : Nat → Bool) (h : ∀ i, skip i = false)
    (junk junk' : List β) (hl : junk.length = junk'.length) :
    fillRows rows skip junk = fillRows rows skip junk' ∧
      fillRows rows skip junk = (List.range junk.length).map rows := by
  unfold fillRows
  rw [fillRowsFrom_all rows skip h, fillRowsFrom_all rows skip h, hl, List.range_eq_range']
  exact ⟨rfl, rfl⟩

/-- the seeded shortcut (C19-15): the individual without measurements is skipped, its row is what the block held -/
theorem C19_skipped_row_counterexample :
    fillRows (fun i => (10 * i : Nat)) (fun i => i == 1) [0, 0, 0] ≠
      fillRows (fun i => (10 * i : Nat)) (fun i => i == 1) [0, 7, 0] := by decide

example : fillRows (fun i => (10 * i : Nat)) (fun _ => false) [5, 6, 7] = [0, 10, 20] := by decide

end ChiModel.Ownership
